"""C05 - uniform (Lagrange / FFT) kernel matches the direct sum to its interpolation order.

The interpolation error bound is a floating-point statement over all inputs and is NOT decided.  Decided are the
structural conditions under which the kernel's results cannot depend on the executor, the schedule, earlier calls
or the batching, and under which it agrees with the tree it serves - each a necessary condition of the behaviour:

 1 isolation of kernel copies (S1).  Task executors run one *copy* of the kernel per worker.  Every object that holds
   scratch storage written by operator-reachable code (the FFT plans' time / frequency buffers) is held BY VALUE on
   every path from the kernel class, and its copy constructor allocates new scratch storage instead of copying the
   pointer; what is shared between copies (interpolator, M2L operators) is never written by operator-reachable code.
 2 no carried state (S2).  In every operator-reachable function of a class with scratch buffers, a buffer is wholly
   written (memcpy / memset over its allocated extent) before a plan execution or anything else reads it, and no
   function hands a pointer to a scratch buffer to its caller.  A second execute() on the same kernel object, or an
   operator order other than the sequential one, then sees the same buffers as the first.
 3 batching: the upward operators accumulate into the real expansion and afterwards *recompute* the transformed
   expansion from the accumulated one (C08.1 decides the store forms; here: the recompute is the last step of P2M
   and M2M and takes the same cell's expansion as input and output).
 4 level and code conventions: the transfer is scaled with the cell width of the operator's level argument,
   W / 2^level; every per-child call of M2M / L2L receives the position code of the child whose expansion it is
   given, every per-source call of M2L the position code of that source; the relative child centres tabulated for the
   interpolators follow the Morton child code (bit 2-d of the code = upper half in dimension d).
 5 leaf centre = corner + (coordinate + 1/2) leaf width with leaf width = W / 2^(H-1) and corner = centre - W/2,
   one function shared by P2M and L2P.
"""
import os
import re

import sympy

import tbf
import symx
import kstate
import coherence
import c04
from tbf import walk, kids, strip, AnalysisBroken

LEVEL = "other"
TECHNIQUE = "shared-state (ownership graph) and definite-assignment analysis of kernel scratch buffers + level-scaling, position-code, leaf-centre, strided-loop coverage, point-dependence (taint) and mutable-member rules over the clang AST"

K = "FUnifKernel"


def scratch_classes(facts, ks, reach):
    """class -> {scratch member: [write events]} for operator-reachable methods"""
    out = {}
    for c, m in reach:
        for e in ks.member_events(c, m):
            if e[1] in ("wcall", "wpart", "exec-out"):
                out.setdefault(c, {}).setdefault(e[2], []).append((m, e))
    return out


def isolation(facts, res, ks, reach, scratch, kernel=None, R="C05.1.copies-isolated"):
    kernel = kernel or K
    edges = ks.holders(kernel)
    n = 0
    # path kinds from the kernel to every class
    kinds = {kernel: []}
    todo = [kernel] + ks.bases(kernel)
    for b in ks.bases(kernel):
        kinds[b] = []
    while todo:
        c = todo.pop()
        for h in edges:
            if h.cls == c or h.cls in ks.bases(c):
                tgt = [h.target] + ks.bases(h.target)
                for t in tgt:
                    if t not in kinds:
                        kinds[t] = kinds.get(c, []) + [h]
                        todo.append(t)
    for c, members in sorted(scratch.items()):
        owners = [c] + [x for x in kinds if c in ks.bases(x)]
        path = None
        for o in owners:
            if o in kinds:
                path = kinds[o]
                break
        n += 1
        res.instance(R, "scratch of %s" % c, tbf.rel(facts.path_of(members[next(iter(members))][0][0])),
                     "%s written by %s; held through %s" % (sorted(members), sorted(set(m["name"] for evs in members.values() for m, _e in evs)), [repr(h) for h in (path or [])]))
        if path is None:
            if c == kernel or c in ks.bases(kernel):
                path = []       # the kernel's own members: one per copy, provided the copy constructor does not share what they point to
            else:
                raise AnalysisBroken("%s: how the kernel holds it was not found in the ownership graph" % c)
        for h in path:
            if h.kind != "value":
                ev = members[next(iter(members))][0]
                res.violation(R, tbf.rel(facts.path_of(ev[0])), "%s::%s" % (h.cls, h.field), "shared-scratch:%s" % c, ev[1][0],
                              "%s holds its %s through a %s (%s::%s) but operator-reachable %s::%s writes the scratch member '%s' of that object: all copies of the kernel - one per worker thread - "
                              "share the buffers and overwrite each other's transforms" % (h.cls, h.target, {"shared": "shared pointer", "pointer": "raw pointer", "reference": "reference", "unique": "unique pointer"}.get(h.kind, h.kind),
                                                                                                 h.cls, h.field, c, ev[0]["name"], ev[1][2]))
        # the copy constructor of the scratch class gives the copy its own buffers
        ptr_members = [mname for mname in members if "*" in next((fl.get("t", "") for _cn, fl in ks.fields(c) if fl["name"] == mname), "")]
        if not ptr_members:
            continue
        ccs = [m for m in ks.methods(c, with_bases=False) if m["kind"] == "CXXConstructor" and len(m["params"]) == 1 and re.match(r"^(const )?%s(<.*>)? ?&$" % re.escape(c), m["params"][0]["t"])]
        decl = [mm for cl in ks.classes.get(c, []) for mm in cl.get("methods", []) if mm.get("copyctor")]
        if not ccs:
            if decl and all(mm.get("deleted") for mm in decl):
                continue
            res.violation(R, tbf.rel(facts.path_of(members[ptr_members[0]][0][0])), c, "implicit-copy:%s" % c, members[ptr_members[0]][0][0]["l"][1],
                          "%s owns scratch buffers through raw pointers (%s) and has no user-provided copy constructor: a copied kernel shares them" % (c, ptr_members))
            continue
        for cc in ccs:
            other = cc["params"][0]["did"]
            for i in cc.get("inits", []):
                if i.get("member") in ptr_members:
                    for x in i.get("c", []):
                        for y in walk(x):
                            if y.get("k") in ("MemberExpr", "CXXDependentScopeMemberExpr") and y.get("name") == i["member"] and kids(y) and strip(kids(y)[0]).get("did") == other:
                                res.violation(R, tbf.rel(facts.path_of(cc)), cc["qname"], "pointer-copy:%s" % i["member"], cc["l"][1],
                                              "the copy constructor of %s copies the pointer '%s' of the source object: both objects then use the same scratch buffer" % (c, i["member"]))
            for x in walk(tbf.body(cc)):
                if x.get("k") == "BinaryOperator" and x.get("op") == "=":
                    l, r = strip(kids(x)[0]), strip(kids(x)[1])
                    if l.get("k") in ("MemberExpr", "CXXDependentScopeMemberExpr") and l.get("name") in ptr_members and r.get("k") in ("MemberExpr", "CXXDependentScopeMemberExpr") \
                            and kids(r) and strip(kids(r)[0]).get("did") == other:
                        res.violation(R, tbf.rel(facts.path_of(cc)), cc["qname"], "pointer-copy:%s" % l["name"], x["l"][1],
                                      "the copy constructor of %s copies the pointer '%s' of the source object: both objects then use the same scratch buffer" % (c, l["name"]))
            res.instance(R, "copy constructor of %s" % c, facts.loc(cc), "scratch pointers %s are not taken from the source object" % ptr_members)
    # what IS shared must not be written
    for h in edges:
        if h.kind in ("shared", "pointer", "reference") and (h.target in scratch or any(b in scratch for b in ks.bases(h.target))):
            pass   # reported above through the path rule
    return n


def carried_state(facts, res, ks, reach, scratch):
    R = "C05.2.no-carried-state"
    n = 0
    for c, members in sorted(scratch.items()):
        if c == K or c in ks.bases(K):
            continue
        # allocation extent of each scratch buffer: alloc(&buf, N) / buf = new T[N]
        extent = {}
        for m in ks.methods(c, with_bases=False):
            for x in walk(tbf.body(m)):
                if x.get("k") in ("CallExpr", "CXXMemberCallExpr") and "alloc" in (tbf.callee_name(x) or "").lower() and len(tbf.call_args(x)) == 2:
                    b = ks.field_ref(tbf.call_args(x)[0], set(members))
                    if b:
                        extent[b] = facts.ntext(tbf.call_args(x)[1])
                if x.get("k") == "BinaryOperator" and x.get("op") == "=":
                    b = ks.field_ref(kids(x)[0], set(members))
                    r = strip(kids(x)[1])
                    if b and r.get("k") == "CXXNewExpr" and kids(r):
                        extent[b] = facts.ntext(kids(r)[0])
            # `member(new T[N]())` in a constructor's initialiser list
            for ini in m.get("inits", []) or []:
                if ini.get("member") in members:
                    for y in [z for c_ in ini.get("c", []) if c_ for z in walk(c_)]:
                        if y.get("k") == "CXXNewExpr" and y.get("array") and kids(y):
                            extent.setdefault(ini["member"], facts.ntext(kids(y)[0]))
        for cc, m in reach:
            if cc != c:
                continue
            evs = ks.member_events(c, m)
            if not any(e[2] in members for e in evs):
                continue
            n += 1
            f = tbf.rel(facts.path_of(m))
            defined = set()
            trace = []
            b = tbf.body(m)
            for line, kind, mem, node, detail in evs:
                if mem not in members:
                    continue
                cond = [a for a in tbf.ancestors(node) if a.get("k") in ("IfStmt", "ForStmt", "WhileStmt", "DoStmt")]
                if kind == "wcall":
                    ext = extent.get(mem)
                    full = ext is not None and (re.fullmatch(r"sizeof\([^()]*\)\*%s|%s\*sizeof\([^()]*\)" % (re.escape(ext), re.escape(ext)), detail or "") is not None
                                                or (tbf.callee_name(node) == "setzero" and (detail or "") == ext))     # setzero(count, ptr): count in elements
                    if full and not cond:
                        defined.add(mem)
                    trace.append("%d:%s %s%s" % (line, "define" if full else "partial-write", mem, "" if not cond else " (conditional)"))
                elif kind == "wpart":
                    trace.append("%d:partial-write %s" % (line, mem))
                elif kind in ("exec-in", "read"):
                    trace.append("%d:%s %s" % (line, "plan reads" if kind == "exec-in" else "read", mem))
                    if mem not in defined:
                        res.violation(R, f, m["qname"], "stale-read:%s" % mem, line,
                                      "%s::%s %s the scratch buffer '%s' before the function has written all of it (allocated extent %s): the result depends on what an earlier operator call left there "
                                      "(a second execute() on the same kernel, or another task order, gives other numbers)" % (c, m["name"], "runs a plan that reads" if kind == "exec-in" else "reads", mem, extent.get(mem, "?")))
                        defined.add(mem)     # one report per buffer and function
                elif kind == "exec-out":
                    defined.add(mem)
                    trace.append("%d:plan defines %s" % (line, mem))
                elif kind == "escape":
                    res.violation(R, f, m["qname"], "escape:%s" % mem, line, "%s::%s returns a pointer to the scratch buffer '%s': callers can leave partial data in it" % (c, m["name"], mem))
            res.instance(R, "%s::%s" % (c, m["name"]), facts.loc(m), "; ".join(trace)[:300])
        # no method at all hands the buffers out
        for m in ks.methods(c, with_bases=False):
            for e in ks.member_events(c, m):
                if e[1] == "escape" and e[2] in members and not any(mm is m for _c, mm in reach):
                    res.violation(R, tbf.rel(facts.path_of(m)), m["qname"], "escape:%s" % e[2], e[0], "%s::%s returns a pointer to the scratch buffer '%s': code outside the class can leave partial data in it" % (c, m["name"], e[2]))
    return n


def batching(facts, res):
    R = "C05.3.recompute-after-accumulate"
    n = 0
    for op in ("P2M", "M2M"):
        ms = [m for m in facts.methods_of(K) if m["name"] == op and tbf.body(m) is not None]
        if len(ms) != 1:
            raise AnalysisBroken("%s::%s: %d definitions" % (K, op, len(ms)))
        m = ms[0]
        st = kids(tbf.body(m))
        last = st[-1] if st else None
        out = [p["name"] for p, r in zip(m["params"], coherence.ROLES[op]) if r[2] == "out"][0]
        ok = last is not None and last.get("k") in ("CallExpr", "CXXMemberCallExpr") and "DFT" in (tbf.callee_name(last) or "")
        args = [facts.ntext(a) for a in tbf.call_args(last)] if ok else []
        n += 1
        res.instance(R, "%s::%s" % (K, op), facts.loc(last or m), "last statement: %s(%s)" % (tbf.callee_name(last) if ok else "?", ", ".join(args)))
        if not ok or len(args) != 2 or not (args[0].startswith(out + ".") and args[1].startswith(out + ".")) or args[0] == args[1]:
            res.violation(R, tbf.rel(facts.path_of(m)), m["qname"], "recompute:%s" % op, (last or m)["l"][1],
                          "%s does not end by recomputing the transformed expansion of its output cell '%s' from that cell's accumulated expansion: a parent / leaf served in several batches keeps the transform of the first batch only" % (op, out))
        # nothing accumulates into the real expansion after the recompute (it is the last statement) and the per-item calls come before
    return n


def level_scaling(facts, res, geo):
    R = "C05.4.level-and-codes"
    n = 0
    ms = [m for m in facts.methods_of(K) if m["name"] == "M2L" and tbf.body(m) is not None]
    m = ms[0]
    f = tbf.rel(facts.path_of(m))
    roles = coherence.ROLES["M2L"]
    level = [p for p, r in zip(m["params"], roles) if r[1] == "level"][0]
    ev = symx.SymEval(facts, m)
    ev.members.update(geo)
    L = sympy.Symbol("level", integer=True, nonnegative=True)
    ev.env[level["did"]] = L
    scale_calls = [x for x in walk(tbf.body(m)) if x.get("k") in ("CallExpr", "CXXMemberCallExpr") and tbf.callee_name(x) == "getScaleFactor"]
    if len(scale_calls) != 1:
        raise AnalysisBroken("%s::M2L: %d getScaleFactor calls" % (K, len(scale_calls)))
    for st in kids(tbf.body(m)):
        if st.get("k") == "DeclStmt":
            ev.exec(st)
    w = ev.eval(tbf.call_args(scale_calls[0])[0])
    want = geo["BoxWidth"] / sympy.Integer(2) ** L
    n += 1
    res.obligations += 1
    res.instance(R, "M2L scale", facts.loc(scale_calls[0]), "cell width handed to the scale factor: %s" % w)
    if isinstance(w, sympy.Basic) and sympy.simplify(w - want) == 0:
        res.discharged += 1
    else:
        res.violation(R, f, m["qname"], "scale-width", scale_calls[0]["l"][1], "the transfer is scaled with the width `%s`; the cells of the operator's level have width W / 2^level" % (w,))
    # per-item calls: code of this item, level argument
    for op, callee, code_slot in (("M2M", "applyM2M", 0), ("L2L", "applyL2L", 0), ("M2L", "applyFC", 0)):
        mm = [x for x in facts.methods_of(K) if x["name"] == op and tbf.body(x) is not None][0]
        rl = coherence.ROLES[op]
        pos = [p for p, r in zip(mm["params"], rl) if r[1] == "positions"][0]
        cont = [p for p, r in zip(mm["params"], rl) if r[0] in ("children", "sources") and r[1] in ("multipole", "local")][0]
        lvl = [p for p, r in zip(mm["params"], rl) if r[1] == "level"][0]
        body = tbf.body(mm)
        tbf.link_parents(body)
        decls = {v["did"]: v for v in walk(body) if v.get("k") == "VarDecl"}

        def resolve(nd, depth=0):
            nd = strip(nd)
            while nd is not None and nd.get("k") in ("CXXStaticCastExpr", "CStyleCastExpr", "CXXFunctionalCastExpr") and kids(nd):
                nd = strip(kids(nd)[0])
            if nd is not None and nd.get("k") == "DeclRefExpr" and nd.get("dk") == "Var" and depth < 5:
                d = decls.get(nd.get("did"))
                if d is not None and kids(d) and "const" in d.get("t", ""):
                    return resolve(kids(d)[0], depth + 1)
            return nd
        calls = [x for x in walk(body) if x.get("k") in ("CallExpr", "CXXMemberCallExpr") and tbf.callee_name(x) == callee]
        if len(calls) != 1:
            raise AnalysisBroken("%s::%s: %d calls of %s" % (K, op, len(calls), callee))
        c = calls[0]
        args = tbf.call_args(c)
        code = resolve(args[code_slot])
        item = None
        if code.get("k") == "ArraySubscriptExpr" and strip(kids(code)[0]).get("did") == pos["did"]:
            item = resolve(kids(code)[1])
        cells = [x for x in walk(c) if x.get("k") in ("ArraySubscriptExpr", "CXXOperatorCallExpr") and len(kids(x)) >= 2 and strip(kids(x)[-2]).get("did") == cont["did"]]
        n += 1
        res.instance(R, "%s::%s -> %s" % (K, op, callee), facts.loc(c), "code argument `%s`, cell `%s`" % (facts.ntext(args[code_slot])[:40], facts.ntext(cells[0])[:40] if cells else "?"))
        if item is None or item.get("k") != "DeclRefExpr":
            # the batched form: the per-item codes and expansions are gathered into local arrays in the item loop (slot i <- item i,
            # unconditionally) and handed over in one call after it
            filled = {}
            for y in walk(body):
                if y.get("k") == "BinaryOperator" and y.get("op") == "=":
                    l_ = strip(kids(y)[0])
                    if l_.get("k") == "ArraySubscriptExpr" and strip(kids(l_)[0]).get("did") in decls and re.search(r"\[", decls[strip(kids(l_)[0])["did"]].get("t", "")):
                        filled.setdefault(strip(kids(l_)[0])["did"], []).append((y, strip(kids(l_)[1]), kids(y)[1]))
            arr_args = [strip(a) for a in args if strip(a).get("k") == "DeclRefExpr" and strip(a).get("did") in filled]
            codes_ok = cells_ok = None
            for a in arr_args:
                for y, slot, rhs in filled[a["did"]]:
                    r0 = resolve(rhs)
                    under = [z for z in tbf.ancestors(y) if z.get("k") == "IfStmt"]
                    lps = [z for z in tbf.ancestors(y) if z.get("k") in ("ForStmt", "WhileStmt")]
                    early = [z for z in walk(lps[0]) if z.get("k") in ("ContinueStmt", "BreakStmt", "ReturnStmt")] if lps else [1]
                    if r0.get("k") == "ArraySubscriptExpr" and strip(kids(r0)[0]).get("did") == pos["did"]:
                        codes_ok = slot.get("did") is not None and resolve(kids(r0)[1]).get("did") == slot.get("did") and not under and not early
                    elif any(z.get("k") in ("ArraySubscriptExpr", "CXXOperatorCallExpr") and len(kids(z)) >= 2 and strip(kids(z)[-2]).get("did") == cont["did"] for z in walk(rhs)):
                        zz = [z for z in walk(rhs) if z.get("k") in ("ArraySubscriptExpr", "CXXOperatorCallExpr") and len(kids(z)) >= 2 and strip(kids(z)[-2]).get("did") == cont["did"]]
                        cells_ok = slot.get("did") is not None and resolve(kids(zz[0])[-1]).get("did") == slot.get("did") and not under and not early
            if codes_ok and cells_ok and not [a_ for a_ in tbf.ancestors(c) if a_.get("k") in ("ForStmt", "WhileStmt", "DoStmt")]:
                res.instance(R, "%s::%s -> %s (batched)" % (K, op, callee), facts.loc(c), "slot i of the code array <- code of item i, slot i of the expansion array <- expansion of item i, one call after the item loop")
                if op == "M2L" and not any(resolve(a_).get("did") == lvl["did"] for a_ in args):
                    res.violation(R, tbf.rel(facts.path_of(mm)), mm["qname"], "level:%s" % op, c["l"][1], "%s is called without the operator's level argument" % callee)
                continue
            if codes_ok is False or cells_ok is False:
                res.violation(R, tbf.rel(facts.path_of(mm)), mm["qname"], "code-item:%s" % op, c["l"][1], "the arrays handed to %s are not filled slot i <- item i for every item (code array: %s, expansion array: %s)" % (callee, codes_ok, cells_ok))
                continue
            res.violation(R, tbf.rel(facts.path_of(mm)), mm["qname"], "code:%s" % op, c["l"][1], "%s is called with `%s`, which is not the position code of an item handed to %s" % (callee, facts.ntext(args[code_slot])[:60], op))
            continue
        if len(cells) != 1 or resolve(kids(cells[0])[-1]).get("did") != item.get("did"):
            res.violation(R, tbf.rel(facts.path_of(mm)), mm["qname"], "code-item:%s" % op, c["l"][1],
                          "%s receives the position code of item `%s` but the expansion of item `%s`" % (callee, facts.ntext(item), facts.ntext(kids(cells[0])[-1]) if cells else "?"))
        # every item is applied: the per-item call is not under a condition and nothing leaves the item loop early
        loops = [a for a in tbf.ancestors(c) if a.get("k") in ("ForStmt", "WhileStmt", "DoStmt")]
        if loops:
            lp = loops[0]
            conds = [a for a in tbf.ancestors(c) if a.get("k") == "IfStmt" and any(z is a for z in walk(lp))]
            early = [y for y in walk(lp) if y.get("k") in ("ContinueStmt", "BreakStmt", "ReturnStmt")]
            if conds or early:
                w = (conds or early)[0]
                res.violation(R, tbf.rel(facts.path_of(mm)), mm["qname"], "item-skipped:%s" % op, w["l"][1],
                              "%s applies %s to an item only under a condition / leaves the item loop early (`%s`): the contribution of some items is dropped for some inputs" % (op, callee, facts.ntext(w["c"][0] if w.get("k") == "IfStmt" else w)[:60]))
        if op == "M2L":
            lv = resolve(args[1])
            if lv.get("did") != lvl["did"]:
                res.violation(R, tbf.rel(facts.path_of(mm)), mm["qname"], "level:%s" % op, c["l"][1], "%s is called with level `%s`, not the operator's level argument" % (callee, facts.ntext(args[1])))
    # relative child centres follow the Morton child code: the function is evaluated for each child code (symx, Dim = 3, the
    # extension ratio symbolic) and the signs of the centre it returns are compared with the code's bits
    fn = [g for g in facts.functions if g["name"] == "setRelativeChildCenter" and not g.get("inst") and tbf.body(g) is not None]
    if not fn:
        raise AnalysisBroken("setRelativeChildCenter not found")
    for g in fn:
        if len(g["params"]) < 2:
            raise AnalysisBroken("%s: (child index, centre) parameters expected" % g["qname"])
        rows = []
        for c in range(8):
            evg = symx.SymEval(facts, g)
            evg.consts["Dim"] = 3
            evg.env[g["params"][0]["did"]] = sympy.Integer(c)
            evg.env.pop(g["params"][1]["did"], None)
            evg.arrays[g["params"][1]["did"]] = {}
            if len(g["params"]) > 2:
                evg.env[g["params"][2]["did"]] = sympy.Symbol("ratio", positive=True) / 3       # any ratio in (0, 1): 1 - ratio stays positive
            evg.exec(tbf.body(g))
            centre = symx.as_tuple(evg, ("array", g["params"][1]["did"]))
            if not (isinstance(centre, tuple) and len(centre) == 3):
                raise AnalysisBroken("%s: the centre written for child %d was not recovered (%s)" % (g["qname"], c, evg.notes[:1]))
            rows.append(centre)
        n += 1
        ratio = sympy.Symbol("ratio", positive=True)
        signs = []
        for c in range(8):
            sg = []
            for d in range(3):
                e = sympy.simplify(rows[c][d].subs(ratio, sympy.Rational(3, 2))) if isinstance(rows[c][d], sympy.Basic) else None
                sg.append(1 if (e is not None and e.is_positive) else -1 if (e is not None and e.is_negative) else 0)
            signs.append(sg)
        res.instance(R, "relative child centres", facts.loc(g), "child code c -> signs of (child centre - parent centre): %s" % signs)
        bad = [(c, signs[c]) for c in range(8) if signs[c] != [1 if (c >> (2 - d)) & 1 else -1 for d in range(3)]]
        if bad:
            res.violation(R, tbf.rel(facts.path_of(g)), g["qname"], "child-centres", g["l"][1],
                          "child code %d gets a centre with signs %s; the Morton child code puts dimension d in bit (2-d), set = upper half, i.e. %s" % (bad[0][0], bad[0][1], [1 if (bad[0][0] >> (2 - d)) & 1 else -1 for d in range(3)]))
        mags = set(sympy.simplify(sympy.Abs(rows[c][d])) for c in range(8) for d in range(3) if isinstance(rows[c][d], sympy.Basic))
        if len(mags) != 1:
            res.violation(R, tbf.rel(facts.path_of(g)), g["qname"], "child-centres-magnitude", g["l"][1], "the children are not placed symmetrically about the parent centre (offsets %s)" % sorted(str(m_) for m_ in mags))
    return n


def geometry(facts):
    """members of FAbstractUnifKernel from its constructor's initialisers (symbolic)"""
    cs = [m for m in facts.methods_of("FAbstractUnifKernel") if m["kind"] == "CXXConstructor" and tbf.body(m) is not None]
    if len(cs) != 1:
        raise AnalysisBroken("FAbstractUnifKernel: %d constructors" % len(cs))
    c = cs[0]
    W, H = c04.W, c04.H
    ev = symx.SymEval(facts, c)
    geo = {}
    cfg = c["params"][0]["did"]
    centre = symx.psym("boxCentre")

    class CfgEval(symx.SymEval):
        pass
    for i in c.get("inits", []):
        if not i.get("member") or not i.get("c"):
            continue
        txt = " ".join(facts.ntext(x) for x in i["c"] if x)
        t = txt.replace(" ", "")
        t = re.sub(r"\b%s\b" % re.escape(c["params"][0]["name"]), "CFG", t)
        if i["member"] == "BoxWidth" or re.fullmatch(r"\(?CFG\.getBoxWidths\(\)\[0\]\)?", t):
            geo[i["member"]] = W
        elif re.fullmatch(r"\(?int\(CFG\.getTreeHeight\(\)\)\)?", t):
            geo[i["member"]] = H
        elif "getBoxWidths()[0]/" in t and "pow" in t:
            # box width / 2^(height-1): evaluate with the configuration accessors bound
            sub = symx.SymEval(facts, c)
            e = i["c"][0]

            def ev_cfg(n):
                n = strip(n)
                k = n.get("k")
                txt_ = facts.ntext(n).replace(" ", "")
                if re.fullmatch(r"\w+\.getBoxWidths\(\)\[0\]", txt_):
                    return W
                if re.fullmatch(r"\w+\.getTreeHeight\(\)", txt_):
                    return H
                if k == "IntegerLiteral":
                    return sympy.Integer(n["val"])
                if k in ("CXXStaticCastExpr", "CStyleCastExpr", "CXXFunctionalCastExpr", "CXXUnresolvedConstructExpr", "ParenListExpr") and len(kids(n)) == 1:
                    return ev_cfg(kids(n)[0])
                if k == "BinaryOperator" and n.get("op") in ("+", "-", "*", "/"):
                    a, b = ev_cfg(kids(n)[0]), ev_cfg(kids(n)[1])
                    return {"+": a + b, "-": a - b, "*": a * b, "/": a / b}[n["op"]]
                if k in ("CallExpr",) and tbf.callee_name(n) == "pow" and len(tbf.call_args(n)) == 2:
                    a, b = [ev_cfg(x) for x in tbf.call_args(n)]
                    return a ** b
                raise AnalysisBroken("FAbstractUnifKernel: initialiser of %s not understood: %s" % (i["member"], txt_[:80]))
            geo[i["member"]] = sympy.simplify(ev_cfg(e))
        elif "BoxCornerFromCenterAndWidth" in t:
            geo["__cornerinit__"] = (i["member"], t)
    return c, geo


def leaf_centre(facts, res, c, geo):
    R = "C05.5.leaf-centre"
    W, H = c04.W, c04.H
    leaf = [m for m, v in geo.items() if isinstance(v, sympy.Basic) and sympy.simplify(v - W / sympy.Integer(2) ** (H - 1)) == 0]
    if len(leaf) != 1 or "__cornerinit__" not in geo:
        res.violation(R, tbf.rel(facts.path_of(c)), c["qname"], "leaf-width", c["l"][1], "no member of the kernel is initialised to the leaf width W / 2^(H-1) (members: %s)" % {k: str(v) for k, v in geo.items() if not k.startswith("__")})
        return
    cm, ctxt = geo["__cornerinit__"]
    if not re.fullmatch(r"\(?BoxCornerFromCenterAndWidth\(CFG\.getBoxCenter\(\),CFG\.getBoxWidths\(\)\[0\]\)\)?", ctxt):
        res.violation(R, tbf.rel(facts.path_of(c)), c["qname"], "corner", c["l"][1], "the box corner is initialised by `%s`, not from the box centre and the box width" % ctxt[:100])
    hs = [m for m in facts.functions if m["name"] == "BoxCornerFromCenterAndWidth" and tbf.body(m) is not None and not m.get("inst")]
    if len(hs) != 1:
        raise AnalysisBroken("BoxCornerFromCenterAndWidth not found")
    asg = [x for x in walk(tbf.body(hs[0])) if x.get("k") == "BinaryOperator" and x.get("op") == "="]
    ok = len(asg) == 1 and facts.ntext(kids(asg[0])[1]).replace(" ", "") in ("%s[idxDim]-%s/2" % (hs[0]["params"][0]["name"], hs[0]["params"][1]["name"]),)
    ev = symx.SymEval(facts, hs[0])
    cen, wid = sympy.Symbol("centre_d"), symx.psym("width")
    if len(asg) == 1:
        ev.env[hs[0]["params"][1]["did"]] = wid
        r = strip(kids(asg[0])[1])
        # centre[d] - width/2
        try:
            val = None
            if r.get("k") == "BinaryOperator" and r.get("op") == "-":
                val = cen - ev.eval(kids(r)[1])
            ok = val is not None and sympy.simplify(val - (cen - wid / 2)) == 0 and facts.ntext(kids(r)[0]).startswith(hs[0]["params"][0]["name"] + "[")
        except Exception:
            ok = False
    res.instance(R, "box corner", facts.loc(hs[0]), "corner[d] = centre[d] - width/2: %s" % ok)
    if not ok:
        res.violation(R, tbf.rel(facts.path_of(hs[0])), hs[0]["qname"], "corner-formula", hs[0]["l"][1], "the box corner is not centre - width/2 in every dimension")
    g2 = dict(geo)
    g2["__corner__"] = cm
    g2["__leafwidth__"] = geo[leaf[0]]
    c04.leaf_centre(facts, res, g2, cls="FAbstractUnifKernel", fname="getLeafCellCenter", R=R, users=())
    for op in ("P2M", "L2P"):
        mm = [x for x in facts.methods_of(K) if x["name"] == op and tbf.body(x) is not None][0]
        calls = [x for x in walk(tbf.body(mm)) if x.get("k") in ("CallExpr", "CXXMemberCallExpr") and tbf.callee_name(x) == "getLeafCellCenter"]
        res.instance(R, "%s::%s uses it" % (K, op), facts.loc(mm), "%d call(s)" % len(calls))
        if len(calls) != 1 or not facts.ntext(tbf.call_args(calls[0])[0]).startswith(mm["params"][0]["name"] + "."):
            res.violation(R, tbf.rel(facts.path_of(mm)), mm["qname"], "centre-call:%s" % op, mm["l"][1], "%s does not take the leaf centre from getLeafCellCenter(header of its leaf)" % op)
            continue
        # the centre and the leaf width go to the interpolator together
        user = [x for x in walk(tbf.body(mm)) if x.get("k") in ("CallExpr", "CXXMemberCallExpr") and (tbf.callee_name(x) or "").startswith("apply" + op[0]) and len(tbf.call_args(x)) >= 2]
        for u in user:
            a1 = facts.ntext(tbf.call_args(u)[1])
            if not a1.endswith(leaf[0]):
                res.violation(R, tbf.rel(facts.path_of(mm)), mm["qname"], "leaf-width-arg:%s" % op, u["l"][1], "%s hands `%s` to the interpolator as the leaf width, not the member initialised to W / 2^(H-1)" % (op, a1))


def level_uniform(facts, res, cls, R, floor=3):
    """the operators of a translation kernel treat every level alike: the level argument reaches width / scale arithmetic only, never a
    branch, loop bound or selection, and the kernel never names an executor's boundary levels (TbfDefaultLastLevel...).  An executor may
    start the downward pass at any upper level (2, 1 for periodic runs, or the caller's choice), and the periodic top tree calls the same
    operators above level 0: an operator that behaves differently below some absolute level is right for one of those choices only."""
    n = 0
    for op in ("M2M", "M2L", "L2L", "P2M", "L2P", "P2P", "P2PTsm", "P2PInner"):
        for m in facts.methods_of(cls):
            if m["name"] != op or tbf.body(m) is None or m.get("inst"):
                continue
            fn = tbf.expand_member_helpers(facts, m) if hasattr(tbf, "expand_member_helpers") else m
            body = tbf.body(fn)
            roles = coherence.ROLES.get(op)
            lv = [p for p, r in zip(fn["params"], roles) if r[1] == "level"] if roles and len(roles) == len(fn["params"]) else []
            n += 1
            f = tbf.rel(facts.path_of(m))
            for x in walk(body):
                if x.get("k") == "DeclRefExpr" and str(x.get("name", "")).startswith("TbfDefaultLastLevel"):
                    res.violation(R, f, m["qname"], "boundary-level:%s" % x["name"], x["l"][1],
                                  "%s::%s reads the executor constant %s: the kernel is also run with other upper levels (periodic runs, explicit limits, the periodic top tree)" % (cls, op, x["name"]))
            if not lv:
                res.instance(R, "%s::%s" % (cls, op), facts.loc(m), "no level parameter")
                continue
            taint = {lv[0]["did"]}
            changed = True
            while changed:
                changed = False
                for v in walk(body):
                    if v.get("k") == "VarDecl" and v.get("did") not in taint and any(y.get("k") == "DeclRefExpr" and y.get("did") in taint for y in walk(v)):
                        taint.add(v["did"])
                        changed = True
                    if v.get("k") in ("BinaryOperator", "CompoundAssignOperator") and v.get("op") in ("=", "+=", "-=", "*=", "/=") and strip(kids(v)[0]).get("k") == "DeclRefExpr":
                        d = strip(kids(v)[0]).get("did")
                        if d not in taint and any(y.get("k") == "DeclRefExpr" and y.get("did") in taint for y in walk(kids(v)[1])):
                            taint.add(d)
                            changed = True
            hits = 0
            for x in walk(body):
                k = x.get("k")
                cond = None
                if k in ("IfStmt", "WhileStmt", "SwitchStmt"):
                    c = [y for y in kids(x) if y.get("k") != "DeclStmt"]
                    cond = c[0] if c else None
                elif k == "ForStmt" and len(kids(x)) >= 2:
                    cond = kids(x)[1]
                elif k == "ConditionalOperator":
                    if any(y.get("k") == "CallExpr" and tbf.callee_name(y) in ("__assert_fail", "__assert") for y in walk(x)):
                        continue
                    cond = kids(x)[0]
                if cond is not None and any(y.get("k") == "DeclRefExpr" and y.get("did") in taint for y in walk(cond)):
                    # only branches that decide what is done with the operator's cells / particles (a level-indexed cache of operator
                    # tables, say, selects how a value is obtained, not which contribution is added)
                    others = {p["did"] for p in fn["params"]} - {lv[0]["did"]}
                    ctl = [y for c2 in kids(x) if c2 is not cond for y in walk(c2)]
                    if not any(y.get("k") == "DeclRefExpr" and y.get("did") in others for y in ctl):
                        continue
                    hits += 1
                    res.violation(R, f, m["qname"], "level-branch@%s" % facts.ntext(cond)[:50], x["l"][1],
                                  "%s::%s decides `%s` from its level argument: what the operator adds then depends on the absolute level, although the same operator serves runs whose upper working level is 2, 1 (periodic) or chosen by the caller, and the levels of the periodic top tree" % (cls, op, facts.ntext(cond)[:80]))
            res.instance(R, "%s::%s" % (cls, op), facts.loc(m), "level argument `%s` flows into %d local(s), 0 branches" % (lv[0].get("name") or "<unnamed>", len(taint) - 1) if not hits else "level-dependent branches: %d" % hits)
    res.floor(R, n, floor, "operators examined")
    return n


def operator_static_locals(facts, res, cls, R, min_fns=8):
    """no function an operator of kernel `cls` can reach - through member calls, free functions and static helpers of utility classes,
    resolved by name and arity inside the library - keeps a mutable static local: the executors run the operators of different kernel
    copies at the same time, and a static local is the one thing the per-worker copies do not duplicate"""
    ops = [m for m in facts.methods_of(cls) if m["name"] in ("P2M", "M2M", "M2L", "L2L", "L2P", "P2P", "P2PTsm", "P2PInner") and tbf.body(m) is not None and not m.get("inst")]
    if not ops:
        raise AnalysisBroken("%s: no operator found" % cls)
    byname = {}
    for g in facts.functions:
        if not g.get("inst") and tbf.body(g) is not None:
            byname.setdefault(g["name"], []).append(g)
    seen = {}
    todo = [(m, [m["name"]]) for m in ops]
    while todo:
        fn, path = todo.pop()
        if id(fn) in seen or len(path) > 7:
            continue
        seen[id(fn)] = (fn, path)
        for c in walk(tbf.body(fn)):
            if c.get("k") in ("CallExpr", "CXXMemberCallExpr"):
                nm = tbf.callee_name(c)
                cands = [g for g in byname.get(nm, []) if len(g["params"]) == len(tbf.call_args(c))]
                q = tbf.callee_qual(c) or ""
                if len(cands) > 1 and "::" in q:
                    scoped = [g for g in cands if g["qname"].endswith(q.split("<")[0].split("::")[-2] + "::" + nm)] if q.count("::") >= 1 else []
                    cands = scoped or cands
                for g in cands[:4]:
                    todo.append((g, path + [g["qname"]]))
    hits = 0
    for fn, path in seen.values():
        for x in walk(tbf.body(fn)):
            if x.get("k") == "VarDecl" and x.get("staticlocal") and not x.get("tls") and not x.get("constexpr") and not x.get("t", "").lstrip().startswith("const") \
                    and not re.search(r"\b(mutex|once_flag|shared_mutex|recursive_mutex|atomic_flag)\b", x.get("t", "")):
                hits += 1
                res.violation(R, tbf.rel(facts.path_of(fn)), fn["qname"], "static-local:%s" % x["name"], x["l"][1],
                              "%s keeps the %sstatic local '%s' (%s) and is reached from %s::%s (%s): the executors run operators of different kernel copies concurrently, and all of them read and write this one object" % (
                                  fn["qname"], "thread_local " if x.get("tls") else "", x["name"], x.get("t", "")[:50], cls, path[0], " -> ".join(path[1:]) or "directly"))
    res.instance(R, "%s operator-reachable functions" % cls, "umbrella 'core'", "%d functions reached from %d operators; %d mutable static locals" % (len(seen), len(ops), hits))
    if len(seen) < min_fns:
        raise AnalysisBroken("%s: only %d functions reachable from the operators of %s" % (R, len(seen), cls))
    return hits


def no_process_state(facts, res, subdir, R, determined=None):
    """a kernel is a function of the configuration it was built for.  A mutable static local (or a namespace-scope variable) in the
    kernel's directory - constructors and table builders included, not only operator-reachable code - outlives the kernel and is shared
    by every kernel of the process.  That is harmless exactly when what is kept does not depend on anything the kernels may differ in:
    the rule collects the data members the function reads (configuration: box width, centre, height ...) and the key under which the
    state is looked up / stored (subscript, find, at, count, emplace arguments, through const locals); every member read must be part
    of the key.  State looked up under the tree height alone while the code that fills it reads the box width is the canonical defect:
    a second kernel of the process built for another box silently gets the first one's tables.  Locks carry no data and are exempt."""
    n = 0
    hits = 0
    for fn in facts.functions:
        if fn.get("inst") or tbf.body(fn) is None:
            continue
        pth = tbf.rel(facts.path_of(fn))
        if not pth.startswith(subdir):
            continue
        n += 1
        body = tbf.body(fn)
        statics = [x for x in walk(body) if x.get("k") == "VarDecl" and x.get("staticlocal") and not x.get("constexpr") and not x.get("t", "").lstrip().startswith("const")
                   and not re.search(r"\b(mutex|once_flag|shared_mutex|recursive_mutex|atomic_flag)\b", x.get("t", ""))]
        if not statics:
            continue
        cls = fn.get("cls")
        fields = set()
        seen = set()
        todo = [cls] if cls else []
        while todo:
            c = todo.pop()
            if c in seen or facts.cls(c) is None:
                continue
            seen.add(c)
            fields |= {f["name"] for f in facts.cls(c).get("fields", [])}
            todo += [re.sub(r"<.*", "", b).split("::")[-1].strip() for b in facts.cls(c).get("bases", [])]
        decls = {v["did"]: v for v in walk(body) if v.get("k") == "VarDecl"}

        def names(node, depth=0):
            out = set()
            for y in walk(node):
                if y.get("k") in ("MemberExpr", "CXXDependentScopeMemberExpr") and y.get("name") in fields and (not kids(y) or strip(kids(y)[0]).get("k") == "CXXThisExpr"):
                    out.add(y["name"])
                if y.get("k") == "DeclRefExpr" and y.get("did") in decls and depth < 4 and kids(decls[y["did"]]) and not decls[y["did"]].get("staticlocal"):
                    out |= names(kids(decls[y["did"]])[0], depth + 1)
            return out
        for x in statics:
            hits += 1
            # members the function reads, other than as the destination of an assignment
            read = set()
            for y in walk(body):
                if y.get("k") in ("MemberExpr", "CXXDependentScopeMemberExpr") and y.get("name") in fields and (not kids(y) or strip(kids(y)[0]).get("k") == "CXXThisExpr"):
                    read.add(y["name"])
            written = set()
            for y in walk(body):
                if y.get("k") in ("BinaryOperator", "CXXOperatorCallExpr") and y.get("op") == "=" and kids(y):
                    l0 = strip(kids(y)[0] if y.get("k") == "BinaryOperator" else kids(y)[1])
                    if l0.get("k") in ("MemberExpr", "CXXDependentScopeMemberExpr") and l0.get("name") in fields:
                        written.add(l0["name"])
                if y.get("k") in ("CXXMemberCallExpr", "CallExpr") and tbf.callee_name(y) in ("reset",) and tbf.call_base(y) is not None:
                    b0 = strip(tbf.call_base(y))
                    if b0.get("k") in ("MemberExpr", "CXXDependentScopeMemberExpr") and b0.get("name") in fields:
                        written.add(b0["name"])
            # a member that is only filled here and never used as an input (the table pointers themselves) is not configuration
            inputs = set()
            for y in walk(body):
                if y.get("k") in ("MemberExpr", "CXXDependentScopeMemberExpr") and y.get("name") in read:
                    par = None
                    # crude use classification: a member that is subscripted or reset here is storage, everything else is an input
                    inputs.add(y["name"])
            storage = set()
            for y in walk(body):
                if y.get("k") in ("ArraySubscriptExpr", "CXXOperatorCallExpr") and kids(y):
                    b0 = strip(kids(y)[0] if y.get("k") == "ArraySubscriptExpr" else kids(y)[1] if len(kids(y)) > 1 else kids(y)[0])
                    while b0.get("k") in ("ArraySubscriptExpr",) and kids(b0):
                        b0 = strip(kids(b0)[0])
                    if b0.get("k") in ("MemberExpr", "CXXDependentScopeMemberExpr") and b0.get("name") in fields:
                        storage.add(b0["name"])
            config = inputs - storage - written
            key = set()
            for y in walk(body):
                if y.get("k") in ("ArraySubscriptExpr", "CXXOperatorCallExpr", "CXXMemberCallExpr", "CallExpr"):
                    ks_ = kids(y)
                    base = None
                    args = []
                    if y.get("k") == "ArraySubscriptExpr":
                        base, args = strip(ks_[0]), ks_[1:]
                    elif y.get("k") == "CXXOperatorCallExpr" and y.get("op") == "[]" and len(ks_) >= 3:
                        base, args = strip(ks_[1]), ks_[2:]
                    elif y.get("k") in ("CXXMemberCallExpr", "CallExpr") and tbf.callee_name(y) in ("find", "at", "count", "emplace", "insert", "try_emplace", "contains") and tbf.call_base(y) is not None:
                        base, args = strip(tbf.call_base(y)), tbf.call_args(y)[:1]
                    if base is not None and base.get("k") == "DeclRefExpr" and base.get("did") == x.get("did"):
                        for a in args:
                            key |= names(a)
            missing = sorted(m_ for m_ in config - key if not (determined is not None and key and determined(key, m_)))
            res.instance(R, "%s static '%s'" % (fn["qname"], x["name"]), facts.loc(x), "looked up under %s; the function reads the configuration members %s" % (sorted(key) or "nothing", sorted(config) or "none"))
            if missing:
                res.violation(R, pth, fn["qname"], "static-local:%s" % x["name"], x["l"][1],
                              "%s keeps the static local '%s' (%s), looked up under %s, while the code that fills it reads the kernel's %s: it outlives the kernel and is shared by every kernel of the process, so a kernel built later with the same %s but another %s gets the first kernel's content" % (
                                  fn["qname"], x["name"], x.get("t", "")[:50], sorted(key) or "no key at all", missing, "/".join(sorted(key)) or "(nothing)", "/".join(missing)))
    res.instance(R, "static locals under " + subdir, subdir, "%d functions examined, %d mutable static locals" % (n, hits))
    if n < 20:
        raise AnalysisBroken("%s: only %d functions found under %s" % (R, n, subdir))
    return len([v for v in res.violations if v["rule"] == R and v["key"].startswith("static-local:")])


def strided_loops(facts, res, R, prefix, fns=None):
    """an unrolled loop `for(j = a; j < B; j += s)` with a literal step s >= 2 processes whole chunks of s elements: unless B - a is a
    multiple of s by construction (every coefficient of the difference, as a polynomial in the integer quantities it names, divisible by
    s), a remainder must be handled after it (a following statement of the same block that uses the counter or a loop over the same
    arrays); otherwise, for the values of the bound that are not a multiple of s, the last elements are never processed - in the
    Fourier-space product of the uniform kernel, the last coefficients of every transfer, for the orders whose coefficient count is odd"""
    import sympy
    n = 0
    cand = fns if fns is not None else [f_ for f_ in list(facts.functions) + [m_ for c_ in facts.classes for m_ in facts.methods_of(c_["name"])] if tbf.body(f_) is not None and not f_.get("inst") and tbf.rel(facts.path_of(f_)).startswith(prefix)]
    seen = set()
    for fn in cand:
        if id(fn) in seen:
            continue
        seen.add(id(fn))
        body = tbf.body(fn)
        tbf.link_parents(body)
        for L in walk(body):
            if L.get("k") != "ForStmt" or len(L.get("c", [])) < 4 or L["c"][2] is None or L["c"][1] is None:
                continue
            inc = strip(L["c"][2])
            if not (inc.get("k") == "CompoundAssignOperator" and inc.get("op") == "+=" and strip(kids(inc)[1]).get("k") == "IntegerLiteral" and int(strip(kids(inc)[1])["val"]) >= 2):
                continue
            step = int(strip(kids(inc)[1])["val"])
            var = strip(kids(inc)[0])
            cond = strip(L["c"][1])
            if cond.get("k") != "BinaryOperator" or cond.get("op") not in ("<", "<=", "!="):
                continue
            n += 1

            def poly(e):
                e = strip(e)
                k = e.get("k")
                if k == "IntegerLiteral":
                    return sympy.Integer(e["val"])
                if k == "UnaryOperator" and e.get("op") == "-":
                    return -poly(kids(e)[0])
                if k == "BinaryOperator" and e.get("op") in ("+", "-", "*"):
                    a_, b_ = poly(kids(e)[0]), poly(kids(e)[1])
                    return {"+": a_ + b_, "-": a_ - b_, "*": a_ * b_}[e["op"]]
                if (k.endswith("CastExpr") or k in ("ParenExpr", "CXXFunctionalCastExpr")) and len(kids(e)) == 1:
                    return poly(kids(e)[0])
                return sympy.Symbol("v_" + re.sub(r"\W", "_", facts.ntext(e))[:40], integer=True)
            lhs, rhs = kids(cond)
            # j + c < E   <=>   j < E - c
            B = poly(rhs) - (poly(lhs) - sympy.Symbol("v_" + re.sub(r"\W", "_", facts.ntext(var))[:40], integer=True))
            init = L["c"][0]
            a = None
            if init is not None:
                for v_ in walk(init):
                    if v_.get("k") == "VarDecl" and v_.get("did") == var.get("did") and kids(v_):
                        a = poly(kids(v_)[0])
                    if v_.get("k") == "BinaryOperator" and v_.get("op") == "=" and strip(kids(v_)[0]).get("did") == var.get("did"):
                        a = poly(kids(v_)[1])
            if cond.get("op") == "<=":
                B = B + 1
            exact = False
            if a is not None:
                d = sympy.expand(B - a)
                exact = all(sympy.Integer(c_) % step == 0 for c_ in sympy.Poly(d, *sorted(d.free_symbols, key=str)).coeffs()) if d.free_symbols else (int(d) % step == 0)
            # remainder handling after the loop, in the same block
            par = L.get("_p")
            rem = False
            if par is not None and par.get("k") == "CompoundStmt":
                after = kids(par)[kids(par).index(L) + 1:]
                arrays = set(strip(kids(y)[0]).get("did") for y in walk(L["c"][-1]) if y.get("k") == "ArraySubscriptExpr" and strip(kids(y)[0]).get("k") == "DeclRefExpr")
                for st_ in after:
                    for y in walk(st_):
                        if y.get("k") == "DeclRefExpr" and (y.get("did") == var.get("did") or y.get("did") in arrays):
                            rem = True
            res.instance(R, "%s loop@%d" % (fn["qname"], L["l"][1]), facts.loc(L), "step %d over [%s, %s): range a multiple of the step by construction: %s; remainder handled after the loop: %s" % (step, a, B, exact, rem))
            if not exact and not rem:
                res.violation(R, tbf.rel(facts.path_of(L)), fn["qname"], "no-remainder@%s" % fn["name"], L["l"][1],
                              "`%s` advances by %d and nothing after the loop handles what is left when %s is not a multiple of %d: up to %d trailing elements are never processed for those values (here: the last Fourier coefficient(s) of the product for the orders with an odd coefficient count - the accuracy then no longer improves with the order)"
                              % (facts.ntext(L)[:70].split("{")[0], step, sympy.expand(B - a) if a is not None else B, step, step - 1))
    return n


def basis_is_polynomial(facts, res, cls="FUnifRoots", R="C05.10.basis-polynomial"):
    """the interpolation basis L_n and its derivative are polynomials in the evaluation point: in the functions of the roots class that take
    the point (a floating parameter), no division has a denominator that depends on it (flow-insensitive dependence through the locals).
    A denominator like `x - roots[m]` is singular at the interpolation nodes, which are valid particle positions (lattice inputs put particles
    exactly on them); an exact-equality escape does not help for a point one rounding away from a node, where the factor 1/(x - node) is
    ~1e15 and multiplies a value that should be ~0."""
    n = 0
    fns = [m for m in facts.methods_of(cls) if tbf.body(m) is not None and not m.get("inst") and any(re.search(r"\b(FReal|double|float|RealType)\b", p_.get("t", "")) for p_ in m["params"])]
    if len(fns) < 2:
        raise AnalysisBroken("%s: %d functions taking an evaluation point (L and dL confirmed by reading)" % (cls, len(fns)))
    for m in fns:
        body = tbf.body(m)
        dep = set(p_["did"] for p_ in m["params"] if re.search(r"\b(FReal|double|float|RealType)\b", p_.get("t", "")))

        def tainted(e):
            return any(y.get("k") == "DeclRefExpr" and y.get("did") in dep for y in walk(e))
        changed = True
        while changed:
            changed = False
            for x in walk(body):
                tgt = val = None
                if x.get("k") == "VarDecl" and kids(x):
                    tgt, val = x["did"], kids(x)[0]
                elif x.get("k") in ("BinaryOperator", "CompoundAssignOperator") and x.get("op", "").endswith("=") and x.get("op") not in ("==", "!=", "<=", ">="):
                    l0 = strip(kids(x)[0])
                    while l0.get("k") in ("ArraySubscriptExpr",) and kids(l0):
                        l0 = strip(kids(l0)[0])
                    if l0.get("k") == "DeclRefExpr":
                        tgt, val = l0.get("did"), kids(x)[1]
                if tgt is not None and tgt not in dep and tainted(val):
                    dep.add(tgt)
                    changed = True
        for x in walk(body):
            den = None
            if x.get("k") == "BinaryOperator" and x.get("op") == "/":
                den = kids(x)[1]
            elif x.get("k") == "CompoundAssignOperator" and x.get("op") == "/=":
                den = kids(x)[1]
            if den is None:
                continue
            n += 1
            bad = tainted(den)
            res.instance(R, "%s::%s@%d" % (cls, m["name"], x["l"][1]), facts.loc(x), "denominator `%s` depends on the evaluation point: %s" % (facts.ntext(den)[:40], bad))
            if bad:
                res.violation(R, tbf.rel(facts.path_of(x)), m["qname"], "point-dependent-divisor:%s" % m["name"], x["l"][1],
                              "`%s`: the denominator depends on the evaluation point: the basis function is no longer evaluated as a polynomial and is singular where the denominator vanishes - for a particle on (or one rounding away from) an interpolation node of its leaf, e.g. a lattice input, the value is a huge factor times ~0 and the interpolated %s is wrong by orders of magnitude"
                              % (facts.ntext(x)[:70], "force" if m["name"].startswith("d") else "value"))
    return n


def run(res, tier):
    facts = tbf.scan("core")
    res.rule("C05.1b no class of the uniform kernel has a mutable data member (rule C04.5b)")
    import c04 as _c04
    nm5 = _c04.no_mutable_members(facts, res, "C05.1.copies-isolated", "src/kernels/unifkernel/")
    res.floor("C05.1b", nm5, 5, "classes examined for mutable members")
    res.rule("C05.11 unrolled loops of the uniform kernel (literal step >= 2) cover their range: the range is a multiple of the step by construction or a remainder is handled after the loop")
    strided_loops(facts, res, "C05.11.strided-loops", "src/kernels/unifkernel/")
    fx11 = os.path.join(tbf.VERIF, "fixtures", "c05_strided.cpp")
    ff11 = tbf.scan_file(fx11, [], [os.path.join(tbf.VERIF, "fixtures") + os.sep])
    ctl11 = tbf.Result("C05")
    n11 = strided_loops(ff11, ctl11, "C05.11.strided-loops", "", fns=list(ff11.functions))
    if n11 != 3 or len(ctl11.violations) != 1 or "bad" not in ctl11.violations[0]["function"]:
        raise AnalysisBroken("positive control fixtures/c05_strided.cpp: %d loops, %d reported (3 loops, 1 reported expected)" % (n11, len(ctl11.violations)))
    res.instance("C05.11.strided-loops", "positive control", "verif:fixtures/c05_strided.cpp", "3 strided loops, the one without remainder reported")
    res.rule("C05.10 the interpolation basis (FUnifRoots::L, dL) is evaluated as a polynomial in the point: no denominator depends on the evaluation point")
    nb = basis_is_polynomial(facts, res)
    res.floor("C05.10", nb, 2, "divisions in the basis functions")
    res.units.append("umbrella TU 'core': FUnifKernel, FAbstractUnifKernel, FUnifM2LHandler, FFftwCore / FFftw, FUnifInterpolator, FUnifTensor / FInterpTensor")
    res.rule("C05.1 copies isolated: objects with operator-written scratch are held by value from the kernel down and deep-copied; shared objects are never written by operator-reachable code")
    res.rule("C05.2 no carried state: every scratch buffer is wholly written before a plan / anything reads it, in every operator-reachable function; no pointer to scratch escapes")
    res.rule("C05.3 batching: P2M and M2M end by recomputing the transformed expansion of their output cell from that cell's accumulated expansion")
    res.rule("C05.4 level and codes: M2L scaled with W / 2^level of the level argument; per-item calls get the position code of the item whose expansion they get; relative child centres follow the Morton child code")
    res.rule("C05.5 leaf centre = (centre - W/2) + (coordinate + 1/2) W / 2^(H-1), shared by P2M and L2P")
    res.assumptions.append("the interpolation error bound and the interpolation formulas themselves are NOT decided; FFTW is assumed to read a plan's input buffer and define its output buffer")
    res.trusted = ["clang 14 + tbfscan", "kstate ownership graph / member events", "symx", "operator role table (coherence.ROLES)"]
    res.checker_cmds.append("./check C05")
    shared = no_process_state(facts, res, "src/kernels/unifkernel/", "C05.1.copies-isolated")
    operator_static_locals(facts, res, K, "C05.1.copies-isolated")
    ks = kstate.KState(facts)
    reach = ks.reachable(K, kstate.OPERATORS)
    if len(reach) < 18:
        raise AnalysisBroken("%s: only %d operator-reachable functions (22 confirmed by reading)" % (K, len(reach)))
    res.instance("C05.1.copies-isolated", "ownership graph", "umbrella 'core'", "; ".join(repr(h) for h in ks.holders(K)))
    scratch = scratch_classes(facts, ks, reach)
    n1 = isolation(facts, res, ks, reach, scratch)
    res.floor("C05.1", n1, 1, "classes with operator-written scratch")
    n2 = carried_state(facts, res, ks, reach, scratch)
    res.floor("C05.2", n2, 2, "operator-reachable functions using scratch buffers")
    # operator-reachable static locals
    for c, m in reach:
        for x in walk(tbf.body(m)):
            if x.get("k") == "VarDecl" and x.get("staticlocal") and not x.get("constexpr") and not x.get("t", "").startswith("const"):
                res.violation("C05.1.copies-isolated", tbf.rel(facts.path_of(m)), m["qname"], "static-local:%s" % x["name"], x["l"][1], "operator-reachable %s::%s keeps the static local '%s': shared by all kernel copies" % (c, m["name"], x["name"]))
    batching(facts, res)
    cobj, geo = geometry(facts)
    level_scaling(facts, res, geo)
    leaf_centre(facts, res, cobj, geo)
    res.rule("C05.7 transfer terms: every term an M2L handler overload adds to the transformed local expansion depends (through its locals) on the parameter it derives from the level of the call - the scale in the homogeneous handler, the level selecting the table in the non-homogeneous one - and on the transfer code")
    try:
        res.floor("C05.7", transfer_terms(facts, res), 2, "accumulations in the M2L handlers")
    except AnalysisBroken:
        # the accumulation may have been rewritten on raw (re, im) pairs: when another clause has already reported that rewriting
        # (C05.11: an unrolled loop without its remainder), its verdict stands; otherwise this clause cannot follow the code
        if not [v_ for v_ in res.violations if v_["rule"].startswith("C05.11") and not tbf.is_known("C05", v_, tbf.load_known())]:
            raise
    res.rule("C05.9 full-order loops: every loop of the kernel's operators, of the interpolator's apply* functions and of the M2L handler's applyFC runs over a range fixed by template constants / members fixed at construction and enclosing loop variables, or over the items handed over - never over a bound computed from the data of the call (rule of C04.10)")
    n9 = 0
    for k_ in (K, "FUnifInterpolator", "FUnifM2LHandler"):
        n9 += full_order_loops(facts, res, k_, "C05.9.full-order-loops", ops=("P2M", "M2M", "M2L", "L2L", "L2P", "applyP2M", "applyL2P", "applyL2PGradient", "applyM2M", "applyL2L", "applyFC"))
    res.floor("C05.9", n9, 30, "loops in the uniform kernel's operators and apply functions")
    res.rule("C05.8 table extents: the interpolator's per-level table is allocated, filled and read (at the default level the operators use) consistently for every tree height >= 1 - extent and fill range as closed forms in the height, evaluated for heights 1..8")
    res.floor("C05.8", table_extents(facts, res), 2, "default-level reads of the interpolator table")
    res.rule("C05.6 level-uniform operators: the level argument of M2M / M2L / L2L reaches width and scale arithmetic only (no branch, loop bound or selection depends on it); the kernel names no executor boundary level")
    level_uniform(facts, res, K, "C05.6.level-uniform")


DEFINE_CALLS = {"copyall": 0, "setall": 0, "memcpy": 0, "memset": 0, "copy": 2, "fill": None, "fill_n": 0}


def per_item_buffers(facts, res, kcls, R, ops=("M2M", "M2L", "L2L", "P2M", "L2P")):
    """Each item an operator is handed (a child, a transfer source, a particle) is processed on its own: what is computed for item i may
    depend on the operator's inputs and on the tables subscripted by item i's position code, never on which items came before it - the
    executors hand an operator any subset of a cell's children / sources (only those that exist, only those of one group), in any split.
    Decided on the scratch arrays: a local array declared outside an item loop and WRITTEN inside it must be, in every iteration, fully
    redefined at the top level of the loop body (copyall / setall / memcpy / memset / std::copy with the array as destination) before
    anything else touches it; a redefinition under a condition leaves the previous item's values for the items where the condition fails."""
    n = 0
    for op in ops:
        for m in [m_ for m_ in facts.methods_of(kcls) if m_["name"] == op and tbf.body(m_) is not None and not m_.get("inst")]:
            body = tbf.body(m)
            tbf.link_parents(body)
            arrays = {}
            for v in walk(body):
                if v.get("k") == "VarDecl" and (re.search(r"\[\w*\]", v.get("t", "")) or re.search(r"\b(array|vector)<", v.get("t", ""))):
                    arrays[v["did"]] = v
            loops = [l for l in kids(body) if l.get("k") in ("ForStmt", "WhileStmt", "CXXForRangeStmt")]
            # top-level statements may sit in one more compound level (if constexpr ...): take the outermost loops of the function
            if not loops:
                loops = [l for l in walk(body) if l.get("k") in ("ForStmt", "WhileStmt", "CXXForRangeStmt") and not any(a.get("k") in ("ForStmt", "WhileStmt", "CXXForRangeStmt") for a in tbf.ancestors(l))]
            for lp in loops:
                lb = [x for x in lp["c"] if x is not None][-1]
                inside = set(id(x) for x in walk(lp))
                for did, v in arrays.items():
                    if id(v) in inside:
                        continue          # declared in the loop: one per iteration
                    refs = sorted([x for x in walk(lb) if x.get("k") == "DeclRefExpr" and x.get("did") == did], key=lambda x: x.get("b", 0))
                    if not refs:
                        continue

                    def writes(r_):
                        for a in tbf.ancestors(r_):
                            if a.get("k") in ("CallExpr", "CXXMemberCallExpr"):
                                return True        # handed to a function: may be written (the rotation helpers work in place)
                            if a.get("k") in ("BinaryOperator", "CompoundAssignOperator") and a.get("op", "").endswith("=") and a.get("op") not in ("==", "!=", "<=", ">="):
                                return any(z is r_ for z in walk(kids(a)[0]))
                            if a is lb:
                                break
                        return False
                    if not any(writes(r_) for r_ in refs):
                        continue          # only read in the loop: loop invariant
                    n += 1
                    first = refs[0]
                    top = None
                    for a in [first] + list(tbf.ancestors(first)):
                        if a.get("_p") is lb:
                            top = a
                            break
                    st = strip(top) if top is not None else None
                    ok = False
                    if st is not None and st.get("k") in ("CallExpr", "CXXMemberCallExpr") and tbf.callee_name(st) in DEFINE_CALLS:
                        pos = DEFINE_CALLS[tbf.callee_name(st)]
                        args = tbf.call_args(st)
                        dest = args[pos] if pos is not None and pos < len(args) else (args[0] if args else None)
                        ok = dest is not None and any(z is first for z in walk(dest))
                    res.instance(R, "%s::%s %s@%d" % (kcls, op, v.get("name"), lp["l"][1]), facts.loc(v), "declared outside the item loop, written in it; first use in an iteration: `%s`" % facts.ntext(top if top is not None else first)[:70])
                    # a first touch that is not one of the known whole-array definitions (a helper that fills the array, a fill loop) is taken
                    # as this iteration's definition when it is unconditional; what the rule decides is the conditional case: the first touch
                    # sits under a run-time condition and the array is used outside that condition as well
                    cond0 = [a for a in tbf.ancestors(first) if a.get("k") == "IfStmt" and id(a) in inside and not a.get("constexpr")]
                    if not ok and not cond0:
                        ok = True
                    elif not ok:
                        outer = cond0[-1]
                        under = set(id(z) for z in walk(outer))
                        ok = all(id(r_) in under for r_ in refs)
                    if not ok:
                        cond = [a for a in tbf.ancestors(first) if a.get("k") == "IfStmt" and id(a) in inside]
                        res.violation(R, tbf.rel(facts.path_of(first)), m["qname"], "carried:%s" % v.get("name"), first["l"][1],
                                      "the scratch array '%s' outlives the iterations of the item loop and is not fully redefined at the start of each one (%s): what item i sees there depends on the items before it, "
                                      "and the operator is handed any subset of a cell's items (only the children that exist, only those of one group) - the result is right only for the item sequences where the carried values happen to fit"
                                      % (v.get("name"), ("its redefinition is under `%s`" % facts.ntext([y for y in kids(cond[0]) if y.get("k") != "DeclStmt"][0])[:60]) if cond else "first touched by `%s`" % facts.ntext(top if top is not None else first)[:50]))
    return n


def transfer_terms(facts, res, R="C05.7.transfer-terms"):
    """Every term the transfer step adds to a target's transformed local expansion carries the level information and the transfer code of
    the call.  Found from the code: in FUnifKernel::M2L the call into the M2L handler; the argument positions whose values derive from the
    operator's level argument (the level itself, the scale computed from the level's cell width) and from the position codes; in each handler
    overload of that arity, the NAMED parameters at those positions (an unnamed one is unused: the homogeneous handler ignores the level and
    uses the scale, the non-homogeneous one the reverse).  Then, by flow-insensitive dependence through the overload's locals: every
    accumulation into an output pointer depends on at least one level-derived parameter and on a code-derived one.  A loop that adds
    `C[j] * Y[j]` without the scale is exact only at the level whose scale is 1."""
    ms = [m for m in facts.methods_of(K) if m["name"] == "M2L" and tbf.body(m) is not None and not m.get("inst")]
    if len(ms) != 1:
        raise AnalysisBroken("%s::M2L not found" % K)
    m = ms[0]
    rl = coherence.ROLES["M2L"]
    lvl = [p for p, r in zip(m["params"], rl) if r[1] == "level"][0]
    pos = [p for p, r in zip(m["params"], rl) if r[1] == "positions"][0]

    def deps_in(fn, roots):
        """did -> set of root dids it depends on (flow-insensitive closure over locals)"""
        dep = {d: {d} for d in roots}
        changed = True

        def of(e):
            out = set()
            for z in walk(e):
                if z.get("k") == "DeclRefExpr" and z.get("did") in dep:
                    out |= dep[z["did"]]
            return out
        while changed:
            changed = False
            for x in walk(tbf.body(fn)):
                tgt = src = None
                if x.get("k") == "VarDecl" and kids(x):
                    tgt, src = x["did"], kids(x)[0]
                elif x.get("k") in ("BinaryOperator", "CompoundAssignOperator") and x.get("op", "").endswith("=") and x.get("op") not in ("==", "!=", "<=", ">="):
                    l = strip(kids(x)[0])
                    while l.get("k") in ("ArraySubscriptExpr",) and kids(l):
                        l = strip(kids(l)[0])
                    if l.get("k") == "DeclRefExpr":
                        tgt, src = l.get("did"), kids(x)[1]
                if tgt is not None and tgt not in roots:
                    new = of(src)
                    if not new <= dep.get(tgt, set()):
                        dep[tgt] = dep.get(tgt, set()) | new
                        changed = True
        return dep, of
    dep_k, of_k = deps_in(m, {lvl["did"], pos["did"]})
    calls = [x for x in walk(tbf.body(m)) if x.get("k") in ("CallExpr", "CXXMemberCallExpr") and tbf.callee_name(x) == "applyFC"]
    if len(calls) != 1:
        raise AnalysisBroken("%s::M2L: %d calls of applyFC" % (K, len(calls)))
    args = tbf.call_args(calls[0])
    level_pos = [i for i, a in enumerate(args) if lvl["did"] in of_k(a)]
    code_pos = [i for i, a in enumerate(args) if pos["did"] in of_k(a)]
    if not level_pos or not code_pos:
        raise AnalysisBroken("%s::M2L: the handler call has no level-derived / code-derived argument (%s / %s)" % (K, level_pos, code_pos))
    overloads = [g for g in facts.functions if g["name"] == "applyFC" and not g.get("inst") and tbf.body(g) is not None and len(g["params"]) == len(args)]
    if len(overloads) < 2:
        raise AnalysisBroken("applyFC: %d overloads of arity %d (homogeneous and non-homogeneous handler confirmed by reading)" % (len(overloads), len(args)))
    n = 0
    for g in overloads:
        Lp = [g["params"][i] for i in level_pos if g["params"][i].get("name")]
        Cp = [g["params"][i] for i in code_pos if g["params"][i].get("name")]
        outs = [p_ for p_ in g["params"] if "*" in p_["t"] and not p_["t"].lstrip().startswith("const") and p_.get("name")]
        f = tbf.rel(facts.path_of(g))
        if not Lp:
            res.violation(R, f, g["qname"], "no-level", g["l"][1], "this overload names none of its level-derived parameters (positions %s): its result cannot depend on the level" % level_pos)
            continue
        if not outs:
            raise AnalysisBroken("%s: no output pointer parameter" % g["qname"])
        roots = {p_["did"] for p_ in g["params"]}
        dep, of = deps_in(g, roots)
        acc = []
        for x in walk(tbf.body(g)):
            if x.get("k") in ("BinaryOperator", "CompoundAssignOperator") and x.get("op", "").endswith("=") and x.get("op") not in ("==", "!=", "<=", ">="):
                l = strip(kids(x)[0])
                while l.get("k") in ("ArraySubscriptExpr",) and kids(l):
                    l = strip(kids(l)[0])
                if l.get("k") == "DeclRefExpr" and l.get("did") in [o["did"] for o in outs]:
                    acc.append(x)
        if not acc:
            raise AnalysisBroken("%s: no accumulation into %s found" % (g["qname"], [o["name"] for o in outs]))
        for x in acc:
            n += 1
            d = of(kids(x)[1])
            res.instance(R, "%s@%d" % (g["qname"], x["l"][1]), facts.loc(x), "`%s` depends on %s" % (facts.ntext(x)[:60], sorted(p_["name"] for p_ in g["params"] if p_["did"] in d and p_.get("name"))))
            if not any(p_["did"] in d for p_ in Lp):
                res.violation(R, f, g["qname"], "unscaled@%d" % x["l"][1], x["l"][1],
                              "the term `%s` added to the transformed local expansion does not depend on %s (what this handler derives from the level of the call): it is the contribution of the reference level, right only where the level's factor is 1"
                              % (facts.ntext(x)[:70], " / ".join(p_["name"] for p_ in Lp)))
            elif Cp and not any(p_["did"] in d for p_ in Cp):
                res.violation(R, f, g["qname"], "uncoded@%d" % x["l"][1], x["l"][1], "the term `%s` does not depend on the transfer code (%s)" % (facts.ntext(x)[:70], " / ".join(p_["name"] for p_ in Cp)))
    return n


def table_extents(facts, res, cls="FUnifInterpolator", R="C05.8.table-extent"):
    """A per-level table of the interpolator is allocated with an extent computed from the tree height and read at a level that the
    operators either pass or leave to a default argument.  For every valid height (>= 1) every index used must be below the extent, and the
    entry read must be one the constructor fills.  Decided on closed forms: extent and fill range are expressions in the height H (H,
    max(H, k), min(k, H), literals), evaluated for H = 1..8; an index is a literal default argument when no caller passes the level."""
    import sympy
    H = sympy.Symbol("H", integer=True, positive=True)
    cl = [c for c in facts.classes if c["name"] == cls]
    if not cl:
        raise AnalysisBroken("%s not found" % cls)
    fields = {f["name"]: f for f in cl[0].get("fields", [])}
    methods = [m for m in facts.methods_of(cls) if tbf.body(m) is not None and not m.get("inst")]
    ctors = [m for m in methods if m["kind"] == "CXXConstructor" and m["params"]]
    if len(ctors) != 1:
        raise AnalysisBroken("%s: %d constructors with parameters" % (cls, len(ctors)))
    ctor = ctors[0]
    # the member holding the height: initialised from the first constructor parameter
    hmem = [i["member"] for i in ctor.get("inits", []) if i.get("written") and any(z.get("k") == "DeclRefExpr" and z.get("did") == ctor["params"][0]["did"] for c_ in i.get("c", []) if c_ for z in walk(c_))]
    if len(hmem) != 1:
        raise AnalysisBroken("%s: member initialised from the tree height not found" % cls)
    hmem = hmem[0]
    decls = {v["did"]: v for v in walk(tbf.body(ctor)) if v.get("k") == "VarDecl"}

    def val(e, depth=0):
        e = strip(e)
        k = e.get("k")
        if depth > 6:
            return None
        if k == "IntegerLiteral":
            return sympy.Integer(e["val"])
        if k in ("MemberExpr", "CXXDependentScopeMemberExpr") and e.get("name") == hmem:
            return H
        if k == "DeclRefExpr" and e.get("did") == ctor["params"][0]["did"]:
            return H
        if k == "DeclRefExpr" and e.get("did") in decls:
            d = decls[e["did"]]
            asg = [x for x in walk(tbf.body(ctor)) if x.get("k") == "BinaryOperator" and x.get("op") == "=" and strip(kids(x)[0]).get("did") == e["did"]]
            if kids(d) and not asg:
                return val(kids(d)[0], depth + 1)
            if len(asg) >= 1:
                vs = [val(kids(a)[1], depth + 1) for a in asg]
                return ("oneof", vs)
            return None
        if k in ("CallExpr",) and tbf.callee_name(e) in ("min", "max") and len(tbf.call_args(e)) == 2:
            a, b = [val(x, depth + 1) for x in tbf.call_args(e)]
            if a is None or b is None or isinstance(a, tuple) or isinstance(b, tuple):
                return None
            return sympy.Min(a, b) if tbf.callee_name(e) == "min" else sympy.Max(a, b)
        if k in ("CXXStaticCastExpr", "CStyleCastExpr", "CXXFunctionalCastExpr") and len(kids(e)) == 1:
            return val(kids(e)[0], depth + 1)
        if k == "BinaryOperator" and e.get("op") in ("+", "-"):
            a, b = [val(x, depth + 1) for x in kids(e)]
            if a is None or b is None or isinstance(a, tuple) or isinstance(b, tuple):
                return None
            return a + b if e["op"] == "+" else a - b
        return None
    n = 0
    for x in walk(tbf.body(ctor)):
        if not (x.get("k") == "BinaryOperator" and x.get("op") == "=" and strip(kids(x)[1]).get("k") == "CXXNewExpr" and strip(kids(x)[1]).get("array")):
            continue
        l = strip(kids(x)[0])
        if l.get("k") not in ("MemberExpr", "CXXDependentScopeMemberExpr") or l.get("name") not in fields:
            continue
        tname = l["name"]
        ext = val(kids(strip(kids(x)[1]))[0])
        if ext is None or isinstance(ext, tuple):
            raise AnalysisBroken("%s: extent of the table '%s' not understood: %s" % (facts.loc(x), tname, facts.ntext(kids(strip(kids(x)[1]))[0])[:60]))
        # fill range: for(l = lo; l < hi; ++l) loops of the constructor whose body (or a helper it calls with l) stores tname[l][...]
        fills = []
        for f_ in walk(tbf.body(ctor)):
            if f_.get("k") == "ForStmt" and f_["c"][0] is not None and f_["c"][1] is not None:
                iv = [v for v in kids(f_["c"][0]) if v.get("k") == "VarDecl"]
                cd = strip(f_["c"][1])
                if len(iv) == 1 and kids(iv[0]) and cd.get("k") == "BinaryOperator" and cd.get("op") == "<" and strip(kids(cd)[0]).get("did") == iv[0]["did"]:
                    calls = [c_ for c_ in walk(f_["c"][3]) if c_.get("k") in ("CallExpr", "CXXMemberCallExpr") and any(strip(a_).get("did") == iv[0]["did"] for a_ in tbf.call_args(c_))]
                    fills_here = False
                    for c_ in calls:
                        for g in methods:
                            if g["name"] == tbf.callee_name(c_) and any(z.get("k") == "CXXNewExpr" for z in walk(tbf.body(g))) and tname in facts.ntext(tbf.body(g)):
                                fills_here = True
                    if fills_here:
                        fills.append((val(kids(iv[0])[0]), val(kids(cd)[1]), f_))
        if len(fills) != 1:
            raise AnalysisBroken("%s: %d loops filling the table '%s' through a helper (1 confirmed by reading)" % (cls, len(fills), tname))
        lo, hi, fl = fills[0]
        his = hi[1] if isinstance(hi, tuple) else [hi]
        if lo is None or any(h_ is None for h_ in his):
            raise AnalysisBroken("%s: fill range of '%s' not understood" % (facts.loc(fl), tname))
        # indices: methods subscripting tname[p] with p a parameter that has a literal default and that no caller passes
        for g in methods:
            for y in walk(tbf.body(g)):
                if y.get("k") == "ArraySubscriptExpr" and strip(kids(y)[0]).get("name") == tname and strip(kids(y)[0]).get("k") in ("MemberExpr", "CXXDependentScopeMemberExpr"):
                    idx = strip(kids(y)[1])
                    pp = [p_ for p_ in g["params"] if p_["did"] == idx.get("did")]
                    if not pp or not pp[0].get("c"):
                        continue
                    dv = [z for z in walk(pp[0]["c"][0]) if z.get("k") == "IntegerLiteral"]
                    if len(dv) != 1:
                        continue
                    pos = [i_ for i_, p_ in enumerate(g["params"]) if p_["did"] == pp[0]["did"]][0]
                    passed = False
                    for h_ in facts.functions:
                        if h_.get("inst") or tbf.body(h_) is None:
                            continue
                        for c_ in walk(tbf.body(h_)):
                            if c_.get("k") in ("CallExpr", "CXXMemberCallExpr") and tbf.callee_name(c_) == g["name"] and len(tbf.call_args(c_)) > pos and h_.get("cls") != cls:
                                passed = True
                    if passed:
                        continue       # a level is passed by some caller: that argument is checked where it is computed (C05.4)
                    c0 = int(dv[0]["val"])
                    n += 1
                    bad_ext = [hv for hv in range(1, 9) if not (c0 < ext.subs(H, hv))]
                    bad_fill = [hv for hv in range(1, 9) if not any((lo.subs(H, hv) <= c0) and (c0 < h_.subs(H, hv)) for h_ in his)]
                    res.instance(R, "%s::%s %s[%s=%d]" % (cls, g["name"], tname, pp[0]["name"], c0), facts.loc(y), "extent %s, filled for levels [%s, %s), read at the default level %d" % (ext, lo, " or ".join(str(h_) for h_ in his), c0))
                    if bad_ext:
                        res.violation(R, tbf.rel(facts.path_of(y)), g["qname"], "beyond-extent:%s@%s" % (tname, g["name"]), y["l"][1],
                                      "%s reads `%s[%d]` (the default level, no caller passes one) but the table is allocated with %s entries: for tree heights %s the entry is past the end of the allocation (M2M / L2L run on such trees as soon as the upper working level is below the leaf level)" % (g["name"], tname, c0, ext, bad_ext))
                    elif bad_fill:
                        res.violation(R, tbf.rel(facts.path_of(y)), g["qname"], "unfilled:%s@%s" % (tname, g["name"]), y["l"][1],
                                      "%s reads `%s[%d]` but the constructor fills the levels [%s, %s) only: for tree heights %s the entry read is a null pointer" % (g["name"], tname, c0, lo, " or ".join(str(h_) for h_ in his), bad_fill))
    return n


def full_order_loops(facts, res, kcls, R, ops=("P2M", "M2M", "M2L", "L2L", "L2P")):
    """The truncation order is a compile-time parameter of the kernel: every loop of an operator (and of the same-class helpers it calls
    with compile-time bounds) runs over a range fixed by template constants and enclosing loop variables, or over the items it was handed
    (bound = a count parameter).  A bound computed from the data of the call (a radius, a magnitude, a level) makes the number of terms
    summed depend on the input: the error no longer follows the order."""
    n = 0
    for op in ops:
        for m in [m_ for m_ in facts.methods_of(kcls) if m_["name"] == op and tbf.body(m_) is not None and not m_.get("inst")]:
            body = tbf.body(m)
            tbf.link_parents(body)
            decls = {v["did"]: v for v in walk(body) if v.get("k") == "VarDecl"}
            params = {p_["did"]: p_ for p_ in m["params"]}
            loopvars = set()
            for f in walk(body):
                if f.get("k") == "ForStmt" and f["c"][0] is not None:
                    for v in kids(f["c"][0]):
                        if v.get("k") == "VarDecl":
                            loopvars.add(v["did"])

            def runtime(e, depth=0):
                """the first run-time ingredient of a bound, or None"""
                for z in walk(e):
                    k = z.get("k")
                    if k in ("CallExpr", "CXXMemberCallExpr"):
                        nm = tbf.callee_name(z) or ""
                        if nm in ("atLm", "min", "max", "size", "lipow") or nm.startswith("get") and not tbf.call_args(z) and False:
                            continue
                        if nm in ("atLm", "min", "max", "lipow", "abs"):
                            continue
                        return "the call %s(...)" % nm
                    if k == "DeclRefExpr" and z.get("dk") in ("Var", "ParmVar"):
                        did = z.get("did")
                        if did in loopvars or (z.get("staticmember") and (z.get("t") or "").startswith("const ")):
                            continue
                        if did in params:
                            if re.search(r"(?i)^in(Nb|Size)|nb[A-Z]", params[did].get("name") or ""):
                                continue      # the number of items handed to the operator
                            return "the parameter %s" % params[did].get("name")
                        d = decls.get(did)
                        if d is not None and (d.get("constexpr") or (kids(d) and "const" in d.get("t", "") and depth < 3 and runtime(kids(d)[0], depth + 1) is None)):
                            continue
                        return "the local %s" % z.get("name")
                    if k in ("MemberExpr", "CXXDependentScopeMemberExpr") and not (z.get("t") or "").startswith("const "):
                        fl = [f_ for c_ in facts.classes if c_["name"] == kcls for f_ in c_.get("fields", []) if f_["name"] == z.get("name")]
                        if fl and fl[0].get("t", "").startswith("const "):
                            continue
                        if z.get("name") in ("size",):
                            continue
                        return "the member %s" % z.get("name")
                return None
            for f in walk(body):
                if f.get("k") != "ForStmt" or f["c"][1] is None:
                    continue
                n += 1
                why = runtime(f["c"][1])
                if why is not None:
                    res.violation(R, tbf.rel(facts.path_of(f)), m["qname"], "bound@%d" % f["l"][1], f["l"][1],
                                  "the loop `for(...; %s; ...)` is bounded by %s, a quantity of this call's data: the number of terms of the expansion that are computed / applied then depends on the input (terms cut by an absolute threshold are the ones that matter for small cells), so the error no longer shrinks with the order"
                                  % (facts.ntext(f["c"][1])[:50], why))
    return n
