"""`cursor` engine: control skeleton of the code that walks sorted group sequences in lock-step.

The skeleton of a function keeps the loops with their conditions / intervals, the conditions of the
branches and what each branch does to the loop-carried state (iterator / counter increments and
assignments, break / continue / return) plus a marker `op[X]` where an operator X is applied or
submitted; everything else (other calls, locals of one iteration, assertions) is dropped.
Conditions and targets are the variable-name-free origin descriptors of stages.FnModel; re-assigned
locals are numbered in order of appearance, so a rename or a moved declaration does not change the
skeleton while a changed comparison, bound, branch, advanced cursor or start position does.

Two skeletons are compared as sets of (branch path, step) atoms with the same exactness discipline
as the `sibling` engine: a one-sided difference or a near match is a reportable deviance, a two-sided
difference without any near match means one side was restructured (analysis broken, no verdict).
"""
import re

import tbf
import stages
import sibling
from tbf import walk, kids, strip, AnalysisBroken

OPS = {"P2M", "M2M", "M2L", "L2L", "L2P", "P2P", "P2PInner", "P2PTsm", "M2LInGroup", "M2LBetweenGroups", "P2PInGroup", "P2PBetweenGroups",
       "P2PBetweenGroupsTsm", "M2LTsm", "P2PInGroupTsm"}


def negate(cond):
    """negation of a comparison in the origin notation `(A op B)`, in the orientation FnModel uses (`<` / `<=` with the operands swapped
    rather than `>` / `>=`); None when the condition is not a single comparison"""
    if not (cond.startswith("(") and cond.endswith(")")):
        return None
    inner = cond[1:-1]
    depth = 0
    i = 0
    while i < len(inner):
        ch = inner[i]
        if ch in "([{":
            depth += 1
        elif ch in ")]}":
            depth -= 1
        elif depth == 0:
            for op in ("<=", ">=", "==", "!=", "<", ">"):
                if inner.startswith(op, i) and not inner.startswith("<<", i) and not inner.startswith(">>", i) and not (op in ("<", ">") and i > 0 and inner[i - 1] in "<>-"):
                    a, b = inner[:i], inner[i + len(op):]
                    if "&&" in a or "||" in a or "&&" in b or "||" in b:
                        return None
                    return {"<=": "(%s<%s)" % (b, a), "<": "(%s<=%s)" % (b, a), ">=": "(%s<%s)" % (a, b), ">": "(%s<=%s)" % (a, b), "==": "(%s!=%s)" % (a, b), "!=": "(%s==%s)" % (a, b)}[op]
        i += 1
    return None


class Skeletons:
    def __init__(self, facts, fn, ops=True, counters=True):
        self.facts = facts
        self.fn = fn
        self.fm = stages.FnModel(facts, fn)
        self.ops = ops
        self.counters = counters
        self.depth = 0
        self.inlined = []

    def target(self, n):
        n = strip(n)
        if n.get("k") == "DeclRefExpr":
            o = self.fm.origin(n)
            if o.startswith("it(") or o.startswith("each(") or re.match(r"^param\d+$", o):
                return o
            return "mutable:" + n.get("name", "?")
        return self.fm.origin(n)

    # tree items: ("act", text, node) | ("if", cond, [then], [else], node) | ("loop", head, tail, [body], node)
    def items(self, s, declared):
        if s is None:
            return []
        k = s.get("k")
        if k == "CompoundStmt":
            out = []
            cs = kids(s)
            for i_, c in enumerate(cs):
                it_ = self.items(c, declared)
                # `if(C) return; rest` is `if(!C){ rest }`: an early-return guard and a nesting guard are the same walk
                if len(it_) == 1 and it_[0][0] == "if" and not it_[0][3] and len(it_[0][2]) == 1 and it_[0][2][0][0] == "act" and it_[0][2][0][1] == "return" and i_ + 1 < len(cs):
                    neg = negate(it_[0][1])
                    if neg is not None:
                        rest = []
                        for c2 in cs[i_ + 1:]:
                            rest += self.items(c2, declared)
                        if rest:
                            out.append(("if", neg, rest, [], it_[0][4]))
                        return out
                out += it_
            return out
        if k == "DeclStmt":
            if declared is not None:
                for v in kids(s):
                    if v.get("k") == "VarDecl":
                        declared.add(v["did"])
            return []
        if k == "IfStmt":
            c = s["c"]
            cond, then, els = (c[-3], c[-2], c[-1]) if len(c) >= 3 else (c[0], c[1], None)
            t, e = self.items(then, declared), self.items(els, declared)
            if not t and not e:
                return []
            return [("if", self.fm.origin(cond), t, e, s)]
        if k in ("WhileStmt", "DoStmt", "ForStmt"):
            return [self.loop(s)]
        if k in ("BreakStmt", "ContinueStmt"):
            return [("act", k[:-4].lower(), s)]
        if k == "ReturnStmt":
            return [("act", "return", s)]
        e = strip(s)
        k = e.get("k")
        if k == "BinaryOperator" and e.get("op") == ",":
            return self.items(kids(e)[0], declared) + self.items(kids(e)[1], declared)
        if k == "ExprWithCleanups" and kids(e):
            e = strip(kids(e)[0])
            k = e.get("k")
        act = None
        if k == "UnaryOperator" and e.get("op") in ("++", "--"):
            t = strip(kids(e)[0])
            if not (t.get("k") == "DeclRefExpr" and t.get("did") in (declared or ())):
                act = "%s%s" % (e["op"], self.target(t))
        elif k in ("CompoundAssignOperator", "BinaryOperator") and e.get("op", "").endswith("=") and e.get("op") not in ("==", "!=", "<=", ">="):
            l, r = kids(e)
            t = strip(l)
            if t.get("k") == "DeclRefExpr" and t.get("did") not in (declared or ()):
                ro = self.fm.origin(r)
                if e["op"] in ("+=", "-=") and ro == "1":
                    act = "%s%s" % ("++" if e["op"] == "+=" else "--", self.target(t))
                else:
                    act = "%s%s%s" % (self.target(t), e["op"], ro)
        if act is not None:
            if not self.counters and act.lstrip("+-").startswith("mutable:"):
                return []
            return [("act", act, s)]
        inl = self.inline(e)
        if inl is not None:
            return inl
        if not self.ops:
            return []
        return [("act", "op[%s]" % tbf.callee_name(x), x) for x in walk(s) if x.get("k") in ("CallExpr", "CXXMemberCallExpr") and tbf.callee_name(x) in OPS]

    def inline(self, e):
        """a statement `helper(args)` where helper is a method of the same class: its skeleton with the parameters replaced by the
        origins of the arguments (reference parameters carry the caller's cursors)"""
        if e.get("k") not in ("CallExpr", "CXXMemberCallExpr") or self.depth > 2:
            return None
        nm = tbf.callee_name(e)
        base = tbf.call_base(e)
        if nm in OPS or nm is None or (base is not None and strip(base).get("k") not in ("CXXThisExpr",)):
            return None
        cls = self.fn.get("cls")
        if not cls:
            return None
        args = tbf.call_args(e)
        cands = [g for g in self.facts.methods_of(cls) if g["name"] == nm and tbf.body(g) is not None and not g.get("inst") and len(g["params"]) == len(args)]
        if len(cands) != 1 or cands[0] is self.fn:
            return None
        sub = Skeletons(self.facts, cands[0], self.ops, self.counters)
        sub.depth = self.depth + 1
        t = sub.items(sub.fm.body, None)
        if not t:
            return None
        amap = {"param%d" % i: self.fm.origin(a) for i, a in enumerate(args)}

        def subst(x):
            return re.sub(r"\bparam(\d+)\b", lambda m: amap.get(m.group(0), m.group(0)), x)

        def rec(items):
            out = []
            for it in items:
                if it[0] == "act":
                    out.append(("act", subst(it[1]), e))
                elif it[0] == "if":
                    out.append(("if", subst(it[1]), rec(it[2]), rec(it[3]), e))
                else:
                    out.append(("loop", subst(it[1]), subst(it[2]), rec(it[3]), e))
            return out
        self.inlined.append(cands[0]["qname"])
        return rec(t)

    def loop(self, s):
        declared = set()   # what an enclosing loop declares is loop-carried state for this loop
        k = s.get("k")
        if k == "WhileStmt":
            cond, body = s["c"][-2], s["c"][-1]
            return ("loop", "while(%s)" % self.fm.origin(cond), "", self.items(body, declared), s)
        if k == "DoStmt":
            body, cond = s["c"][0], s["c"][1]
            return ("loop", "do", "while(%s)" % self.fm.origin(cond), self.items(body, declared), s)
        init, cond, inc, body = s["c"]
        ivars = [v for v in kids(init) if v.get("k") == "VarDecl"] if init is not None and init.get("k") == "DeclStmt" else []
        if ivars and all(kids(v_) for v_ in ivars) and self.fm.origin(kids(ivars[0])[0]).startswith("it(") and cond is not None \
                and all(self.fm.origin(kids(v_)[0]).startswith(("it(", "end(")) for v_ in ivars[1:]):
            # for(auto it = X.begin(); it != X.end(); ++it) == the while form with the increment last
            items = self.items(body, declared) + (self.items(inc, declared) if inc is not None else [])
            return ("loop", "while(%s)" % self.fm.origin(cond), "", items, s)
        if init is None and cond is not None:
            # for( ; cond ; step, step) == while(cond){ body; step; step; }
            items = self.items(body, declared) + (self.items(inc, declared) if inc is not None else [])
            return ("loop", "while(%s)" % self.fm.origin(cond), "", items, s)
        if init is not None:
            self.items(init, declared)
        try:
            lo, hi, d = self.fm.loop_interval(s)
            head = "for[%s,%s]%s" % (lo, hi, d)
        except AnalysisBroken:
            head = "for(%s)" % (self.fm.origin(cond) if cond is not None else "")
        return ("loop", head, "", self.items(body, declared), s)

    def tree(self):
        body = self.items(self.fm.body, None)
        text = render(body)
        inits = []
        for nm in dict.fromkeys(re.findall(r"mutable:(\w+)", text)):
            ds = [x for x in walk(self.fm.body) if x.get("k") == "VarDecl" and x.get("name") == nm]
            if ds and kids(ds[0]):
                inits.append(("act", "mutable:%s:=%s" % (nm, self.fm.origin(kids(ds[0])[0])), ds[0]))
        return inits + body

    def function(self):
        return number(render(self.tree()))[0]

    def atoms(self, canon=None):
        """{atom text: node}; an atom is `path | step` where path lists the enclosing loop heads and branch conditions"""
        t = self.tree()
        _s, names, locs = number(render(t))
        out = {}

        def c(x):
            x = re.sub(r"mutable:(\w+)", lambda m: "mutable:" + names.get(m.group(1), m.group(1)), x)
            x = re.sub(r"local:(\w+)", lambda m: "local:" + locs.get(m.group(1), m.group(1)), x)
            for a, b in (canon or ()):
                x = re.sub(a, b, x)
            return x

        def rec(items, path):
            for i, it in enumerate(items):
                if it[0] == "act":
                    # position among the operator markers / actions of the same block matters only relative to ops: keep the order index of ops
                    out.setdefault("step %s | %s" % (" / ".join(path), c(it[1])), it[2])
                elif it[0] == "if":
                    out.setdefault("cond %s | %s" % (" / ".join(path), c(it[1])), it[4])
                    rec(it[2], path + ["T:" + c(it[1])])
                    rec(it[3], path + ["F:" + c(it[1])])
                else:
                    h = c(it[1] + it[2])
                    out.setdefault("loop %s | %s" % (" / ".join(path), h), it[4])
                    rec(it[3], path + [h])
        rec(t, [])
        return out


def render(items):
    out = []
    for it in items:
        if it[0] == "act":
            out.append(it[1])
        elif it[0] == "if":
            out.append("if(%s){%s}else{%s}" % (it[1], render(it[2]), render(it[3])))
        else:
            out.append("%s{%s}%s" % (it[1], render(it[3]), it[2]))
    return ";".join(out)


def number(s):
    names, locs = {}, {}
    s = re.sub(r"mutable:(\w+)", lambda m: "mutable:" + names.setdefault(m.group(1), "v%d" % (len(names) + 1)), s)
    s = re.sub(r"local:(\w+)", lambda m: "local:" + locs.setdefault(m.group(1), "u%d" % (len(locs) + 1)), s)
    return s, names, locs


def compare(facts, res, rule, fa, fb, what, canon_a=None, canon_b=None, ops=True, counters=True):
    """fb deviates from fa?  (fa is the reference / the sibling)"""
    A = Skeletons(facts, fa, ops, counters).atoms(canon_a)
    B = Skeletons(facts, fb, ops, counters).atoms(canon_b)
    res.instance(rule, "%s vs %s" % (fb["qname"], fa["qname"]), facts.loc(fb), "%s: %d / %d skeleton steps" % (what, len(B), len(A)))
    onlyA, onlyB = sorted(set(A) - set(B)), sorted(set(B) - set(A))
    if not onlyA and not onlyB:
        return 0
    if onlyA and onlyB:
        pairs = [(a, b) for a in onlyA for b in onlyB if sibling._near(a, b)]
        if not pairs:
            raise AnalysisBroken("%s: %s and %s differ structurally (%d / %d unmatched steps, none a near match, e.g. `%s` vs `%s`): one of them was restructured; re-confirm by reading"
                                 % (what, fa["qname"], fb["qname"], len(onlyA), len(onlyB), onlyA[0][:100], onlyB[0][:100]))
        seen = set()
        for a, b in pairs:
            if b in seen:
                continue
            seen.add(b)
            res.violation(rule, tbf.rel(facts.path_of(B[b])), fb["qname"], ("differs:" + b)[-110:], B[b]["l"][1],
                          "%s: here `%s`, in %s `%s` (%s): the two walks no longer visit the same groups / cells" % (what, short(b), fa["qname"], short(a), facts.loc(A[a])))
        return len(seen)
    for k in onlyA:
        res.violation(rule, tbf.rel(facts.path_of(fb)), fb["qname"], ("missing:" + k)[-110:], fb["l"][1],
                      "%s: %s has `%s` (%s), this function does not" % (what, fa["qname"], short(k), facts.loc(A[k])))
    for k in onlyB:
        res.violation(rule, tbf.rel(facts.path_of(B[k])), fb["qname"], ("extra:" + k)[-110:], B[k]["l"][1],
                      "%s: `%s` has no counterpart in %s" % (what, short(k), fa["qname"]))
    return len(onlyA) + len(onlyB)


def short(a):
    kind, rest = a.split(" ", 1)
    path, step = rest.rsplit(" | ", 1)
    return ("%s %s" % (kind, step))[:200]
