"""Shared infrastructure of the tbfmm static checks.

* locating /repo (env TBF_REPO overrides, used by the self-tests on scratch copies)
* umbrella translation units generated from the current working tree
* running tbfscan (libTooling fact exporter) and loading its facts
* tree helpers (walk, text, loc), rule results, evidence writing, known findings
"""
import atexit
import json
import os
import re
import shutil
import subprocess
import sys
import tempfile
import time

VERIF = os.path.dirname(os.path.dirname(os.path.abspath(__file__)))
REPO = os.path.abspath(os.environ.get("TBF_REPO", "/repo"))
SRC = os.path.join(REPO, "src")
BUILD = os.path.join(VERIF, "build")
OUT = os.path.abspath(os.environ.get("TBF_OUT", VERIF))    # evidence/ and replay/ go here (self-tests redirect it)
TBFSCAN = os.path.join(BUILD, "tbfscan")
RESOURCE_DIR = "/usr/lib/llvm-14/lib/clang/14.0.6"

# Flags of the pinned build (ninja -C /repo/_build -t commands), minus warnings/-O; clang needs
# -fopenmp-version=45 so that the repo's `commute` macro takes the same branch as under g++ 12.
BASE_DEFS = ["-DTBF_USE_OPENMP", "-DTBF_USE_FFTW", "-DNDEBUG"]
CLANG_FLAGS = ["-std=gnu++17", "-fopenmp", "-fopenmp-version=45", "-Wno-everything"]
GXX_FLAGS = ["-std=c++17", "-fopenmp"]

STD_PRELUDE = ["vector", "functional", "algorithm", "array", "optional", "memory", "set", "cstring",
               "cassert", "cmath", "iostream", "unordered_map", "map", "utility", "type_traits", "complex",
               "string", "sstream", "fstream", "limits", "numeric", "iterator", "tuple", "list", "chrono"]


class AnalysisBroken(Exception):
    """The analyser cannot follow the code (anchor vanished, idiom unknown, parse error): exit 2."""


_scratch = None


def scratch():
    global _scratch
    if _scratch is None:
        _scratch = tempfile.mkdtemp(prefix="tbfverif.")
        atexit.register(lambda: shutil.rmtree(_scratch, ignore_errors=True))
    return _scratch


def rel(path):
    """path relative to the repository root (for reports and known-finding keys)"""
    path = os.path.abspath(path)
    if path.startswith(REPO + os.sep):
        return path[len(REPO) + 1:]
    if path.startswith(VERIF + os.sep):
        return "verif:" + path[len(VERIF) + 1:]
    return path


def list_headers():
    out = []
    for root, _dirs, files in os.walk(SRC):
        for f in files:
            if f.endswith(".hpp") or f.endswith(".h"):
                out.append(os.path.relpath(os.path.join(root, f), SRC))
    out.sort()
    return out


def _is_cuda(h):
    b = os.path.basename(h).lower()
    return "cuda" in b


def dead_headers():
    """headers that include a quoted file which exists nowhere (legacy ScalFMM leftovers): nobody can
    compile them, so they are outside every build and every analysis configuration"""
    dead = {}
    for h in list_headers():
        txt = open(os.path.join(SRC, h), errors="replace").read()
        for inc in re.findall(r'^\s*#\s*include\s+"([^"]+)"', txt, re.M):
            cands = [os.path.join(os.path.dirname(os.path.join(SRC, h)), inc), os.path.join(SRC, inc)]
            if not any(os.path.exists(c) for c in cands):
                dead.setdefault(h, []).append(inc)
    return dead


def umbrella_headers(config):
    """Headers of one analysis configuration.  Every header of src/ belongs to at least one
    configuration except the CUDA ones (nvcc-only code, no CUDA toolkit in this image) and the
    dead ones (see dead_headers)."""
    dead = dead_headers()
    hs = [h for h in list_headers() if not _is_cuda(h) and h not in dead]
    specx = [h for h in hs if "/smspecx/" in "/" + h]
    starpu = [h for h in hs if "/smstarpu/" in "/" + h]
    core = [h for h in hs if h not in specx and h not in starpu and not h.endswith("tbfalgorithmselecter.hpp")]
    if config in ("core", "asserts"):
        return core
    if config == "specx":
        return core + specx
    if config == "starpu":
        return core + starpu
    raise AnalysisBroken("unknown umbrella configuration " + config)


def umbrella_text(config, extra=""):
    # headers are not self-contained; this is the order the unit tests rely on
    first = ["utils/tbfutils.hpp", "spacial/tbfspacialconfiguration.hpp", "spacial/tbfmortonspaceindex.hpp",
             "kernels/rotationkernel/FSpherical.hpp"]
    hs = umbrella_headers(config)
    for f in first:
        if f not in hs:
            raise AnalysisBroken("anchor header vanished: src/" + f)
    lines = ["#include <%s>" % s for s in STD_PRELUDE]
    lines.append('#include "tbfglobal.hpp"')
    for h in first + [h for h in hs if h not in first]:
        lines.append('#include "%s"' % h)
    return "\n".join(lines) + "\n" + extra


def config_flags(config):
    fl = list(BASE_DEFS) + ["-I", SRC]
    if config == "asserts":
        # the same sources with the library's assertions compiled in (the pinned build defines NDEBUG; property C15 is about runs with
        # assertions enabled)
        fl = [x for x in fl if x != "-DNDEBUG"] + ["-UNDEBUG"]
    if config == "specx":
        fl += ["-DTBF_USE_SPECX", "-I", os.path.join(VERIF, "stubs", "specx")]
    if config == "starpu":
        fl += ["-DTBF_USE_STARPU", "-I", os.path.join(VERIF, "stubs", "starpu")]
    return fl


_facts_cache = {}


def scan_file(path, flags, roots, inst=False):
    if not os.path.exists(TBFSCAN):
        raise AnalysisBroken("tbfscan not built: run MANIFEST.setup_cmd (tools/tbfscan/build.sh)")
    out = os.path.join(scratch(), "facts%d.json" % len(os.listdir(scratch())))
    cmd = [TBFSCAN]
    for r in roots:
        cmd += ["--root", r]
    if inst:
        cmd += ["--inst"]
    cmd += ["-o", out, path, "--"] + CLANG_FLAGS + flags + ["-resource-dir", RESOURCE_DIR]
    p = subprocess.run(cmd, stdout=subprocess.PIPE, stderr=subprocess.PIPE, universal_newlines=True)
    if p.returncode != 0 or not os.path.exists(out):
        raise AnalysisBroken("tbfscan failed on %s (the tree does not parse?):\n%s" % (path, p.stderr[-3000:]))
    with open(out) as f:
        data = json.load(f)
    os.unlink(out)
    return Facts(data)


def scan(config="core", inst=False, extra=""):
    key = (config, inst, extra)
    if key in _facts_cache:
        return _facts_cache[key]
    tu = os.path.join(scratch(), "umbrella_%s_%d.cpp" % (config, len(_facts_cache)))
    with open(tu, "w") as f:
        f.write(umbrella_text(config, extra))
    facts = scan_file(tu, config_flags(config), [SRC + os.sep], inst=inst)
    facts.config = config
    facts.headers = umbrella_headers(config)
    _facts_cache[key] = facts
    return facts


_file_text = {}


def file_text(path):
    if path not in _file_text:
        with open(path, "rb") as f:
            _file_text[path] = f.read()
    return _file_text[path]


class Facts:
    def __init__(self, data):
        self.files = data["files"]
        self.functions = data["functions"]
        self.classes = data["classes"]
        self.enums = data["enums"]
        self.globals = data.get("globals", [])
        self.errors = data.get("errors", 0)
        self.by_qname = {}
        for fn in self.functions:
            fn["_facts"] = self
            self.by_qname.setdefault(fn["qname"], []).append(fn)
        self.cls_by_name = {}
        for c in self.classes:
            self.cls_by_name.setdefault(c["name"], []).append(c)

    # ---- lookup
    def fns(self, qname, inst=False):
        return [f for f in self.by_qname.get(qname, []) if bool(f.get("inst")) == inst]

    def fn(self, qname, nparams=None):
        c = self.fns(qname)
        if nparams is not None:
            c = [f for f in c if len(f["params"]) == nparams]
        if len(c) > 1 and nparams is None:
            # overloads: the entry point without parameters is the one the rules name (`rebuild()`); the others are its helpers and are
            # spliced in by expand_member_helpers where it calls them
            z = [f for f in c if len(f["params"]) == 0]
            if len(z) == 1:
                return z[0]
        if len(c) != 1:
            raise AnalysisBroken("expected exactly one definition of %s%s, found %d" % (
                qname, "" if nparams is None else "/%d" % nparams, len(c)))
        return c[0]

    def methods_of(self, cls):
        return [f for f in self.functions if f.get("cls") == cls and not f.get("inst")]

    def cls(self, name):
        c = [x for x in self.cls_by_name.get(name, []) if "specname" not in x or x.get("template")]
        if not c:
            c = self.cls_by_name.get(name, [])
        if len(c) < 1:
            raise AnalysisBroken("class %s not found" % name)
        return c[0]

    # ---- node helpers
    def path_of(self, n):
        l = n.get("l")
        return self.files[l[0]] if l else "?"

    def loc(self, n):
        l = n.get("l")
        if not l:
            return "?"
        return "%s:%d" % (rel(self.files[l[0]]), l[1])

    def text(self, n):
        if n is None or "b" not in n or "l" not in n:
            return ""
        return file_text(self.files[n["l"][0]])[n["b"]:n["e"]].decode("utf-8", "replace")

    def ntext(self, n):
        return norm(self.text(n))


def norm(s):
    return re.sub(r"\s+", "", s)


def kids(n):
    return [c for c in n.get("c", []) if c is not None]


def walk(n, into_lambdas=True, into_omp=True):
    """pre-order walk over a node (including OMP clause expressions and lambda bodies)"""
    if n is None:
        return
    stack = [n]
    while stack:
        x = stack.pop()
        if x is None:
            continue
        yield x
        ch = []
        if x.get("k", "").startswith("OMP") and "clauses" in x:
            ch += x["clauses"]
        if x.get("k") == "LambdaExpr":
            if not into_lambdas and x is not n:
                continue
            for cap in x.get("captures", []):
                ch += cap.get("c", [])
            ch += x.get("params", [])
        ch += x.get("pre", [])     # init statement / condition variable of an if
        ch += x.get("c", [])
        stack.extend(reversed([c for c in ch if c is not None]))


def body(fn):
    b = fn.get("body") or []
    return b[0] if b and b[0] is not None else None


def link_parents(root):
    """set n['_p'] for every node under root"""
    stack = [root]
    root.setdefault("_p", None)
    while stack:
        x = stack.pop()
        ch = []
        if "clauses" in x:
            ch += x["clauses"]
        if x.get("k") == "LambdaExpr":
            for cap in x.get("captures", []):
                ch += cap.get("c", [])
            ch += x.get("params", [])
        ch += x.get("pre", [])
        ch += x.get("c", [])
        for c in ch:
            if c is not None:
                c["_p"] = x
                stack.append(c)


def ancestors(n):
    p = n.get("_p")
    while p is not None:
        yield p
        p = p.get("_p")


def strip(n):
    """skip parentheses and implicit casts"""
    while n is not None and n.get("k") in ("ParenExpr", "ImplicitCastExpr") and kids(n):
        n = kids(n)[0]
    return n


def callee_name(call):
    """best-effort name of what a CallExpr-like node calls (member name for dependent calls)"""
    k = call.get("k")
    if k not in ("CallExpr", "CXXMemberCallExpr", "CXXOperatorCallExpr"):
        return None
    if "callee" in call:
        return call["callee"].split("::")[-1]
    c = kids(call)
    if not c:
        return None
    f = strip(c[0])
    return f.get("name")


def callee_qual(call):
    """qualified form when available: resolved qname, or 'qual::name' for unresolved lookups"""
    if "callee" in call:
        return call["callee"]
    c = kids(call)
    if not c:
        return None
    f = strip(c[0])
    if f.get("qual"):
        return f["qual"] + f.get("name", "")
    return f.get("name")


def call_args(call):
    c = kids(call)
    if call.get("k") == "CXXOperatorCallExpr":
        return c[1:]
    return c[1:]


def call_base(call):
    """object expression of a member call (None for implicit this / free function)"""
    c = kids(call)
    if not c:
        return None
    f = strip(c[0])
    if f.get("k") in ("MemberExpr", "CXXDependentScopeMemberExpr", "UnresolvedMemberExpr"):
        k = kids(f)
        return k[0] if k else None
    return None



# --------------------------------------------------------------------------- helper expansion


def _copy_node(n):
    if n is None:
        return None
    if isinstance(n, list):
        return [_copy_node(x) for x in n]
    if not isinstance(n, dict):
        return n
    return {k: (_copy_node(v) if isinstance(v, (dict, list)) else v) for k, v in n.items() if not k.startswith("_")}


_PURE_CALLS = ("front", "back", "size", "begin", "end", "cbegin", "cend", "data", "get", "empty")


def _pure_arg(n):
    """literals, variables, and read-only accessor chains on them"""
    n = strip(n)
    if n is None:
        return False
    k = n.get("k")
    if k in ("IntegerLiteral", "FloatingLiteral", "CXXBoolLiteralExpr", "CXXNullPtrLiteralExpr", "DeclRefExpr", "CXXThisExpr"):
        return True
    if k == "UnaryOperator" and n.get("op") in ("-", "+", "!"):
        return _pure_arg(kids(n)[0])
    if k in ("MemberExpr", "CXXDependentScopeMemberExpr"):
        return not kids(n) or _pure_arg(kids(n)[0])
    if k in ("ParenExpr",) or k.endswith("CastExpr"):
        return len(kids(n)) == 1 and _pure_arg(kids(n)[0])
    if k in ("ArraySubscriptExpr",):
        return all(_pure_arg(c) for c in kids(n))
    if k in ("CallExpr", "CXXMemberCallExpr"):
        nm = callee_name(n) or ""
        if (nm in _PURE_CALLS or nm.startswith("get")) and call_base(n) is not None and _pure_arg(call_base(n)) and all(_pure_arg(a) for a in call_args(n)):
            return True
    return False


_EXPANSIONS = [0]


def expand_member_helpers(facts, fn, depth=3, _stack=()):
    """A copy of the function record in which every statement-level call of a member function of the same class
    (one definition, body available, no `return` other than a trailing one, not recursive) is replaced by the callee's
    body, parameters bound as const locals.  A constructor / rebuild() pair whose common part was extracted into a
    private helper is then analysed exactly like the unextracted code.  Calls that are not statements are left alone."""
    b = body(fn)
    if b is None or depth <= 0:
        return fn
    cls = fn.get("cls")
    changed = [False]

    def helper_for(call, allow_value=False):
        if call.get("k") not in ("CallExpr", "CXXMemberCallExpr"):
            return None
        base = call_base(call)
        if base is not None and strip(base).get("k") != "CXXThisExpr":
            return None
        nm = callee_name(call)
        cands = [g for g in facts.methods_of(cls) if g["name"] == nm and body(g) is not None and g.get("kind") not in ("CXXConstructor", "CXXDestructor")
                 and len(g["params"]) == len(call_args(call))]
        if len(cands) != 1 or cands[0] is fn or cands[0]["qname"] in _stack:
            return None
        g = cands[0]
        rets = [x for x in walk(body(g), into_lambdas=False) if x.get("k") == "ReturnStmt"]
        if any(kids(r) for r in rets) and not allow_value:
            return None     # the helper returns a value: not a plain block of statements
        # `return;` inside the helper (guards such as "nothing to build") stays a return after splicing: the rules treat it as an
        # exit of the construction, which is what it is for the caller as long as nothing the rules look at follows the call
        return g

    def rec(n):
        if n is None:
            return None
        out = {k: v for k, v in n.items() if not k.startswith("_") and k != "c"}
        ch = []
        for c in n.get("c", []):
            if c is not None and n.get("k") == "CompoundStmt":
                g = helper_for(c)
                if g is None and c.get("k") == "ReturnStmt" and kids(c) and strip(kids(c)[0]) is not None and strip(kids(c)[0]).get("k") in ("CallExpr", "CXXMemberCallExpr"):
                    # `return helper(args);` - the function forwards: the helper's returns are this function's returns
                    g = helper_for(strip(kids(c)[0]), allow_value=True)
                    if g is not None:
                        c = strip(kids(c)[0])
                if g is not None:
                    ge = expand_member_helpers(facts, g, depth - 1, _stack + (fn["qname"],))
                    gb = _copy_node(body(ge))
                    bind = []
                    pd = set()
                    subst = {}
                    esub = {}
                    for p_, a in zip(g["params"], call_args(c)):
                        a0 = strip(a)
                        if a0 is not None and a0.get("k") == "DeclRefExpr":
                            subst[p_["did"]] = a0          # a plain variable / parameter of the caller: the callee's parameter IS that object
                            continue
                        if _pure_arg(a0) and not any(y.get("k") in ("BinaryOperator", "CompoundAssignOperator", "UnaryOperator") and y.get("op") in ("=", "+=", "-=", "*=", "/=", "++", "--")
                                                     and kids(y) and strip(kids(y)[0]).get("did") == p_["did"] for y in walk(gb)):
                            esub[p_["did"]] = a0           # a side-effect free expression the callee only reads: the parameter is that value
                            continue
                        pd.add(p_["did"])
                        bind.append({"k": "DeclStmt", "l": c.get("l"), "b": c.get("b"), "e": c.get("e"),
                                     "c": [{"k": "VarDecl", "name": p_["name"], "did": p_["did"], "t": p_["t"], "local": True, "initstyle": "c",
                                            "l": c.get("l"), "b": c.get("b"), "e": c.get("e"), "c": [rec(a)]}]})
                    for x in list(walk(gb)):
                        if x.get("k") == "DeclRefExpr" and x.get("did") in esub:
                            cp = _copy_node(esub[x["did"]])
                            for k_ in list(x.keys()):
                                del x[k_]
                            x.update(cp)
                            continue
                        if x.get("k") == "DeclRefExpr" and x.get("did") in pd:
                            x["dk"] = "Var"
                        if x.get("k") == "DeclRefExpr" and x.get("did") in subst:
                            src = subst[x["did"]]
                            keep = {k_: x[k_] for k_ in ("l", "b", "e") if k_ in x}
                            for k_ in list(x.keys()):
                                if k_ not in ("c",):
                                    del x[k_]
                            x.update({k_: v_ for k_, v_ in src.items() if not k_.startswith("_") and k_ != "c"})
                            x.update(keep)
                            x["b"], x["e"] = src.get("b"), src.get("e")      # source text of the caller's variable (names are compared through text in places)
                            x["l"] = src.get("l")
                    # the callee's own locals become distinct variables at every call site (two splices of one helper must not share
                    # a loop counter: per-variable facts such as an index's domain would be merged across the two calls)
                    _EXPANSIONS[0] += 1
                    ren = {v_["did"]: "%s@x%d" % (v_["did"], _EXPANSIONS[0]) for v_ in walk(gb) if v_.get("k") == "VarDecl" and v_.get("did") is not None and v_["did"] not in pd}
                    if ren:
                        for x in walk(gb):
                            if x.get("k") in ("VarDecl", "DeclRefExpr") and x.get("did") in ren:
                                x["did"] = ren[x["did"]]
                    ch.extend(bind + kids(gb))          # spliced in place of the call statement
                    changed[0] = True
                    continue
            ch.append(rec(c))
        out["c"] = ch
        for extra in ("clauses", "params", "captures", "pre"):
            if extra in n:
                out[extra] = [rec(x) if isinstance(x, dict) and "k" in x else _copy_node(x) for x in n[extra]]
        return out

    nb = rec(b)
    if not changed[0]:
        return fn
    fn2 = {k: v for k, v in fn.items() if k != "body"}
    fn2["body"] = [nb]
    fn2["expanded"] = True
    return fn2

# --------------------------------------------------------------------------- results


class Result:
    """Outcome of one property check: rule instances examined, violations, notes."""

    def __init__(self, pid):
        self.pid = pid
        self.instances = []      # dicts: rule, key, loc, detail, nontrivial(bool)
        self.violations = []     # dicts: rule, file, function, key, line, msg
        self.units = []          # what was analysed (files / TUs / functions)
        self.rules = []          # textual statement of each rule applied
        self.assumptions = []
        self.obligations = 0
        self.discharged = 0
        self.checker_cmds = []
        self.trusted = []
        self.explanation = ""

    def rule(self, text):
        if text not in self.rules:
            self.rules.append(text)

    def instance(self, rule, key, loc, detail="", nontrivial=True):
        self.instances.append({"rule": rule, "key": key, "at": loc, "detail": detail, "nontrivial": nontrivial})

    def violation(self, rule, file, function, key, line, msg):
        self.violations.append({"rule": rule, "file": file, "function": function, "key": key, "line": line, "msg": msg})

    def floor(self, rule, got, minimum, what):
        """instance-count floor confirmed by hand on the pinned tree: below it the analysis is broken"""
        if got < minimum and any(v["rule"].startswith(rule) for v in self.violations):
            return   # the missing instances are explained by violations already reported for this rule
        if got < minimum:
            raise AnalysisBroken("rule %s matched %d %s, floor confirmed by reading is %d - the analyser no longer follows the code" % (rule, got, what, minimum))


def load_known():
    p = os.path.join(VERIF, "known_findings.json")
    if not os.path.exists(p):
        return {"findings": [], "fixed": []}
    with open(p) as f:
        return json.load(f)


def is_known(pid, v, known):
    for k in known.get("findings", []):
        if k.get("property") == pid and k.get("rule") == v["rule"] and k.get("file") == v["file"] \
                and k.get("function") == v["function"] and k.get("key") == v["key"]:
            return k
    return None


def finish(res, tier, level, t0, technique):
    """print the verdict lines, write evidence/<id>.json and the replay file, return exit code"""
    known = load_known()
    new, listed = [], []
    for v in res.violations:
        k = is_known(res.pid, v, known)
        (listed if k else new).append(v)
    for v in listed:
        print("KNOWN-FINDING: property=%s %s %s:%s %s [%s] %s" % (res.pid, v["rule"], v["file"], v["line"], v["function"], v["key"], v["msg"]))
    os.makedirs(os.path.join(OUT, "evidence"), exist_ok=True)
    replay = None
    if new:
        os.makedirs(os.path.join(OUT, "replay"), exist_ok=True)
        replay = os.path.join(OUT, "replay", "%s.json" % res.pid)
        with open(replay, "w") as f:
            json.dump({"property": res.pid, "tier": tier, "repo": REPO, "violations": new,
                       "how_to_replay": "./check %s --tier %s  (deterministic: re-analyses the current tree and reports the same constructs)" % (res.pid, tier)}, f, indent=1)
        for v in new:
            print("  violated rule %s at %s:%s in %s [%s]: %s" % (v["rule"], v["file"], v["line"], v["function"], v["key"], v["msg"]))
    distinct = len(set((i["rule"], i["key"], i["at"]) for i in res.instances if i["nontrivial"]))
    samples = []
    seen_rules = set()
    for i in res.instances:
        if i["rule"] not in seen_rules or len(samples) < 6:
            if sum(1 for s in samples if s["rule"] == i["rule"]) < 3:
                samples.append({"rule": i["rule"], "instance": i["key"], "at": i["at"], "detail": i["detail"]})
            seen_rules.add(i["rule"])
    samples = samples[:40]
    cov = {
        "evaluations": len(res.instances),
        "distinct_nontrivial": distinct,
        "rule": " | ".join(res.rules),
        "samples": samples,
        "explanation": res.explanation or ("static analysis (%s) of the current working tree of %s; rule instances enumerated from the "
                                           "type-checked clang AST / compiler diagnostics, none obtained by executing library code" % (technique, REPO)),
        "units_analysed": res.units,
        "instances_per_rule": _count_by(res.instances, "rule"),
        "known_findings_matched": len(listed),
    }
    if res.obligations:
        cov.update({"obligations": res.obligations, "discharged": res.discharged,
                    "checker_cmd": " ; ".join(res.checker_cmds) or "./check %s" % res.pid, "trusted_base": res.trusted})
    ev = {"property_id": res.pid, "tier": tier, "seed": int(os.environ.get("VERIF_SEED", "0") or 0), "level": level,
          "coverage": cov, "assumptions": res.assumptions, "wall_s": round(time.time() - t0, 2),
          "violations": len(new)}
    with open(os.path.join(OUT, "evidence", "%s.json" % res.pid), "w") as f:
        json.dump(ev, f, indent=1)
    if new:
        print("VIOLATION property=%s replay=%s" % (res.pid, replay))
        return 1
    print("OK property=%s tier=%s instances=%d distinct=%d known=%d wall=%.1fs" % (res.pid, tier, len(res.instances), distinct, len(listed), time.time() - t0))
    return 0


def _count_by(items, key):
    d = {}
    for i in items:
        d[i[key]] = d.get(i[key], 0) + 1
    return d


# --------------------------------------------------------------------------- compiler witnesses


def compile_witness(text, compiler="g++", extra_flags=(), config="core", name="w.cpp", max_errors=0, clang_default_openmp=False):
    """-fsyntax-only compile of a generated TU with the repository's flags; returns (rc, stderr)"""
    d = scratch()
    path = os.path.join(d, name)
    with open(path, "w") as f:
        f.write(text)
    if compiler == "g++":
        cmd = ["g++"] + GXX_FLAGS + ["-fmax-errors=%d" % max_errors]
    else:
        cmd = ["clang++", "-std=gnu++17", "-fopenmp"] + ([] if clang_default_openmp else ["-fopenmp-version=45"]) + ["-ferror-limit=%d" % max_errors]
    cmd += config_flags(config) + ["-fsyntax-only", "-w"] + list(extra_flags) + [path]
    p = subprocess.run(cmd, stdout=subprocess.PIPE, stderr=subprocess.PIPE, universal_newlines=True)
    return p.returncode, p.stderr


def first_repo_diag(stderr):
    """first 'file:line:col: error' whose file is under the repository source tree"""
    for line in stderr.splitlines():
        m = re.match(r"^(\S+?):(\d+):(\d+): (?:fatal )?error: (.*)$", line)
        if m and os.path.abspath(m.group(1)).startswith(SRC):
            return rel(m.group(1)), int(m.group(2)), m.group(4)
    for line in stderr.splitlines():
        m = re.match(r"^(\S+?):(\d+):(\d+): (?:fatal )?error: (.*)$", line)
        if m:
            return rel(m.group(1)), int(m.group(2)), m.group(4)
    return "?", 0, stderr.strip().splitlines()[0] if stderr.strip() else "unknown error"


def donor_run(res, donor, sub, tier="quick"):
    """runs the `run` of another property's rule module into `sub` for re-export; when the donor cannot follow the code the re-exporting
    check goes on with its own clauses and the donor's `analysis broken` is deferred: the driver reports it (exit 2) only if no clause of
    the re-exporting check has a verdict of its own (`res.deferred`)"""
    try:
        donor.run(sub, tier)
        return True
    except AnalysisBroken as e:
        if not hasattr(res, "deferred"):
            res.deferred = []
        res.deferred.append(e)
        sub.broken = True
        return False


def reexport(res, sub, prefixes, new_rule, suffix="", min_instances=0, what="facts"):
    """copies the instances / violations of `sub` whose rule starts with one of `prefixes` into `res` under `new_rule`; returns the number of
    instances copied (a re-exported clause with no instance at all means the donor rule no longer produces its facts: analysis broken)"""
    n = 0
    for i in sub.instances:
        if i["rule"].startswith(tuple(prefixes)):
            n += 1
            res.instance(new_rule, i["key"], i["at"], i["detail"])
    for v in sub.violations:
        if v["rule"].startswith(tuple(prefixes)):
            res.violation(new_rule, v["file"], v["function"], v["key"], v["line"], v["msg"] + suffix)
    if n < min_instances and not getattr(sub, "broken", False):
        raise AnalysisBroken("re-exported rule %s: %d %s from %s (at least %d confirmed by reading)" % (new_rule, n, what, "/".join(prefixes), min_instances))
    return n
