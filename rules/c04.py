"""C04 - rotation kernel FMM matches the direct sum to its expansion order.

The accuracy bound itself (a floating-point truncation error over all particle positions, heights and orders) is NOT
decided.  Decided are the places where the kernel must agree with the tree it serves - each a necessary condition
of the behaviour (breaking it makes results wrong for the inputs named), each visible in the shape of the code:

 1 level tables = geometry.  The M2M / L2L / M2L translation tables are evaluated symbolically (symx: exact closed
   forms of the table-building loops, symbolic in box width W, tree height H, order P).  Required, as identities
   proven by induction over the order index: entry [level][j] of the upward / downward table is (-b)^j / j! resp.
   b^j / j! with b = sqrt(3) W / 2^(level+2) (parent centre - child centre at that level); entry
   [level][code(x,y,z)][j] of the transfer table is j! / (|(x,y,z)| W / 2^level)^(j+1) for every offset of the
   7x7x7 window outside the 3x3x3 core, with the tree's position code (base 7, offset 3, dimension 0 most
   significant); the filled level ranges are [0,H-2] resp. [1,H-1] and lie inside the allocated extents.
 2 operator-internal coherence.  Inside M2M / L2L / M2L every member table is subscripted by what its dimension is
   built for: the level dimension by the operator's level argument, a dimension of extent 8 by the position code
   of *the child visited in this iteration*, a dimension of extent 343 by the position code of *the source visited
   in this iteration* (the same loop variable subscripts the cell container and the code array).
 3 octant and offset conventions.  In the rotation-table builder child code c stands for the octant whose bit
   (2-d) gives the side in dimension d - the convention C11.4 proves for the Morton child code - and the vector it
   is built from is (parent centre - child centre); every other quantity derived from c in that loop uses the same
   bit polarity; the offset tables are built for the vector -(x,y,z) of the code they are stored under, in both
   builders.
 4 leaf centre = box corner + (coordinate + 1/2) leaf width, one function for P2M and L2P, leaf width = W / 2^(H-1).
 5 operators keep no state: no operator-reachable function writes a member of the kernel or a static local
   (results independent of the executor, the schedule and earlier calls).
 6 every constructor (in particular the copy constructor that the task executors use for the per-worker kernels)
   initialises the same members from the same sources and runs the same table builders.
"""
import os
import re

import sympy

import tbf
import symx
import kstate
import coherence
from tbf import walk, kids, strip, AnalysisBroken

LEVEL = "other"
TECHNIQUE = "symbolic closed forms of the table-building loops (sympy, induction over the order index) + subscript-coherence, convention and state rules over the clang AST"

K = "FRotationKernel"
W, H, P = symx.psym("boxWidth"), symx.psym("treeHeight", integer=True), symx.psym("P", integer=True)


def code_of(x, y, z):
    return ((x + 3) * 7 + (y + 3)) * 7 + (z + 3)


def _is_one(e):
    if e == 1:
        return True
    e = sympy.simplify(sympy.powsimp(sympy.expand_power_base(sympy.powdenest(e, force=True), force=True), force=True))
    return e == 1


def equal_by_induction(val, exp, j):
    """val(j) == exp(j) for every integer j >= 0: equal at j = 0 and equal step ratios (both are products of powers)"""
    r0 = sympy.simplify(val.subs(j, 0) / exp.subs(j, 0))
    if not _is_one(r0):
        return False, "at order index 0 the entry is %s times the expected one" % r0
    step = (val.subs(j, j + 1) / val) / (exp.subs(j, j + 1) / exp)
    if not _is_one(step):
        return False, "from one order index to the next the entry grows by %s, expected %s" % (sympy.simplify(val.subs(j, j + 1) / val), sympy.simplify(exp.subs(j, j + 1) / exp))
    return True, ""


def _balanced(t):
    d = 0
    for ch in t:
        d += ch == "("
        d -= ch == ")"
        if d < 0:
            return False
    return d == 0


def is_copy(c):
    return len(c["params"]) == 1 and re.match(r"^(const )?%s(<[^:]*>)? ?&&?$" % K, c["params"][0]["t"]) is not None


def member_sources(facts, res):
    """how the constructor fills the geometric members: {member: accessor of the configuration}"""
    ctors = [m for m in facts.methods_of(K) if m["kind"] == "CXXConstructor" and tbf.body(m) is not None]
    if len(ctors) < 2:
        raise AnalysisBroken("%s: %d constructors with a body (2 confirmed by reading)" % (K, len(ctors)))
    out = []
    for c in ctors:
        src = {}
        for i in c.get("inits", []):
            if not i.get("member"):
                continue
            txt = " ".join(facts.ntext(x) for x in i.get("c", []) if x)
            while txt.startswith("(") and txt.endswith(")") and _balanced(txt[1:-1]):
                txt = txt[1:-1]
            src[i["member"]] = txt
        # the member functions the constructor runs as statements, directly or through a private helper that only groups such calls
        calls = []

        def collect(fn_, depth=0):
            for x in kids(tbf.body(fn_)):
                if x.get("k") in ("CallExpr", "CXXMemberCallExpr") and (tbf.call_base(x) is None or strip(tbf.call_base(x)).get("k") == "CXXThisExpr"):
                    nm = tbf.callee_name(x)
                    cands = [g for g in facts.methods_of(K) if g["name"] == nm and tbf.body(g) is not None]
                    if len(cands) == 1 and depth < 3:
                        inner = [y for y in kids(tbf.body(cands[0]))]
                        if inner and all(y.get("k") in ("CallExpr", "CXXMemberCallExpr") and (tbf.call_base(y) is None or strip(tbf.call_base(y)).get("k") == "CXXThisExpr") for y in inner):
                            calls.append(nm)
                            collect(cands[0], depth + 1)       # a helper made only of such calls: what it runs counts too
                            continue
                    calls.append(nm)
        collect(c)
        out.append((c, src, calls))
    return out


def ctor_geometry(facts, res):
    """member -> symbolic value for the members the configuration constructor fills from the configuration's accessors"""
    ctor = [c for c, src, calls in member_sources(facts, res) if not is_copy(c) and calls]
    srcs = [src for c, src, calls in member_sources(facts, res) if c in ctor]
    geo = {}
    if len(srcs) != 1:
        return geo
    for mname, txt in srcs[0].items():
        if re.search(r"\.getBoxWidths\(\)\[0\]$", txt):
            geo[mname] = W
        elif re.search(r"\.getLeafWidths\(\)\[0\]$", txt):
            geo[mname] = W / sympy.Integer(2) ** (H - 1)
        elif re.search(r"\.getTreeHeight\(\)\)?$", txt):
            geo[mname] = H
    return geo


def table_geometry(facts, res):
    R = "C04.1.level-tables"
    fn = facts.fn(K + "::precomputeTranslationCoef")
    f = tbf.rel(facts.path_of(fn))
    ctor = [c for c, src, calls in member_sources(facts, res) if not is_copy(c) and calls]
    srcs = [src for c, src, calls in member_sources(facts, res) if c in ctor]
    if len(srcs) != 1:
        raise AnalysisBroken("%s: the constructor that builds the tables from a configuration was not identified" % K)
    src = srcs[0]
    # geometric members: which accessor of the configuration feeds them (C06.6 decides leaf width = box width / 2^(height-1) in the configuration)
    geo = {}
    for mname, txt in src.items():
        if re.search(r"\.getBoxWidths\(\)\[0\]$", txt):
            geo[mname] = W
        elif re.search(r"\.getLeafWidths\(\)\[0\]$", txt):
            geo[mname] = W / sympy.Integer(2) ** (H - 1)
        elif re.search(r"\.getTreeHeight\(\)\)?$", txt):
            geo[mname] = H
    if W not in geo.values() or H not in geo.values():
        raise AnalysisBroken("%s: members holding the box width / tree height not identified from the constructor's initialisers" % K)
    ev = symx.SymEval(facts, fn, int_members=[m for m, v in geo.items() if v == H])
    ev.members.update(geo)
    ev.exec(tbf.body(fn))
    if ev.notes:
        raise AnalysisBroken("%s: %s" % (fn["qname"], ev.notes[0]))
    tables = {}
    for s in ev.stores:
        tables.setdefault(s.table, []).append(s)
    fields = {fl["name"]: fl for fl in facts.cls(K)["fields"]}
    level_tables = [n for n, fl in fields.items() if "FSmartPointer" in fl.get("t", "") or "shared_ptr" in fl.get("t", "") or "unique_ptr" in fl.get("t", "")]
    res.instance(R, "tables", facts.loc(fn), "level tables %s; %d symbolic stores" % (sorted(level_tables), len(ev.stores)))
    # which operator reads which table decides what the table must hold
    users = {}
    for op in ("M2M", "L2L", "M2L"):
        for m in facts.methods_of(K):
            if m["name"] == op and tbf.body(m) is not None:
                for x in walk(tbf.body(m)):
                    if x.get("k") in ("MemberExpr", "CXXDependentScopeMemberExpr") and x.get("name") in level_tables:
                        users.setdefault(x["name"], set()).add(op)
    n = 0
    # the closed forms below are those of ONE table per operator, shaped [level][order] (M2M, L2L) or [level][position code][order] (M2L).  A
    # factored representation (a leaf-level slab and a per-level rescaling table, ...) can be just as right: its product is what would have to
    # be compared, which this rule does not do - no verdict
    per_op = {}
    for t_, ops_ in users.items():
        for o_ in ops_:
            per_op.setdefault(o_, []).append(t_)
    for o_, ts_ in sorted(per_op.items()):
        if len(ts_) != 1:
            raise AnalysisBroken("%s::%s reads %d level tables (%s): the per-level values are factored over several tables, the closed-form comparison of a single table does not apply - re-confirm by reading" % (K, o_, len(ts_), sorted(ts_)))
        dims = len(re.findall(r"\[[^\]]*\]", fields[ts_[0]].get("t", "")))
        if dims != (2 if o_ == "M2L" else 1):
            raise AnalysisBroken("%s: the table '%s' read by %s is declared `%s`, not with the confirmed shape (%s): re-confirm by reading" % (K, ts_[0], o_, fields[ts_[0]].get("t", "")[:60], "[343][P+1] per level" if o_ == "M2L" else "[P+1] per level"))
    for t in sorted(level_tables):
        ops = users.get(t, set())
        if len(ops) != 1:
            raise AnalysisBroken("%s: level table '%s' is read by operators %s (exactly one expected)" % (K, t, sorted(ops)))
        op = next(iter(ops))
        st = tables.get(t, [])
        if t not in ev.allocs:
            raise AnalysisBroken("%s: allocation of '%s' not found in %s" % (K, t, fn["name"]))
        extent = ev.allocs[t][0]
        if not st:
            raise AnalysisBroken("%s: no store into '%s' found" % (K, t))
        for s in st:
            n += 1
            lv = [l for l in s.loops if l[0] == s.idx[0]]
            jl = [l for l in s.loops if l[0] == s.idx[-1]]
            if len(lv) != 1 or len(jl) != 1:
                res.violation(R, f, fn["qname"], "%s:index" % t, s.node["l"][1], "table '%s' is stored at %s: the first subscript is not the level loop variable / the last not the order loop variable" % (t, list(s.idx)))
                continue
            lsym, llo, lhi = lv[0]
            jsym, jlo, jhi = jl[0]
            key = "%s%s" % (t, "" if len(s.idx) == 2 else "[%s]" % s.idx[1])
            want_lo, want_hi = (0, H - 2) if op in ("M2M", "L2L") else (1, H - 1)
            if sympy.simplify(llo - want_lo) != 0 and not (op == "M2L" and llo == 0) or sympy.simplify(lhi - want_hi) != 0:
                res.violation(R, f, fn["qname"], key + ":levels", s.node["l"][1],
                              "table '%s' (read by %s at its level argument) is filled for levels [%s, %s]; %s is applied on levels up to %s and from %s" % (t, op, llo, lhi, op, want_hi, want_lo))
                continue
            if sympy.simplify(extent - (lhi + 1)).is_negative or (sympy.simplify(extent - (lhi + 1)) != 0 and not sympy.simplify(extent - (lhi + 1)).is_nonnegative):
                res.violation(R, f, fn["qname"], key + ":extent", ev.allocs[t][2]["l"][1], "table '%s' is allocated for %s levels but filled up to level %s" % (t, extent, lhi))
                continue
            if jlo != 0 or sympy.simplify(jhi - P) != 0:
                res.violation(R, f, fn["qname"], key + ":orders", s.node["l"][1], "table '%s' is filled for order indices [%s, %s], not [0, P]" % (t, jlo, jhi))
                continue
            fact = sympy.Function("at")(symx.psym("factorials"), jsym)
            if op in ("M2M", "L2L"):
                b = sympy.sqrt(3) * W / sympy.Integer(2) ** (lsym + 2)
                exp = ((-b) ** jsym if op == "M2M" else b ** jsym) / fact
                what = "(%sb)^j / j!, b = sqrt(3) W / 2^(level+2)" % ("-" if op == "M2M" else "")
            else:
                c = s.idx[1]
                if not (isinstance(c, sympy.Basic) and c.is_Integer):
                    res.violation(R, f, fn["qname"], key + ":code", s.node["l"][1], "the offset subscript of '%s' is not a concrete position code: %s" % (t, c))
                    continue
                c = int(c)
                x, y, z = c // 49 - 3, (c // 7) % 7 - 3, c % 7 - 3
                if not (0 <= c < 343) or max(abs(x), abs(y), abs(z)) <= 1:
                    res.violation(R, f, fn["qname"], key + ":code", s.node["l"][1], "an entry is stored under position code %d, which is not an offset of the transfer window" % c)
                    continue
                dist = sympy.sqrt(x * x + y * y + z * z) * W / sympy.Integer(2) ** lsym
                exp = fact / dist ** (jsym + 1)
                what = "j! / d^(j+1), d = |(%d,%d,%d)| W / 2^level" % (x, y, z)
            val = s.value.subs(sympy.Function("at")(symx.psym("factorials"), jsym), fact)
            ok, why = equal_by_induction(val, exp, jsym)
            res.obligations += 1
            if ok:
                res.discharged += 1
            if n <= 4 or not ok:
                res.instance(R, key, facts.loc(s.node), "levels [%s,%s], entry = %s : %s" % (llo, lhi, what, "proven by induction over j" if ok else why))
            if not ok:
                res.violation(R, f, fn["qname"], key + ":value", s.node["l"][1],
                              "entry [level][%sj] of '%s' is %s; the geometry of the tree requires %s (%s)" % ("code %s][" % s.idx[1] if len(s.idx) == 3 else "", t, sympy.simplify(val), what, why))
        if op == "M2L":
            codes = sorted(int(s.idx[1]) for s in st if isinstance(s.idx[1], sympy.Basic) and s.idx[1].is_Integer)
            want = sorted(code_of(x, y, z) for x in range(-3, 4) for y in range(-3, 4) for z in range(-3, 4) if max(abs(x), abs(y), abs(z)) > 1)
            res.instance(R, t + " window", facts.loc(fn), "%d offsets stored, %d in the 7x7x7 window outside the 3x3x3 core" % (len(set(codes)), len(want)))
            if sorted(set(codes)) != want:
                missing = sorted(set(want) - set(codes))
                res.violation(R, f, fn["qname"], t + ":window", fn["l"][1], "the transfer table is not filled for every offset of the window: %d codes missing (first: %s)" % (len(missing), missing[:3]))
    res.floor(R, n, 318, "symbolic table stores")
    return geo


# ------------------------------------------------------------------------------------------ C04.2
def extents_of(tstr):
    return [e.strip() for e in re.findall(r"\[([^\]]*)\]", tstr or "")]


def operator_coherence(facts, res, cls=K, R="C04.2.table-subscripts"):
    fields = {fl["name"]: fl for fl in facts.cls(cls)["fields"]}
    n = 0
    for op in ("M2M", "L2L", "M2L"):
        ms = [m for m in facts.methods_of(cls) if m["name"] == op and tbf.body(m) is not None]
        if len(ms) != 1:
            raise AnalysisBroken("%s::%s: %d definitions" % (cls, op, len(ms)))
        m = ms[0]
        f = tbf.rel(facts.path_of(m))
        roles = coherence.ROLES[op]
        pl = m["params"]
        if len(pl) != len(roles):
            raise AnalysisBroken("%s::%s has %d parameters, the operator interface has %d" % (cls, op, len(pl), len(roles)))
        level_did = [p["did"] for p, r in zip(pl, roles) if r[1] == "level"][0]
        pos_did = [p["did"] for p, r in zip(pl, roles) if r[1] == "positions"][0]
        cont_did = [p["did"] for p, r in zip(pl, roles) if r[0] in ("children", "sources") and r[1] in ("multipole", "local")][0]
        count_did = [p["did"] for p, r in zip(pl, roles) if r[0] in ("children", "sources") and r[1] == "count"][0]
        body = tbf.body(m)
        tbf.link_parents(body)
        decls = {v["did"]: v for v in walk(body) if v.get("k") == "VarDecl"}

        def resolve(nd, depth=0):
            nd = strip(nd)
            while nd is not None and nd.get("k") in ("CXXStaticCastExpr", "CStyleCastExpr", "CXXFunctionalCastExpr") and kids(nd):
                nd = strip(kids(nd)[0])
            if nd is not None and nd.get("k") == "DeclRefExpr" and nd.get("dk") == "Var" and depth < 5:
                d = decls.get(nd.get("did"))
                if d is not None and kids(d) and "const" in d.get("t", ""):
                    return resolve(kids(d)[0], depth + 1)
            return nd

        # the loop over the children / sources: its variable subscripts the cell container
        item_loops = {}
        for x in walk(body):
            if x.get("k") in ("ArraySubscriptExpr", "CXXOperatorCallExpr") and len(kids(x)) >= 2 and strip(kids(x)[-2]).get("did") == cont_did:
                i = resolve(kids(x)[-1])
                if i.get("k") == "DeclRefExpr":
                    item_loops[i["did"]] = i.get("name")
        if len(item_loops) != 1:
            raise AnalysisBroken("%s::%s: the cell container is subscripted by %d different variables" % (cls, op, len(item_loops)))
        item = next(iter(item_loops))

        def kind_of(idx):
            i = resolve(idx)
            if i is None:
                return "?"
            if i.get("k") == "DeclRefExpr" and i.get("did") == level_did:
                return "level"
            if i.get("k") == "ArraySubscriptExpr" and strip(kids(i)[0]).get("did") == pos_did:
                j = resolve(kids(i)[1])
                if j.get("k") == "DeclRefExpr" and j.get("did") == item:
                    return "code-of-this-item"
                return "code-of-another-item(%s)" % facts.ntext(kids(i)[1])
            if i.get("k") == "DeclRefExpr" and i.get("did") == item:
                return "item-counter"
            return "other(%s)" % facts.ntext(idx)[:30]

        for x in walk(body):
            if x.get("k") not in ("MemberExpr", "CXXDependentScopeMemberExpr") or x.get("name") not in fields:
                continue
            b = kids(x)
            if b and strip(b[0]).get("k") != "CXXThisExpr":
                continue
            fl = fields[x["name"]]
            t = fl.get("t", "")
            ext = extents_of(t)
            smart = "FSmartPointer" in t or "shared_ptr" in t
            dims = (["level"] if smart else []) + ext
            if not dims or not any(d in ("level", "8", "343") for d in dims):
                continue
            # collect the chain of subscripts applied to this member
            chain = []
            cur = x
            p = cur.get("_p")
            while p is not None and p.get("k") in ("ImplicitCastExpr", "ParenExpr", "ArraySubscriptExpr"):
                if p.get("k") == "ArraySubscriptExpr" and strip(kids(p)[0]) is strip(cur) or (p.get("k") == "ArraySubscriptExpr" and any(y is cur for y in walk(kids(p)[0]))):
                    chain.append(kids(p)[1])
                cur = p
                p = p.get("_p")
            for d, idx in zip(dims, chain):
                want = {"level": "level", "8": "code-of-this-item", "343": "code-of-this-item"}.get(d)
                if want is None:
                    continue
                if d == "8" and op == "M2L" or d == "343" and op in ("M2M", "L2L"):
                    res.violation(R, f, m["qname"], "%s:%s" % (x["name"], op), x["l"][1], "%s reads '%s', a table built per %s" % (op, x["name"], "child octant" if d == "8" else "transfer offset"))
                    continue
                got = kind_of(idx)
                n += 1
                res.instance(R, "%s::%s %s[%s]" % (cls, op, x["name"], d), facts.loc(x), "subscript `%s` is %s" % (facts.ntext(idx)[:40], got), nontrivial=True)
                if got != want:
                    res.violation(R, f, m["qname"], "%s[%s]@%d" % (x["name"], d, x["l"][1]), x["l"][1],
                                  "the %s dimension of '%s' is subscripted by `%s` (%s); it must be %s" % (
                                      {"level": "level", "8": "child-octant", "343": "transfer-offset"}[d], x["name"], facts.ntext(idx)[:50], got,
                                      "the operator's level argument" if d == "level" else "the position code of the %s visited in this iteration" % ("child" if d == "8" else "source cell")))
            if len(chain) < len([d for d in dims if d in ("level", "8", "343")]):
                raise AnalysisBroken("%s::%s: table '%s' is used without its %s subscripts (%s)" % (cls, op, x["name"], dims, facts.ntext(x.get("_p") or x)[:60]))
        # the loop runs over [0, count)
        loops = [l for l in walk(body) if l.get("k") == "ForStmt" and l["c"][0] is not None and any(v.get("did") == item for v in kids(l["c"][0]))]
        if len(loops) != 1:
            raise AnalysisBroken("%s::%s: loop over the %s not found" % (cls, op, "children" if op != "M2L" else "sources"))
        l0 = loops[0]
        cond = strip(l0["c"][1])
        init = [v for v in kids(l0["c"][0]) if v.get("did") == item][0]
        ok = cond is not None and cond.get("k") == "BinaryOperator" and cond.get("op") == "<" and strip(kids(cond)[0]).get("did") == item and resolve(kids(cond)[1]).get("did") == count_did \
            and kids(init) and facts.ntext(kids(init)[0]) == "0"
        res.instance(R, "%s::%s item loop" % (cls, op), facts.loc(l0), "for(%s; %s)" % (facts.ntext(init), facts.ntext(cond) if cond else ""))
        # every item handed to the operator is applied: nothing in the item loop skips an item depending on its values
        # (a cell whose net charge cancels still has higher moments; a zero first coefficient says nothing about the rest)
        lb = l0["c"][3]
        inner_loops = [y for y in walk(lb) if y.get("k") in ("ForStmt", "WhileStmt", "DoStmt")]
        for y in walk(lb):
            if y.get("k") in ("ContinueStmt", "BreakStmt", "ReturnStmt") and not any(any(z is y for z in walk(il)) for il in inner_loops if y.get("k") != "ReturnStmt"):
                g = [a for a in tbf.ancestors(y) if a.get("k") == "IfStmt" and any(z is a for z in walk(lb))]
                res.violation(R, f, m["qname"], "item-skipped:%s@%d" % (op, y["l"][1]), y["l"][1],
                              "%s leaves the iteration of an item early (%s%s): the item's contribution is dropped for some inputs, so the expansion is no longer the sum over all the %s handed to the operator" % (
                                  op, y["k"][:-4].lower(), (" under `%s`" % facts.ntext(g[0]["c"][0])[:60]) if g else "", "children" if op != "M2L" else "source cells"))
        if not ok:
            res.violation(R, f, m["qname"], "item-loop:%s" % op, l0["l"][1], "the loop over the %s does not run over [0, number handed to the operator)" % ("children" if op != "M2L" else "source cells"))
    return n


# ------------------------------------------------------------------------------------------ C04.3
def conventions(facts, res, geo):
    R = "C04.3.octant-offset-convention"
    fn = tbf.expand_member_helpers(facts, facts.fn(K + "::precomputeRotationVectors"))
    f = tbf.rel(facts.path_of(fn))
    body = tbf.body(fn)
    tbf.link_parents(body)

    def concrete_loops():
        out = []
        for l in walk(body):
            if l.get("k") != "ForStmt" or l["c"][0] is None:
                continue
            vs = [v for v in kids(l["c"][0]) if v.get("k") == "VarDecl"]
            if len(vs) != 1 or not kids(vs[0]):
                continue
            ev = symx.SymEval(facts, fn)
            lo = ev.eval(kids(vs[0])[0])
            c = strip(l["c"][1])
            if c is None or c.get("k") != "BinaryOperator" or strip(kids(c)[0]).get("did") != vs[0]["did"]:
                continue
            hi = ev.eval(kids(c)[1])
            if lo.is_Integer and hi.is_Integer:
                hi = int(hi) - (1 if c["op"] == "<" else 0)
                out.append((l, vs[0], int(lo), hi))
        return out

    loops = concrete_loops()
    child = [x for x in loops if (x[2], x[3]) == (0, 7)]
    if len(child) != 1:
        raise AnalysisBroken("%s: %d loops over the 8 child codes (1 confirmed by reading)" % (fn["qname"], len(child)))
    cl, cvar, _lo, _hi = child[0]

    def locals_under(loop, stop_at_loops=True):
        """VarDecls with an initialiser in the loop body, outside nested loops"""
        out = []

        def rec(n):
            for c in kids(n):
                if c.get("k") in ("ForStmt", "WhileStmt", "DoStmt") and stop_at_loops:
                    continue
                if c.get("k") == "DeclStmt":
                    out.extend(v for v in kids(c) if v.get("k") == "VarDecl" and kids(v))
                elif c.get("k") in ("CompoundStmt", "IfStmt"):
                    rec(c)
        rec(loop["c"][3])
        return out

    # ---- child octants
    decls = locals_under(cl)
    table = {}     # did -> [value for c in 0..7]
    for c in range(8):
        ev = symx.SymEval(facts, fn)
        ev.members.update(geo)
        ev.env[cvar["did"]] = sympy.Integer(c)
        for v in decls:
            val = ev.eval(kids(v)[0])
            ev.env[v["did"]] = val
            table.setdefault(v["did"], []).append(val)
    vec = [v for v in decls if isinstance(table[v["did"]][0], tuple) and len(table[v["did"]][0]) == 3]
    vec = [v for v in vec if v is vec[0] or table[v["did"]] != table[vec[0]["did"]]]     # an object constructed from the vector carries the same value
    if len(vec) != 1:
        raise AnalysisBroken("%s: the child-to-parent vector of the octant loop was not identified (%d candidates)" % (fn["qname"], len(vec)))
    vvals = table[vec[0]["did"]]
    n = 0
    for c in range(8):
        v = vvals[c]
        signs = []
        for d in range(3):
            e = v[d]
            s = 1 if (isinstance(e, sympy.Basic) and e.is_positive) else -1 if (isinstance(e, sympy.Basic) and e.is_negative) else 0
            signs.append(s)
        want = [-1 if (c >> (2 - d)) & 1 else 1 for d in range(3)]
        n += 1
        if signs != want:
            res.violation(R, f, fn["qname"], "octant-%d" % c, vec[0]["l"][1],
                          "the rotation tables of child code %d are built for the direction %s; the Morton child code puts dimension d in bit (2-d) and a set bit means the upper half, "
                          "so (parent centre - child centre) has signs %s" % (c, signs, want))
    res.instance(R, "octant vector", facts.loc(vec[0]), "child code c -> signs of (parent - child): %s" % [[(1 if e.is_positive else -1) if isinstance(e, sympy.Basic) and (e.is_positive or e.is_negative) else 0 for e in v] for v in vvals])
    # every other local that depends on c through a single bit follows the same polarity as the vector component of that bit
    for v in decls:
        if v is vec[0]:
            continue
        vals = table[v["did"]]
        if not all(isinstance(x, sympy.Basic) and x.is_number for x in vals) or len(set(vals)) != 2:
            continue
        bits = [b for b in range(3) if all((vals[c] == vals[c ^ (1 << bb)]) for c in range(8) for bb in range(3) if bb != b) and any(vals[c] != vals[c ^ (1 << b)] for c in range(8))]
        if len(bits) != 1:
            continue
        b = bits[0]
        d = 2 - b
        used_as_component = any(isinstance(vvals[c][d], sympy.Basic) and sympy.simplify(sympy.Abs(vvals[c][d]) - sympy.Abs(vals[c])) == 0 for c in range(8))
        set_val = vals[1 << b]
        n += 1
        res.instance(R, "octant-derived local '%s'" % v["name"], facts.loc(v), "depends on bit %d of the child code: %s when set, %s when clear" % (b, set_val, vals[0]))
        if not used_as_component and set_val.is_real and not set_val.is_negative and vals[0].is_real and vals[0].is_negative:
            res.violation(R, f, fn["qname"], "octant-local:%s" % v["name"], v["l"][1],
                          "'%s' is %s when bit %d of the child code is set and %s when clear - the opposite polarity of the vector component of dimension %d" % (v["name"], set_val, b, vals[0], d))
    # tables written in the octant loop are subscripted by the child code itself
    for x in walk(cl["c"][3]):
        if x.get("k") in ("BinaryOperator",) and x.get("op") == "=":
            l = strip(kids(x)[0])
            chain = []
            while l.get("k") == "ArraySubscriptExpr":
                chain.insert(0, kids(l)[1])
                l = strip(kids(l)[0])
            if l.get("k") in ("MemberExpr", "CXXDependentScopeMemberExpr") and chain and "[8]" in (l.get("t") or ""):
                n += 1
                if strip(chain[0]).get("did") != cvar["did"]:
                    res.violation(R, f, fn["qname"], "octant-store:%s" % l.get("name"), x["l"][1], "in the octant loop '%s' is stored at `%s`, not at the child code the entry is built for" % (l.get("name"), facts.ntext(chain[0])))
    # ---- transfer offsets: in both builders the entry stored under code(x,y,z) is built from the vector -(x,y,z) * width
    for qn in (K + "::precomputeRotationVectors", K + "::precomputeTranslationCoef"):
        g = tbf.expand_member_helpers(facts, facts.fn(qn))
        gb = tbf.body(g)
        tbf.link_parents(gb)
        trip = []
        for l in walk(gb):
            if l.get("k") == "ForStmt" and l["c"][0] is not None:
                vs = [v for v in kids(l["c"][0]) if v.get("k") == "VarDecl" and kids(v)]
                if len(vs) == 1 and facts.ntext(kids(vs[0])[0]) == "-3":
                    trip.append((l, vs[0]))
        # innermost of three nested -3..3 loops
        nests = []
        for l, v in trip:
            anc = [a for a in tbf.ancestors(l) if any(a is t[0] for t in trip)]
            if len(anc) == 2:
                outer = [t for t in trip if any(t[0] is a for a in anc)]
                outer.sort(key=lambda t: len(list(tbf.ancestors(t[0]))))
                nests.append((outer[0][1], outer[1][1], v, l))
        if len(nests) != 1:
            raise AnalysisBroken("%s: %d triple loops over the 7x7x7 offsets (1 confirmed by reading)" % (qn, len(nests)))
        vx, vy, vz, inner = nests[0]

        def rec_decls(nd, out):
            for c in kids(nd):
                if c.get("k") in ("ForStmt", "WhileStmt", "DoStmt"):
                    continue
                if c.get("k") == "DeclStmt":
                    out.extend(v for v in kids(c) if v.get("k") == "VarDecl" and kids(v))
                elif c.get("k") in ("CompoundStmt", "IfStmt"):
                    rec_decls(c, out)
            return out
        ds = rec_decls(inner["c"][3], [])
        bad = None
        seen = 0
        width_syms = None
        for x in range(-3, 4):
            for y in range(-3, 4):
                for z in range(-3, 4):
                    if max(abs(x), abs(y), abs(z)) <= 1:
                        continue
                    ev = symx.SymEval(facts, g)
                    ev.members.update(geo)
                    ev.env[vx["did"]], ev.env[vy["did"]], ev.env[vz["did"]] = sympy.Integer(x), sympy.Integer(y), sympy.Integer(z)
                    pos = vecv = None
                    for v in ds:
                        val = ev.eval(kids(v)[0])
                        ev.env[v["did"]] = val
                        if isinstance(val, tuple) and len(val) == 3 and vecv is None:
                            vecv = (v, val)
                        if isinstance(val, sympy.Basic) and val.is_Integer and "int" in v.get("t", "") and pos is None:
                            pos = (v, val)
                    if pos is None or vecv is None:
                        raise AnalysisBroken("%s: position code / relative vector of the offset loop not identified" % qn)
                    seen += 1
                    if int(pos[1]) != code_of(x, y, z) and bad is None:
                        bad = (pos[0], "offset (%d,%d,%d) is stored under code %s; the tree's position code (base 7, offset 3, dimension 0 most significant) is %d" % (x, y, z, pos[1], code_of(x, y, z)))
                    comps = vecv[1]
                    ratios = []
                    for comp, o in zip(comps, (x, y, z)):
                        if o == 0:
                            if comp != 0 and bad is None:
                                bad = (vecv[0], "offset (%d,%d,%d): a zero offset component gives the vector component %s" % (x, y, z, comp))
                            continue
                        ratios.append(sympy.simplify(comp / o))
                    if ratios and (len(set(ratios)) != 1 or not ratios[0].is_negative) and bad is None:
                        bad = (vecv[0], "offset (%d,%d,%d) is turned into the vector %s, which is not -(x,y,z) times one positive width" % (x, y, z, comps))
        n += 1
        res.instance(R, "%s offsets" % g["name"], facts.loc(inner), "%d offsets: code = ((x+3)*7+(y+3))*7+z+3, vector = -(x,y,z) * width" % seen)
        if bad is not None:
            res.violation(R, tbf.rel(facts.path_of(g)), g["qname"], "offset-code:%s" % g["name"], bad[0]["l"][1], bad[1])
    res.floor(R, n, 10, "convention sites")


# ------------------------------------------------------------------------------------------ C04.4
def leaf_centre(facts, res, geo, cls=K, fname="getLeafCenter", R="C04.4.leaf-centre", users=("P2M", "L2P")):
    ms = [m for m in facts.methods_of(cls) if m["name"] == fname and tbf.body(m) is not None and "array" in m["params"][0]["t"]]
    if len(ms) != 1:
        raise AnalysisBroken("%s::%s(coordinate) not found" % (cls, fname))
    m = ms[0]
    f = tbf.rel(facts.path_of(m))
    ev = symx.SymEval(facts, m)
    ev.members.update(geo)
    ev.consts["Dim"] = 3
    coord = sympy.symbols("c0 c1 c2", integer=True, nonnegative=True)
    ev.env[m["params"][0]["did"]] = tuple(coord)
    vals = []

    def run_until_return(st):
        """executes statements; every `return e` met on a feasible path is evaluated in the state reached there"""
        if st is None:
            return
        k_ = st.get("k")
        if k_ == "CompoundStmt":
            for c_ in kids(st):
                run_until_return(c_)
        elif k_ == "ReturnStmt" and kids(st):
            v = symx.as_tuple(ev, ev.eval(kids(st)[0]))
            if isinstance(v, tuple) and len(v) == 3:
                vals.append((st, v))
        elif k_ == "IfStmt":
            c0 = ev.eval(st["c"][0])
            if c0 != sympy.false:
                run_until_return(st["c"][1])
            if c0 != sympy.true and len(st["c"]) > 2:
                run_until_return(st["c"][2])
        else:
            ev.exec(st)
    run_until_return(tbf.body(m))
    if not vals:
        raise AnalysisBroken("%s::%s: no three-component return" % (cls, fname))
    corner = [k for k, v in geo.items() if isinstance(v, tuple)]
    for r, v in vals:
        for d in range(3):
            want = sympy.Function("at")(symx.psym(geo["__corner__"]), sympy.Integer(d)) + (coord[d] + sympy.Rational(1, 2)) * geo["__leafwidth__"]
            got = v[d]
            res.obligations += 1
            if sympy.simplify(got - want) == 0:
                res.discharged += 1
            else:
                res.violation(R, f, m["qname"], "component-%d" % d, r["l"][1], "component %d of the leaf centre is %s; a leaf with coordinate c spans [corner + c w, corner + (c+1) w], its centre is %s" % (d, sympy.simplify(got), want))
        res.instance(R, "%s::%s" % (cls, fname), facts.loc(r), "centre = corner + (coordinate + 1/2) * leaf width, leaf width = W / 2^(H-1)")
    for op in users:
        for mm in facts.methods_of(cls):
            if mm["name"] == op and tbf.body(mm) is not None:
                calls = [x for x in walk(tbf.body(mm)) if x.get("k") in ("CallExpr", "CXXMemberCallExpr") and tbf.callee_name(x) == fname]
                res.instance(R, "%s::%s uses it" % (cls, op), facts.loc(mm), "%d call(s)" % len(calls))
                if len(calls) != 1:
                    res.violation(R, tbf.rel(facts.path_of(mm)), mm["qname"], "centre-call:%s" % op, mm["l"][1], "%s does not take the leaf centre from %s (P2M and L2P must expand about the same point)" % (op, fname))
                    continue
                a = facts.ntext(tbf.call_args(calls[0])[0])
                first = mm["params"][0]["name"]
                if not a.startswith(first + "."):
                    res.violation(R, tbf.rel(facts.path_of(mm)), mm["qname"], "centre-arg:%s" % op, calls[0]["l"][1], "%s computes the centre from `%s`, not from the header of the leaf it was given" % (op, a))


# ------------------------------------------------------------------------------------------ C04.5 / C04.6
def stateless(facts, res, cls=K, R="C04.5.stateless-operators"):
    """what operator-reachable code writes besides its outputs must be private to one kernel copy: no static local, nothing reached
    through a shared pointer, and an owning raw pointer only with a copy constructor that does not hand the same storage to the copy"""
    import c05
    ks = kstate.KState(facts)
    reach = ks.reachable(cls, kstate.OPERATORS)
    if len(reach) < 8:
        raise AnalysisBroken("%s: %d operator-reachable functions" % (cls, len(reach)))
    scratch = c05.scratch_classes(facts, ks, reach)
    c05.isolation(facts, res, ks, reach, scratch, kernel=cls, R=R)
    n = 0
    for c, m in reach:
        n += 1
        f = tbf.rel(facts.path_of(m))
        for x in walk(tbf.body(m)):
            if x.get("k") == "VarDecl" and x.get("staticlocal") and not x.get("constexpr") and not x.get("t", "").startswith("const"):
                res.violation(R, f, m["qname"], "static-local:%s" % x["name"], x["l"][1], "operator-reachable %s::%s keeps the static local '%s': shared by all kernel copies and threads" % (c, m["name"], x["name"]))
    res.instance(R, cls, "umbrella 'core'", "%d operator-reachable functions; members they write: %s" % (n, {c_: sorted(v) for c_, v in scratch.items()} or "none"))
    return n


def no_mutable_members(facts, res, R, prefix, classes=None):
    """the operators of a kernel are const member functions, or are handed the kernel as const by the wrappers: what they compute depends on
    their arguments and on tables fixed at construction.  A `mutable` data member is the one way around that: state written from a const
    operator and carried to the next call of the same kernel object - and kernel objects live as long as the algorithm object, across
    move / rebuild / execute cycles.  (A scratch buffer that every call redefines before use needs no `mutable`: the operators that use
    one are non-const and the buffer is decided by the carried-state rules.)"""
    n = 0
    for c in facts.classes:
        if classes is not None and c["name"] not in classes:
            continue
        if classes is None and not tbf.rel(facts.path_of(c)).startswith(prefix):
            continue
        n += 1
        for f_ in c.get("fields", []):
            if f_.get("mutable"):
                res.violation(R, tbf.rel(facts.path_of(f_)), c["name"], "mutable-member:%s.%s" % (c["name"], f_["name"]), f_["l"][1],
                              "'%s' is a mutable member of %s (`%s`): const operators can write it, so a call can depend on what an earlier call - of an earlier execution, before the particles moved - left in it" % (f_["name"], c["name"], f_.get("t", "")[:70]))
    return n


def ctor_agreement(facts, res, R="C04.6.constructors-agree"):
    cs = member_sources(facts, res)
    ref = None
    for c, src, calls in cs:
        norm = {}
        other = [p["name"] for p in c["params"]]
        for mname, txt in src.items():
            t = txt
            for o in other:
                t = re.sub(r"\b%s\b" % re.escape(o), "ARG", t)
            norm[mname] = t
        res.instance(R, "constructor@%d" % c["l"][1], facts.loc(c), "initialises %s; runs %s" % (sorted(norm), calls))
        if ref is None:
            ref = (c, norm, calls)
            continue
        if set(norm) != set(ref[1]):
            diff = sorted(set(norm) ^ set(ref[1]))
            res.violation(R, tbf.rel(facts.path_of(c)), c["qname"], "members@%d" % c["l"][1], c["l"][1], "this constructor and the one at line %d do not initialise the same members (%s): a copied kernel differs from the original" % (ref[0]["l"][1], diff))
        if calls != ref[2]:
            missing = [b for b in ref[2] if b not in calls]
            explained = False
            if is_copy(c) and missing:
                # a copy constructor may take finished tables from the source object instead of rebuilding them - provided every member the
                # skipped builder fills is copied from the SAME member of the source
                cx = tbf.expand_member_helpers(facts, c)
                od = c["params"][0]["did"]
                copied = {}
                for x in walk(tbf.body(cx)):
                    dst = srcm = None
                    if x.get("k") in ("CallExpr", "CXXMemberCallExpr") and tbf.callee_name(x) in ("memcpy", "copyall", "copy", "copy_n", "memmove") and len(tbf.call_args(x)) >= 2:
                        a0, a1 = strip(tbf.call_args(x)[0]), strip(tbf.call_args(x)[1])
                        if tbf.callee_name(x) in ("copy", "copy_n"):
                            a0, a1 = strip(tbf.call_args(x)[-1]), strip(tbf.call_args(x)[0])
                        dm = [y for y in walk(a0) if y.get("k") in ("MemberExpr", "CXXDependentScopeMemberExpr") and (not kids(y) or strip(kids(y)[0]).get("k") == "CXXThisExpr")]
                        sm = [y for y in walk(a1) if y.get("k") in ("MemberExpr", "CXXDependentScopeMemberExpr") and kids(y) and strip(kids(y)[0]).get("did") == od]
                        if dm and sm:
                            dst, srcm = dm[0]["name"], sm[0]["name"]
                    elif x.get("k") in ("BinaryOperator", "CXXOperatorCallExpr") and x.get("op") == "=" and kids(x):
                        l0 = strip(kids(x)[0] if x.get("k") == "BinaryOperator" else kids(x)[1])
                        r0 = strip(kids(x)[1] if x.get("k") == "BinaryOperator" else kids(x)[-1])
                        if l0.get("k") in ("MemberExpr", "CXXDependentScopeMemberExpr") and (not kids(l0) or strip(kids(l0)[0]).get("k") == "CXXThisExpr") \
                                and r0.get("k") in ("MemberExpr", "CXXDependentScopeMemberExpr") and kids(r0) and strip(kids(r0)[0]).get("did") == od:
                            dst, srcm = l0["name"], r0["name"]
                    if dst is not None:
                        copied[dst] = (srcm, x)
                need = set()
                for b in missing:
                    for g in facts.methods_of(K):
                        if g["name"] == b and tbf.body(g) is not None:
                            for y in walk(tbf.body(g)):
                                if y.get("k") in ("BinaryOperator", "CompoundAssignOperator") and y.get("op", "").endswith("=") and y.get("op") not in ("==", "!=", "<=", ">="):
                                    l0 = strip(kids(y)[0])
                                    while l0.get("k") in ("ArraySubscriptExpr", "CXXOperatorCallExpr") and len(kids(l0)) >= 2:
                                        l0 = strip(kids(l0)[-2])
                                    if l0.get("k") in ("MemberExpr", "CXXDependentScopeMemberExpr") and (not kids(l0) or strip(kids(l0)[0]).get("k") == "CXXThisExpr"):
                                        need.add(l0["name"])
                wrong = {d_: v_ for d_, v_ in copied.items() if v_[0] != d_}
                res.instance(R, "copy constructor@%d takes finished tables" % c["l"][1], facts.loc(c), "skips %s (fills %s); copies %s from the source object" % (missing, sorted(need), sorted(copied)))
                for d_, (s_, node_) in sorted(wrong.items()):
                    res.violation(R, tbf.rel(facts.path_of(node_)), c["qname"], "copy:%s" % d_, node_["l"][1],
                                  "the copy constructor fills '%s' from the source object's '%s': a copied kernel (every per-worker kernel of the task executors, a kernel handed to an executor by value) uses another table than the original" % (d_, s_))
                left = sorted(need - set(copied))
                if need and not left:
                    explained = True
                elif left and copied:
                    res.violation(R, tbf.rel(facts.path_of(c)), c["qname"], "copy-missing@%d" % c["l"][1], c["l"][1], "the copy constructor skips %s but does not copy %s, which that builder fills: the copied kernel uses uninitialised tables" % (missing, left))
                    explained = True
            if not explained:
                res.violation(R, tbf.rel(facts.path_of(c)), c["qname"], "builders@%d" % c["l"][1], c["l"][1], "this constructor runs %s, the one at line %d runs %s: a copied kernel has other tables than the original" % (calls, ref[0]["l"][1], ref[2]))
        # a copy must take each member from the same member of the source object
        for mname, t in norm.items():
            if "ARG." in t and not re.fullmatch(r"ARG\.%s" % re.escape(mname), t):
                res.violation(R, tbf.rel(facts.path_of(c)), c["qname"], "copy:%s" % mname, c["l"][1], "the copy constructor initialises '%s' from `%s`" % (mname, t))


def pole_divisions(facts, res, R="C04.9.finite-at-centre-and-axis"):
    """Particles may sit exactly at the centre of their leaf (radius 0 relative to it) or on its vertical axis (sine of the polar angle 0).
    In the leaf operators and in the spherical-coordinates constructor every division by the radius, by the sine of the polar angle, or
    by a local holding one of them, is under a test of that quantity (any comparison in an enclosing `if` / conditional); an unguarded one
    yields inf / NaN for those positions, and a NaN multipole spreads to every particle that receives the cell's far field."""
    n = 0
    sites = []
    sph = [m for m in facts.methods_of("FSpherical") if m["kind"] == "CXXConstructor" and m["params"] and tbf.body(m) is not None and not m.get("inst")]
    ops = [m for m in facts.methods_of(K) if m["name"] in ("P2M", "L2P") and tbf.body(m) is not None and not m.get("inst")]
    if not sph or len(ops) < 2:
        raise AnalysisBroken("FSpherical position constructor / %s::P2M, L2P not found" % K)
    for m in sph + ops:
        body = tbf.body(m)
        tbf.link_parents(body)
        decls = {v["did"]: v for v in walk(body) if v.get("k") == "VarDecl"}

        def quantity(e, depth=0):
            """'radius' / 'sine' when the expression is (a local holding) the radius or the sine of the polar angle"""
            out = set()
            for z in walk(e):
                k = z.get("k")
                if k in ("CallExpr", "CXXMemberCallExpr") and tbf.callee_name(z) in ("getR", "getSinTheta"):
                    out.add("radius" if tbf.callee_name(z) == "getR" else "sine")
                elif k in ("MemberExpr", "CXXDependentScopeMemberExpr") and m.get("cls") == "FSpherical" and z.get("name") in ("r", "sinTheta"):
                    out.add("radius" if z["name"] == "r" else "sine")
                elif k == "DeclRefExpr" and z.get("did") in decls and kids(decls[z["did"]]) and depth < 3 and "const" in decls[z["did"]].get("t", ""):
                    out |= quantity(kids(decls[z["did"]])[0], depth + 1)
            return out
        def clamp_of(e, depth=0):
            """the max / min / clamp call (or conditional) through which the divisor takes the quantity, if any"""
            for z in walk(e):
                k = z.get("k")
                if k in ("CallExpr", "CXXMemberCallExpr") and tbf.callee_name(z) in ("max", "min", "fmax", "fmin", "clamp", "Max", "Min") and quantity(z):
                    return z
                if k == "ConditionalOperator" and quantity(kids(z)[0]):
                    return z
                if k == "DeclRefExpr" and z.get("did") in decls and kids(decls[z["did"]]) and depth < 3 and "const" in decls[z["did"]].get("t", ""):
                    r = clamp_of(kids(decls[z["did"]])[0], depth + 1)
                    if r is not None:
                        return r
            return None
        for x in walk(body):
            den = None
            if x.get("k") == "BinaryOperator" and x.get("op") == "/":
                den = kids(x)[1]
            elif x.get("k") == "CompoundAssignOperator" and x.get("op") == "/=":
                den = kids(x)[1]
            if den is None:
                continue
            q = quantity(den)
            if not q:
                continue
            n += 1
            cl = clamp_of(den)
            if cl is not None:
                for qq in sorted(q & quantity(cl)):
                    sites.append((m, x, "clamped:" + qq, cl))
                q = q - quantity(cl)
            guards = set()
            for a in tbf.ancestors(x):
                if a.get("k") in ("IfStmt", "ConditionalOperator"):
                    c0 = [y for y in kids(a) if y.get("k") != "DeclStmt"][0]
                    guards |= quantity(c0)
            for qq in sorted(q - guards):
                sites.append((m, x, qq, None))
    seen = set()
    for m, x, qq, cl in sites:
        if cl is not None:
            qq = qq.split(":", 1)[1]
            key = "clamped-divisor:%s:%s" % (m["name"] if m.get("cls") != "FSpherical" else "FSpherical", qq)
            if key in seen:
                continue
            seen.add(key)
            res.violation(R, tbf.rel(facts.path_of(x)), m["qname"], key, x["l"][1],
                          "`%s` divides by the %s replaced by a floor value (`%s`): for a particle close to %s the quotient is no longer the term of the expansion - the terms that have a finite non-zero limit there (m = 1 on the axis) are scaled down by (true value / floor), a finite but O(1) wrong %s; the limit has to be taken analytically, not by bounding the divisor"
                          % (facts.ntext(x)[:50], "radius" if qq == "radius" else "sine of the polar angle", facts.ntext(cl)[:70],
                             "the centre of its leaf" if qq == "radius" else "the vertical axis through the centre of its leaf", "multipole" if m["name"] != "L2P" else "force for that particle"))
            continue
        key = "unguarded-division:%s:%s" % (m["name"] if m.get("cls") != "FSpherical" else "FSpherical", qq)
        if key in seen:
            continue          # one report per (function, quantity): the other divisions by the same quantity share the cause
        seen.add(key)
        res.violation(R, tbf.rel(facts.path_of(x)), m["qname"], key, x["l"][1],
                      "`%s` divides by the %s without any test of it: a particle exactly %s gives 0/0 or x/0 - a non-finite %s"
                      % (facts.ntext(x)[:60], "radius of the particle relative to the leaf centre" if qq == "radius" else "sine of the particle's polar angle",
                         "at the centre of its leaf" if qq == "radius" else "on the vertical axis through the centre of its leaf",
                         "multipole, which reaches every particle that receives this cell's far field" if m["name"] != "L2P" else "potential / force for that particle"))
    res.instance(R, "divisions", "src/kernels/rotationkernel", "%d divisions by the radius / the sine of the polar angle in the spherical-coordinates constructor, P2M and L2P; %d distinct unguarded (function, quantity) pairs" % (n, len(seen)))
    return n


def run(res, tier):
    facts = tbf.scan("core")
    res.units.append("umbrella TU 'core': FRotationKernel (table builders, 8 operators, constructors)")
    for r in __doc__.split("\n 1 ")[1].split("\n"):
        pass
    res.rule("C04.1 level tables = geometry (closed forms by symbolic evaluation, induction over the order index; fill ranges and extents)")
    res.rule("C04.2 every table dimension is subscripted by what it was built for: level argument / position code of the item of this iteration")
    res.rule("C04.3 child-octant bit convention and polarity = Morton child code (C11.4); offset tables stored under the tree's position code of the vector they are built from")
    res.rule("C04.4 leaf centre = corner + (coordinate + 1/2) leaf width, shared by P2M and L2P")
    res.rule("C04.5 operator-reachable code writes no kernel member and keeps no static local")
    res.rule("C04.6 all constructors initialise the same members and run the same table builders")
    res.rule("C04.5b no class of the rotation kernel or of the periodic shifter has a mutable data member (state a const operator could carry to the next call)")
    nm_ = no_mutable_members(facts, res, "C04.5.stateless-operators", "src/kernels/rotationkernel/") + no_mutable_members(facts, res, "C04.5.stateless-operators", "src/utils/tbfperiodicshifter")
    res.floor("C04.5b", nm_, 3, "classes examined for mutable members")
    fxm = os.path.join(tbf.VERIF, "fixtures", "c04_mutable.cpp")
    ctlm = tbf.Result("C04")
    no_mutable_members(tbf.scan_file(fxm, [], [os.path.join(tbf.VERIF, "fixtures") + os.sep]), ctlm, "C04.5.stateless-operators", "", classes=("CachingKernel", "PlainKernel"))
    if len(ctlm.violations) != 1 or "CachingKernel" not in ctlm.violations[0]["key"]:
        raise AnalysisBroken("positive control fixtures/c04_mutable.cpp: %d of 1 mutable members reported" % len(ctlm.violations))
    res.instance("C04.5.stateless-operators", "positive control (mutable)", "verif:fixtures/c04_mutable.cpp", "1 of 1 mutable members reported")
    res.assumptions.append("the truncation error bound and everything about the spherical-harmonic formulas is NOT decided; the leaf width / box corner of the configuration are those decided by C06.6")
    res.trusted = ["clang 14 + tbfscan", "sympy normal forms", "symx closed forms of geometric / arithmetic recurrences", "operator role table (coherence.ROLES)"]
    res.checker_cmds.append("./check C04")
    import c05
    try:
        g0 = ctor_geometry(facts, tbf.Result("C04"))
    except AnalysisBroken:
        g0 = {}

    def determined(key, member):
        """is `member` a function of the key members?  (symbols of its symbolic value among those of the key's)"""
        if member not in g0:
            return False
        have = set()
        for k_ in key:
            if k_ in g0:
                have |= g0[k_].free_symbols
        return sympy.sympify(g0[member]).free_symbols <= have
    shared = c05.no_process_state(facts, res, "src/kernels/rotationkernel/", "C04.5.stateless-operators", determined)
    c05.operator_static_locals(facts, res, K, "C04.5.stateless-operators")
    try:
        geo = table_geometry(facts, res)
    except AnalysisBroken:
        if not shared:
            raise
        # the tables are built into / taken from the process-wide state reported above: their closed forms cannot be evaluated per kernel
        stateless(facts, res)
        return
    # geometry members used by the other clauses
    cs = [src for c, src, calls in member_sources(facts, res) if calls and not is_copy(c)]
    corner = [m for m, t in cs[0].items() if re.search(r"\.getBoxCorner\(\)$", t)]
    leafw = [m for m, v in geo.items() if v == W / sympy.Integer(2) ** (H - 1)]
    if len(corner) != 1 or len(leafw) != 1:
        raise AnalysisBroken("%s: box-corner / leaf-width members not identified" % K)
    geo2 = dict(geo)
    geo2["__corner__"] = corner[0]
    geo2["__leafwidth__"] = geo[leafw[0]]
    n2 = operator_coherence(facts, res)
    res.floor("C04.2", n2, 16, "table subscripts")
    conventions(facts, res, geo)
    leaf_centre(facts, res, geo2)
    stateless(facts, res)
    ctor_agreement(facts, res)
    res.rule("C04.7 level-uniform operators: the level argument of M2M / M2L / L2L only subscripts the per-level tables (no branch, loop bound or selection over the operator's cells depends on it); the kernel names no executor boundary level")
    import c05
    c05.level_uniform(facts, res, K, "C04.7.level-uniform")
    res.rule("C04.10 full-order loops: every loop of the operators runs over a range fixed by template constants and enclosing loop variables, or over the items handed to the operator - never over a bound computed from the data of the call")
    res.floor("C04.10", c05.full_order_loops(facts, res, K, "C04.10.full-order-loops"), 15, "loops in the rotation kernel's operators")
    res.rule("C04.11 the arithmetic that builds and scales the level tables is wide enough: no shift by a run-time level / order in a type that overflows for valid heights and orders (rule C15.4 on src/kernels/rotationkernel)")
    import c15 as _c15
    _sub = tbf.Result("C15")
    _seen = _c15.shift_width(facts, _sub)
    for _v in _sub.violations:
        if "/rotationkernel/" in _v["file"]:
            res.violation("C04.11.table-arithmetic-width", _v["file"], _v["function"], _v["key"], _v["line"], _v["msg"])
    res.instance("C04.11.table-arithmetic-width", "shifts", "src/kernels/rotationkernel", "%d shift expressions of the library examined, violations under the rotation kernel re-exported" % _seen[0])
    res.rule("C04.9 finite at the centre and on the axis: in the spherical-coordinates constructor and the leaf operators every division by the particle's radius relative to the leaf centre, or by the sine of its polar angle, is under a test of that quantity")
    res.floor("C04.9", pole_divisions(facts, res), 4, "divisions by the radius / sine of the polar angle")
    res.rule("C04.8 per-item scratch: a local array declared outside an operator's item loop and written inside it is fully redefined (copyall / setall / ...) at the top of every iteration before anything else touches it - what is computed for one child / transfer source never depends on which items came before it")
    n8 = c05.per_item_buffers(facts, res, K, "C04.8.per-item-scratch")
    res.floor("C04.8", n8, 3, "scratch arrays carried across item loops (4 on the pinned tree)")
