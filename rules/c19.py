"""C19 — every documented template configuration builds (build half).

 1 must-compile witnesses: one generated TU per documented configuration
   (dimension x real x ordering x block size x rebuild x executor x data type x result values),
   compiled -fsyntax-only with the repository's flags.  quick: pairwise-covering subset (g++);
   thorough: the full product with g++, the pairwise subset also with clang++.
 2 include-guard macros are unique across src/ (two headers sharing a guard silently drop one).
 3 thorough: the algorithm selector header instantiates with OpenMP, Specx and StarPU all defined
   (declaration stubs), i.e. every executor class it names exists.
"""
import os
import re

import tbf
import witness
from tbf import AnalysisBroken

LEVEL = "proof"
TECHNIQUE = "generated must-compile witness TUs per configuration (compiler as decision procedure) + include-guard uniqueness (preprocessor facts)"


def include_guards(res):
    guards = {}
    n = 0
    for h in tbf.list_headers():
        txt = open(os.path.join(tbf.SRC, h), errors="replace").read()
        # strip comments
        t = re.sub(r"/\*.*?\*/", "", txt, flags=re.S)
        t = re.sub(r"//[^\n]*", "", t)
        m = re.search(r"^\s*#\s*ifndef\s+(\w+)\s*\n\s*#\s*define\s+(\w+)", t, re.M)
        if not m or m.group(1) != m.group(2) or t[:m.start()].strip():
            if re.search(r"^\s*#\s*pragma\s+once", t, re.M):
                res.instance("C19.2.include-guard", h, "src/" + h, "#pragma once", nontrivial=False)
                continue
            res.violation("C19.2.include-guard", "src/" + h, "<header>", "no-guard", 1, "header has no leading #ifndef/#define include guard (nor #pragma once)")
            continue
        n += 1
        g = m.group(1)
        line = t[:m.start()].count("\n") + 1
        res.instance("C19.2.include-guard", h, "src/%s:%d" % (h, line), g)
        guards.setdefault(g, []).append((h, line))
    for g, hs in sorted(guards.items()):
        if len(hs) > 1:
            for h, line in hs[1:]:
                res.violation("C19.2.include-guard", "src/" + h, "<header>", g, line,
                              "include guard %s is also used by src/%s: whichever is included second is silently dropped" % (g, hs[0][0]))
    res.floor("C19.2", n, 60, "guarded headers")


SELECTOR_TU = """
#include <vector>
#include <array>
#include <functional>
#include <algorithm>
#include <optional>
#include <memory>
#include <list>
#include <cstring>
#include "tbfglobal.hpp"
#include "utils/tbfutils.hpp"
#include "spacial/tbfspacialconfiguration.hpp"
#include "spacial/tbfmortonspaceindex.hpp"
#include "core/tbfcellscontainer.hpp"
#include "core/tbfparticlescontainer.hpp"
#include "core/tbftree.hpp"
#include "core/tbftreetsm.hpp"
#include "kernels/testkernel/tbftestkernel.hpp"
#include "algorithms/tbfalgorithmselecter.hpp"
using K = TbfTestKernel<double>;
// every executor class the library ships must be nameable in one build
using A0 = TbfAlgorithm<double, K>;            using A1 = TbfAlgorithmTsm<double, K>;
using A2 = TbfOpenmpAlgorithm<double, K>;      using A3 = TbfOpenmpAlgorithmTsm<double, K>;
using A4 = TbfSmSpecxAlgorithm<double, K>;     using A5 = TbfSmSpecxAlgorithmTsm<double, K>;
using A6 = TbfSmStarpuAlgorithm<double, K>;    using A7 = TbfSmStarpuAlgorithmTsm<double, K>;
using S0 = TbfAlgorithmSelecter::type<double, K>;
using S1 = TbfAlgorithmSelecterTsm::type<double, K>;
long int witness(){ return long(sizeof(S0*) + sizeof(S1*) + sizeof(A4*) + sizeof(A6*)); }
"""


def selector_witness(res):
    flags = ["-DTBF_USE_SPECX", "-DTBF_USE_STARPU", "-I", os.path.join(tbf.VERIF, "stubs", "specx"), "-I", os.path.join(tbf.VERIF, "stubs", "starpu")]
    for comp in ("g++", "clang++"):
        rc, err = tbf.compile_witness(SELECTOR_TU, compiler=comp, extra_flags=flags, name="selector_all_runtimes.cpp", max_errors=5)
        res.obligations += 1
        res.instance("C19.3.selector-all-runtimes", comp, "src/algorithms/tbfalgorithmselecter.hpp", "OpenMP+Specx+StarPU defined, declaration stubs")
        if rc == 0:
            res.discharged += 1
        else:
            f, line, msg = tbf.first_repo_diag(err)
            res.violation("C19.3.selector-all-runtimes", f, "<selector>", comp, line, "with OpenMP, Specx and StarPU all enabled the selector header does not build: " + msg[:300])


POSITIONS_TU = witness.HEADERS + """
#include "algorithms/sequential/tbfalgorithm.hpp"
#include "kernels/testkernel/tbftestkernel.hpp"
#include <deque>
using RealType = double; constexpr long int Dim = 3;
// README: the positions "must be a container that supports std::size and which has two dimensions"
template <class PositionsClass>
long int witnessPositions(const TbfSpacialConfiguration<RealType, Dim>& conf, const PositionsClass& positions){
    TbfTree<RealType, RealType, Dim, long int, 1, std::array<long int,1>, std::array<long int,1>> tree(conf, positions);
    TbfAlgorithm<RealType, TbfTestKernel<RealType>> algorithm(conf);
    algorithm.execute(tree);
    tree.rebuild();
    return tree.getNbParticles();
}
long int witnessBuiltInArray(const TbfSpacialConfiguration<RealType, Dim>& conf){
    const std::array<RealType, Dim> positions[4] = {{{0.1,0.1,0.1}}, {{0.9,0.1,0.1}}, {{0.1,0.9,0.1}}, {{0.5,0.5,0.5}}};
    return witnessPositions(conf, positions);
}
long int witnessDeque(const TbfSpacialConfiguration<RealType, Dim>& conf, const std::deque<std::array<RealType, Dim>>& positions){
    return witnessPositions(conf, positions);
}
"""


def positions_witness(res, tier, R="C19.7.positions-container"):
    """the documented requirement on the positions handed to the tree is `std::size` plus two subscripts: a built-in array of std::array
    satisfies it (and has no .size() member)"""
    for comp in (("g++",) if tier == "quick" else ("g++", "clang++")):
        rc, err = tbf.compile_witness(POSITIONS_TU, compiler=comp, name="c19_positions.cpp", max_errors=5)
        res.obligations += 1
        res.instance(R, comp, "witness:c19_positions", "tree built, executed and rebuilt from a built-in array and from a std::deque of positions: rc=%d" % rc)
        if rc == 0:
            res.discharged += 1
        else:
            f, line, msg, _ = witness.first_src_error(err)
            res.violation(R, f, "<witness c19_positions>", "%s:%d" % (f, line), line, "a positions container that supports std::size and two subscripts (README) is rejected (%s): %s" % (comp, msg[:260]))


def tbf_result(pid):
    import tbf
    return tbf.Result(pid)


def ordering_agreement(res):
    """C19.4: what distinguishes the documented configurations at run time is the ordering class; the non-default ones can only satisfy
    exactly-once "like the default configuration does" if their list builders are the default's (rule C11.3: Hilbert vs Morton atom by atom,
    per-group vs per-cell builder inside each class, coordinate forms identified only when proven equal bit for bit for that ordering)"""
    import c11
    import tbf
    facts = tbf.scan("core")
    sub = tbf.Result("C11")
    c11.sibling_builders(facts, sub)
    R = "C19.4.ordering-agreement"
    for i in sub.instances:
        res.instance(R, i["key"], i["at"], i["detail"])
    for v in sub.violations:
        res.violation(R, v["file"], v["function"], v["key"], v["line"], v["msg"] + " - the configurations using this ordering no longer visit the interactions the default configuration visits")
    res.floor(R, len(sub.instances), 12, "sibling comparisons")


def dimension_algebra(res):
    """C19.6: the documented dimensions 1..4 (and both orderings) can only satisfy the construction / exactly-once guarantees if the
    coordinate <-> index conversions and the parent / child algebra are the bit moves the hierarchy needs IN THAT DIMENSION: rule C11.4
    (bit provenance, one run per dimension, holds for every input) re-exported per configuration"""
    import c11
    import tbf
    facts = tbf.scan("core")
    sub = tbf.Result("C11")
    c11.bit_laws(facts, sub)
    R = "C19.6.dimension-algebra"
    for i in sub.instances:
        res.instance(R, i["key"], i["at"], i["detail"])
    for v in sub.violations:
        res.violation(R, v["file"], v["function"], v["key"], v["line"], v["msg"] + " - the configurations of this dimension / ordering place cells at other coordinates than the particles' cells")
    res.floor(R, len(sub.instances), 8, "bit-provenance runs")


def run(res, tier):
    res.rule("C19.6 dimension algebra: per-bit provenance of the index conversions and of parent/child for Dim = 1..4 and both orderings (rule C11.4)")
    res.rule("C19.4 ordering agreement: Hilbert and Morton list builders equal atom by atom; per-group and per-cell builders of each ordering agree, coordinate forms identified only under a bit-provenance proof for that ordering")
    res.rule("C19.1 every documented configuration (dim 1-4 x float/double x Morton/periodic/Hilbert(3D) x auto/explicit block x rebuild x 5 executors x data type =/!= real x 0/1 result values) type-checks")
    res.rule("C19.2 include-guard macros unique across src/")
    res.rule("C19.3 selector header builds with OpenMP+Specx+StarPU all defined")
    res.trusted += ["g++ 12.2 / clang++ 14 front ends", "witness generator rules/witness.py (configuration -> TU)", "thorough: declaration-only Specx/StarPU stubs"]
    res.assumptions.append("decided: the build half of the statement, and (C19.4) that the orderings share the default ordering's list-building logic; that these configurations then satisfy C01/C06/C13 numerically is not (see DESIGN.md)")
    include_guards(res)
    allc = witness.all_configs()
    quick = witness.quick_configs()
    cfgs = quick if tier == "quick" else allc
    res.units.append("%d generated witness TUs of %d documented configurations (%s)" % (len(cfgs), len(allc), "pairwise-covering subset" if tier == "quick" else "full product"))
    runs = witness.compile_all(cfgs, ("g++",))
    if tier == "thorough":
        runs += witness.compile_all(quick, ("clang++",))
    res.checker_cmds.append("g++ -std=c++17 -fopenmp -DTBF_USE_OPENMP -DTBF_USE_FFTW -DNDEBUG -I src -fsyntax-only <witness>.cpp")
    seen = set()
    for cfg, comp, rc, err in runs:
        res.obligations += 1
        nm = witness.name_of(cfg)
        res.instance("C19.1.config-compiles", nm + "/" + comp, "witness:" + nm, "rc=%d" % rc)
        if rc == 0:
            res.discharged += 1
            continue
        f, line, msg, _ = witness.first_src_error(err)
        key = "%s:%d" % (f, line)
        if key in seen:
            continue   # one report per offending construct
        seen.add(key)
        res.violation("C19.1.config-compiles", f, "<witness %s>" % nm, key, line, "configuration %s does not compile (%s): %s" % (nm, comp, msg[:240]))
    res.floor("C19.1", len(runs), 20, "witness compilations")
    selector_witness(res)      # one compilation; in both tiers
    res.rule("C19.8 the automatic block size (the documented default of every configuration) is at least 1 (rule C08.2): a size of 0 builds a tree without groups")
    import c08 as _c08
    _sub8 = tbf.Result("C08")
    _c08.block_size_positive(tbf.scan("core"), _sub8)
    tbf.reexport(res, _sub8, ("C08.2",), "C19.8.default-block-size", min_instances=1)
    res.rule("C19.7 the positions container needs only std::size and two subscripts (README): compile witness with a built-in array and a std::deque")
    positions_witness(res, tier)
    ordering_agreement(res)
    dimension_algebra(res)
    # the configurations with a data type wider than the coordinate type: nothing narrows a particle's value implicitly on the way to its leaf
    # or on the copy path (witness and rule of C06.2, same compilation)
    import c06
    sub = tbf_result("C06")
    c06.narrowing(sub, tier)
    res.rule("C19.5 data type != coordinate type: the -Wconversion witness <real=float, data=double / long double> has no floating narrowing under src/core, src/containers or inside the ordering classes (rule C06.2)")
    for i in sub.instances:
        res.instance("C19.5.mixed-types", i["key"], i["at"], i["detail"])
    for v in sub.violations:
        res.violation("C19.5.mixed-types", v["file"], v["function"], v["key"], v["line"], v["msg"])
    res.explanation = ("compile witnesses: each documented template configuration is turned into a TU that constructs the tree, executes, rebuilds and exports; "
                       "the compiler's acceptance is the proof obligation. %d obligations, %d discharged. Include guards: %d headers."
                       % (res.obligations, res.discharged, len([i for i in res.instances if i['rule'] == 'C19.2.include-guard'])))
