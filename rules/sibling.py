"""`sibling` engine: behavioural atoms of a function, for comparing sibling implementations.

An atom is a condition, a loop interval, an assignment, a call or a return, written with the
variable-name-free origin descriptors of stages.FnModel; locals that are re-assigned are numbered by
declaration order, so a one-sided rename or a re-binding through a new local does not change the
atom set, while a changed constant, comparison, bound or callee does.
"""
import re

import tbf
import stages
from tbf import walk, kids, strip, AnalysisBroken

SKIP_CALLS = {"assert", "reserve", "size", "empty", "back", "front", "begin", "end", "cbegin", "cend"}


def one_sided_helpers(facts, fa, fb):
    """single-return helpers that exist in one sibling's class only: an extraction on that side, to be inlined before comparing"""
    out = {}
    ca, cb = fa.get("cls"), fb.get("cls")
    if not ca or not cb or ca == cb:
        return out
    na = {m["name"] for m in facts.methods_of(ca)}
    nb = {m["name"] for m in facts.methods_of(cb)}
    for cls, names in ((ca, na - nb), (cb, nb - na)):
        for m in facts.methods_of(cls):
            if m["name"] in names and tbf.body(m) is not None and not m.get("inst"):
                st = [x for x in kids(tbf.body(m)) if x.get("k") not in ("NullStmt",)]
                if len(st) == 1 and st[0].get("k") == "ReturnStmt" and kids(st[0]):
                    out[m["name"]] = m
    return out


def atoms(facts, fn, only=None, canon=None, inline=None):
    fm = stages.FnModel(facts, fn)
    if inline:
        fm.inline_helpers = dict(inline)
    # locals are numbered by first appearance in the atom sequence (not by declaration order: a hoisted temporary or a moved
    # declaration must not shift the numbers of the locals that follow)
    order = {}
    locs = {}

    def c(s):
        s = re.sub(r"mutable:(\w+)", lambda m: "mutable:" + order.setdefault(m.group(1), "v%d" % (len(order) + 1)), s)
        s = re.sub(r"local:(\w+)", lambda m: "local:" + locs.setdefault(m.group(1), "u%d" % (len(locs) + 1)), s)
        if canon:
            for a, b in canon:
                s = s.replace(a, b)
        return s

    out = {}

    def add(kind, text, node):
        if only is not None:
            src = facts.ntext(node["c"][0]) if node.get("k") in ("IfStmt", "WhileStmt") and node["c"][0] is not None else facts.ntext(node)
            if node.get("k") == "ForStmt":
                src = "".join(facts.ntext(z) for z in node["c"][:3] if z is not None)
            if not any(o in text or o in src for o in only):
                return
        out.setdefault("%s %s" % (kind, text), node)

    # local lambdas that are called directly (`const auto f = [..](a, b){...}; f(x, y);`) are expanded at each call site
    local_lams = {}
    for x in walk(fm.body):
        if x.get("k") == "VarDecl" and kids(x) and strip(kids(x)[0]).get("k") == "LambdaExpr":
            local_lams[x["did"]] = strip(kids(x)[0])
    called = {}
    for x in walk(fm.body):
        if x.get("k") in ("CallExpr", "CXXOperatorCallExpr"):
            c0 = [strip(c) for c in kids(x)]
            cal = c0[0] if x.get("k") == "CallExpr" else (c0[1] if len(c0) > 1 and x.get("op") == "()" else None)
            if cal is not None and cal.get("k") == "DeclRefExpr" and cal.get("did") in local_lams:
                args = kids(x)[1:] if x.get("k") == "CallExpr" else kids(x)[2:]
                called.setdefault(cal["did"], []).append((x, args))
    skip = set()
    for did in called:
        for y in walk(local_lams[did]):
            skip.add(id(y))

    def visit(x):
        k = x.get("k")
        if k in ("IfStmt", "WhileStmt"):
            add("cond", c(fm.cond_origin(x["c"][-3] if (k == "IfStmt" and len(x["c"]) >= 3) else x["c"][0] if k == "IfStmt" else x["c"][-2])), x)
        elif k == "DoStmt":
            add("cond", c(fm.cond_origin(x["c"][1])), x)
        elif k == "ForStmt":
            init = x["c"][0]
            v = [d for d in kids(init) if d.get("k") == "VarDecl"] if init else []
            if v and kids(v[0]):
                try:
                    lo, hi, d = fm.loop_interval(x)
                    add("loop", c("[%s,%s] %s" % (lo, hi, d)), x)
                except AnalysisBroken:
                    add("cond", c(fm.cond_origin(x["c"][1]) if x["c"][1] else "?"), x)
            elif x["c"][1] is not None:
                add("cond", c(fm.cond_origin(x["c"][1])), x)       # for( ; c ; step): a while loop
        elif k in ("BinaryOperator", "CompoundAssignOperator") and x.get("op", "").endswith("=") and x.get("op") not in ("==", "!=", "<=", ">="):
            l, r = kids(x)
            if any(x is d for d in fm.elem_defs.values()):
                return     # the definition of a hoisted per-element value: its uses carry the expression
            add("assign", c("%s %s %s" % (lhs_text(fm, l), x["op"], fm.origin(r))), x)
        elif k == "UnaryOperator" and x.get("op") in ("++", "--"):
            t = strip(kids(x)[0])
            if not (t.get("k") == "DeclRefExpr" and t.get("did") in fm.loop_vars):
                add("assign", c("%s %s 1" % (lhs_text(fm, t), "+=" if x["op"] == "++" else "-=")), x)
        elif k in ("CallExpr", "CXXMemberCallExpr"):
            nm = tbf.callee_name(x)
            if nm in SKIP_CALLS or nm is None or nm in fm.inline_helpers:
                return
            cal = strip(kids(x)[0])
            if cal.get("k") == "DeclRefExpr" and cal.get("did") in called:
                return
            base = tbf.call_base(x)
            add("call", c("%s.%s(%s)" % (fm.origin(base) if base is not None else "", nm, ",".join(fm.origin(a) for a in tbf.call_args(x)))), x)
        elif k == "ReturnStmt" and kids(x):
            add("ret", c(fm.origin(kids(x)[0])), x)

    for x in walk(fm.body):
        if id(x) in skip:
            continue
        visit(x)
    for did, sites in called.items():
        lam = local_lams[did]
        params = lam.get("params", [])
        lbody = [y for y in lam.get("c", []) if y is not None and y.get("k") == "CompoundStmt"]
        for site, args in sites:
            if len(args) != len(params) or not lbody:
                raise AnalysisBroken("%s: call of the local lambda at line %d not understood" % (fn["qname"], site["l"][1]))
            fm.lambda_bind = {p["did"]: fm.origin(a) for p, a in zip(params, args)}
            for y in walk(lbody[0]):
                visit(y)
            fm.lambda_bind = {}
    return out


def lhs_text(fm, n):
    """assignment target: keep the variable identity (numbered) instead of following its initialiser"""
    n = strip(n)
    k = n.get("k")
    if k == "DeclRefExpr":
        if n.get("did") in fm.assigned:
            return "mutable:" + n.get("name", "?")
        d = fm.decls.get(n.get("did"))
        if d is not None and d.get("k") == "VarDecl":
            if d.get("t", "").rstrip().endswith("&") and kids(d):
                return fm.origin(n)            # a reference: the target is what it was bound to
            return "local:" + n.get("name", "?")   # a value: its own identity (numbered by the caller)
        return fm.origin(n)
    if k in ("ArraySubscriptExpr",):
        a, b = kids(n)
        return lhs_text(fm, a) + "[" + fm.origin(b) + "]"
    if k == "CXXOperatorCallExpr" and n.get("op") == "[]":
        c = kids(n)
        return lhs_text(fm, c[1]) + "[" + fm.origin(c[2]) + "]"
    if k in ("MemberExpr", "CXXDependentScopeMemberExpr"):
        c = kids(n)
        if not c or n.get("implicitthis"):
            return "this." + n.get("name", "?")
        return lhs_text(fm, c[0]) + "." + n.get("name", "?")
    if k == "UnaryOperator":
        return n.get("op", "") + lhs_text(fm, kids(n)[0])
    return fm.origin(n)


def _near(a, b):
    """same kind of atom and almost the same token sequence: the signature of a changed constant, operator, bound or callee"""
    import difflib
    if a.split(" ", 1)[0] != b.split(" ", 1)[0]:
        return False
    ta, tb = re.findall(r"\w+|[^\w\s]", a), re.findall(r"\w+|[^\w\s]", b)
    return difflib.SequenceMatcher(None, ta, tb).ratio() >= 0.8


def compare(facts, res, rule, fa, fb, only=None, canon_a=None, canon_b=None, what="", rewrite=None, proven_helper=None):
    """Deviance between two sibling implementations.  Reported as a violation when the difference is one-sided
    (a step present in one sibling only) or when a differing pair is a near match (changed constant / operator /
    bound); two siblings that differ on both sides without any near match have been restructured, which this rule
    cannot judge: analysis broken (exit 2), never a verdict."""
    inl = one_sided_helpers(facts, fa, fb)
    # a multi-statement helper that exists on one side only and is called here: that side was restructured (code moved into the
    # helper); atoms of a call and of the code it replaced cannot be matched, and guessing would raise false alarms
    ca, cb = fa.get("cls"), fb.get("cls")
    if ca and cb and ca != cb:
        na = {m["name"] for m in facts.methods_of(ca) if tbf.body(m) is not None}
        nb = {m["name"] for m in facts.methods_of(cb) if tbf.body(m) is not None}
        for f_, own, other in ((fa, na, nb), (fb, nb, na)):
            for x in walk(tbf.body(f_)):
                if x.get("k") in ("CallExpr", "CXXMemberCallExpr"):
                    nm = tbf.callee_name(x)
                    base = tbf.call_base(x)
                    if nm in own and nm not in other and nm not in inl and (base is None or strip(base).get("k") == "CXXThisExpr"):
                        if proven_helper is not None and proven_helper(f_.get("cls"), nm):
                            continue   # the caller holds a proven identity that rewrites calls of this helper into the sibling's form
                        raise AnalysisBroken("%s calls the helper %s(), which only its own class has and which is not a single expression: part of %s was moved into it on one side only; "
                                             "the sibling comparison with %s cannot follow - re-confirm by reading" % (f_["qname"], nm, f_["name"], (fb if f_ is fa else fa)["qname"]))
    A = atoms(facts, fa, only, canon_a, inl)
    B = atoms(facts, fb, only, canon_b, inl)
    if rewrite is not None:
        A = {rewrite(ca, k): v for k, v in A.items()}
        B = {rewrite(cb, k): v for k, v in B.items()}
    res.instance(rule, "%s vs %s" % (fa["qname"], fb["qname"]), facts.loc(fb), "%d / %d atoms%s%s" % (len(A), len(B), (" restricted to " + ",".join(only)) if only else "", (" ; inlined one-sided helpers " + ",".join(sorted(inl))) if inl else ""))
    onlyA, onlyB = sorted(set(A) - set(B)), sorted(set(B) - set(A))
    if onlyA and onlyB:
        # a local dropped or added on one side shifts the numbers of the locals after it: when the unmatched steps pair up under one
        # consistent renumbering, and that renumbering leaves fewer unmatched steps than before, compare under it
        ren = _renumbering(onlyA, onlyB)
        if ren:
            B2 = {_apply_ren(k, ren): v for k, v in B.items()}
            if len(B2) == len(B) and len(set(A) ^ set(B2)) < len(set(A) ^ set(B)):
                B = B2
                onlyA, onlyB = sorted(set(A) - set(B)), sorted(set(B) - set(A))
    if onlyA and onlyB:
        pairs = [(a, b) for a in onlyA for b in onlyB if _near(a, b)]
        if not pairs:
            raise AnalysisBroken("%s and %s differ structurally (%d / %d unmatched steps, none a near match, e.g. `%s` vs `%s`): one of them was restructured; re-confirm the sibling rule by reading"
                                 % (fa["qname"], fb["qname"], len(onlyA), len(onlyB), onlyA[0][:80], onlyB[0][:80]))
        for a, b in pairs:
            res.violation(rule, tbf.rel(facts.path_of(B[b])), fb["qname"], ("differs:" + b)[:110], B[b]["l"][1],
                          "%s%s has `%s` (%s) where its sibling %s has `%s`: the two implementations no longer agree" % (what, fa["qname"], a[:160], facts.loc(A[a]), fb["qname"], b[:160]))
        return len(A), len(B)
    for k in onlyA:
        res.violation(rule, tbf.rel(facts.path_of(fb)), fb["qname"], ("missing:" + k)[:110], fb["l"][1],
                      "%s%s has `%s` (%s) but its sibling %s does not: the two implementations no longer agree" % (what, fa["qname"], k[:160], facts.loc(A[k]), fb["qname"]))
    for k in onlyB:
        res.violation(rule, tbf.rel(facts.path_of(B[k])), fb["qname"], ("extra:" + k)[:110], B[k]["l"][1],
                      "%s%s performs `%s` which its sibling %s does not: the two implementations no longer agree" % (what, fb["qname"], k[:160], fa["qname"]))
    return len(A), len(B)


_NUM = re.compile(r"\b(mutable:v|local:u)(\d+)\b")


def _renumbering(onlyA, onlyB):
    """a bijection of numbered locals of B onto those of A under which some unmatched steps of B become steps of A; None if inconsistent"""
    mask = lambda s: _NUM.sub(lambda m: m.group(1) + "#", s)
    byA = {}
    for a in onlyA:
        byA.setdefault(mask(a), []).append(a)
    ren = {}
    for b in onlyB:
        cand = byA.get(mask(b), [])
        if len(cand) != 1:
            continue
        for (pa, na), (pb, nb) in zip(_NUM.findall(cand[0]), _NUM.findall(b)):
            if pa != pb:
                return None
            if ren.setdefault((pb, nb), na) != na:
                return None
    ren = {k: v for k, v in ren.items() if k[1] != v}
    if not ren:
        return None
    # complete into a bijection: a number taken as an image must itself move to the freed number (swap chains)
    for pref in {k[0] for k in ren}:
        src = [k[1] for k in ren if k[0] == pref]
        img = [ren[(pref, n)] for n in src]
        if len(set(img)) != len(img):
            return None
        free = [n for n in src if n not in img]
        for n in img:
            if n not in src:
                if not free:
                    return None
                ren[(pref, n)] = free.pop()
    return ren


def _apply_ren(s, ren):
    return _NUM.sub(lambda m: m.group(1) + ren.get((m.group(1), m.group(2)), m.group(2)), s)
