"""C13 — rebuild re-bins moved particles and preserves identity, data and results.

Decided clauses:
 1 rebuild() instantiates for every shipped ordering and dimension (witnesses)
 2 gather/scatter role agreement: the three leaf-visitor lambdas index per-particle storage by the
   original index and per-leaf storage by (value, position); the scatter is the inverse of the
   result gather; staging arrays have the tree's value types (no narrowing)
 3 same construction as the constructor: the construction facts (sorter, split, group/level/parent
   calls with argument origins, flush condition, level interval) of rebuild() equal the constructor's
 4 everything is rebuilt from empty containers (clear + resize) so expansions restart from the
   zero-initialised state established by the group constructors (C06.1)
"""
import os
import re

import tbf
import stages
import idxdomain
import witness
from tbf import walk, kids, strip, AnalysisBroken

LEVEL = "other"
TECHNIQUE = "index-domain + copy-relation engine + constructor/rebuild construction-fact comparison over argument origins + relabel-then-scatter path coverage + executor-state reset rule + must-compile witnesses"

# the calls that construct something (pure queries are part of the conditions / arguments of these and are not facts of their own:
# hoisting `x.getNbCells()` into a local or writing `!v.empty()` for `v.size()` changes no fact)
FACT_CALLS = {"splitInGroups", "emplace_back", "push_back", "resize", "clear"}

REBUILD_TU = witness.HEADERS + """
template <class SpaceIndexType, class Real, long int Dim>
long int one(){
    std::array<Real, Dim> widths, center;
    for(long int i = 0 ; i < Dim ; ++i){ widths[i] = 1; center[i] = Real(0.5); }
    const TbfSpacialConfiguration<Real, Dim> configuration(4, widths, center);
    std::vector<std::array<double, Dim+2>> pos(9);
    TbfTree<Real, double, Dim+2, double, 2, std::array<long int,1>, std::array<long int,1>, SpaceIndexType> tree(configuration, pos, 4, true);
    tree.rebuild();
    TbfTreeTsm<Real, double, Dim+2, double, 2, std::array<long int,1>, std::array<long int,1>, SpaceIndexType> tsm(configuration, pos, pos);
    tsm.rebuild();
    return tree.getNbParticles() + tsm.getNbParticles();
}
template <long int D, class R> using M = TbfMortonSpaceIndex<D, TbfSpacialConfiguration<R, D>, false>;
template <long int D, class R> using P = TbfMortonSpaceIndex<D, TbfSpacialConfiguration<R, D>, true>;
template <long int D, class R> using Hb = TbfHilbertSpaceIndex<D, TbfSpacialConfiguration<R, D>, false>;
long int witness(){
    return one<M<1,float>,float,1>() + one<M<2,double>,double,2>() + one<M<3,float>,float,3>() + one<M<4,double>,double,4>()
         + one<P<1,double>,double,1>() + one<P<2,float>,float,2>() + one<P<3,double>,double,3>() + one<P<4,float>,float,4>()
         + one<Hb<3,float>,float,3>() + one<Hb<3,double>,double,3>();
}
"""


def construction_facts(facts, fn, pos_var_names):
    """set of (kind, text) facts describing how the groups/levels are constructed"""
    fm = stages.FnModel(facts, fn)
    out = {}
    leafvisitors = set()
    for call in walk(fm.body):
        if call.get("k") in ("CallExpr", "CXXMemberCallExpr") and tbf.callee_name(call) == "applyToAllLeaves":
            for x in walk(call):
                leafvisitors.add(id(x))

    repl = [(nm, "POS") for nm in pos_var_names]
    for d in fm.decls.values():
        if d.get("k") == "VarDecl" and "TbfParticleSorter" in d.get("t", ""):
            so = fm.origin({"k": "DeclRefExpr", "did": d["did"], "dk": "Var", "name": d["name"], "l": d["l"]})
            repl.append((so, "SORTER"))
    repl.sort(key=lambda r: -len(r[0]))

    def canon(s):
        for a, b in repl:
            s = s.replace(a, b)
        return s

    for x in walk(fm.body):
        if id(x) in leafvisitors:
            continue
        k = x.get("k")
        if k in ("CallExpr", "CXXMemberCallExpr"):
            nm = tbf.callee_name(x)
            if nm in FACT_CALLS:
                base = tbf.call_base(x)
                bo = fm.origin(base) if base is not None else ""
                key = "call %s.%s(%s)" % (canon(bo), nm, ",".join(canon(fm.origin(a)) for a in tbf.call_args(x)))
                out.setdefault(key, x)
        if k == "VarDecl" and "TbfParticleSorter" in x.get("t", ""):
            args = []
            for c in walk(x):
                if c.get("k") in ("ParenListExpr", "CXXUnresolvedConstructExpr", "InitListExpr", "CXXConstructExpr"):
                    args = [canon(fm.origin(a)) for a in kids(c)]
                    break
            out.setdefault("sorter %s(%s)" % (x["t"].replace(" ", ""), ",".join(args)), x)
        if k == "IfStmt" and x.get("constexpr"):
            continue      # a compile-time configuration switch is not a step of the construction
        if k in ("IfStmt", "WhileStmt"):
            cond = x["c"][-3] if (k == "IfStmt" and len(x["c"]) >= 3) else x["c"][0] if k == "IfStmt" else x["c"][-2]
            out.setdefault("cond %s" % canon(fm.cond_origin(cond)), x)
        if k == "UnaryOperator" and x.get("op") in ("++", "--") and strip(kids(x)[0]).get("k") == "DeclRefExpr" and strip(kids(x)[0]).get("did") in fm.assigned:
            out.setdefault("step %s%s" % (x["op"], canon(fm.origin(kids(x)[0]))), x)
        if k == "CompoundAssignOperator" and x.get("op") in ("+=", "-=") and strip(kids(x)[0]).get("k") == "DeclRefExpr" and fm.origin(kids(x)[1]) == "1":
            out.setdefault("step %s%s" % ("++" if x["op"] == "+=" else "--", canon(fm.origin(kids(x)[0]))), x)
        if k == "ForStmt":
            init = x["c"][0]
            v = [d for d in kids(init) if d.get("k") == "VarDecl"] if init else []
            if v and kids(v[0]):
                try:
                    lo, hi, d = fm.loop_interval(x)
                    out.setdefault("loop [%s,%s] %s" % (canon(str(lo)), canon(str(hi)), d), x)
                except AnalysisBroken:
                    out.setdefault("cond " + canon(fm.cond_origin(x["c"][1])), x)
            elif x["c"][1] is not None:
                out.setdefault("cond " + canon(fm.cond_origin(x["c"][1])), x)    # for( ; c ; step): a while loop
        if k == "CXXForRangeStmt":
            out.setdefault("range " + canon(fm.origin(x["c"][1])), x)
    return out


def kept_groups_guard(facts, rebuild, fm):
    """the IfStmt of rebuild() under which the particle groups are NOT re-created, when its condition is computed from the result of the
    sorter's splitInGroups() (directly or through a flag local assigned from it); None when the groups are always re-created or the test
    does not consult the split"""
    b = tbf.body(rebuild)
    tbf.link_parents(b)
    split = set(v["did"] for v in walk(b) if v.get("k") == "VarDecl" and kids(v) and any(tbf.callee_name(c) == "splitInGroups" for c in walk(v) if c.get("k") in ("CallExpr", "CXXMemberCallExpr")))
    if not split:
        return None
    eb = [c for c in walk(b) if c.get("k") in ("CallExpr", "CXXMemberCallExpr") and tbf.callee_name(c) == "emplace_back" and tbf.call_base(c) is not None
          and strip(tbf.call_base(c)).get("name") == "particleGroups"]
    for c in eb:
        for a in tbf.ancestors(c):
            if a.get("k") != "IfStmt" or a.get("constexpr"):
                continue
            cond = [y for y in kids(a) if y.get("k") != "DeclStmt"][0]
            seen, todo = set(), [cond]
            while todo:
                n = todo.pop()
                for y in walk(n):
                    if y.get("k") == "DeclRefExpr" and y.get("did") is not None:
                        if y["did"] in split:
                            return a
                        if y["did"] not in seen:
                            seen.add(y["did"])
                            d = fm.decls.get(y["did"])
                            if d is not None and d.get("k") == "VarDecl" and kids(d):
                                todo.append(kids(d)[0])
                            for x in walk(b):
                                if x.get("k") in ("BinaryOperator", "CompoundAssignOperator") and x.get("op", "").endswith("=") and x.get("op") not in ("==", "!=", "<=", ">=") \
                                        and strip(kids(x)[0]).get("did") == y["did"]:
                                    todo.append(kids(x)[1])
    return None


def derived_state(facts, res, R="C13.5.derived-state", cls="TbfTree", structural=("cellBlocks", "particleGroups")):
    """Anything the tree remembers ABOUT its groups outside the groups themselves (a lazily built table of particle slots, a
    directory, a hint) is derived state: every member function that clears / refills the group containers - rebuild() - must
    reset it, otherwise the next reader sees the layout of the tree before the rebuild.  Derived members are found from the
    code: a member other than the group containers that some method (not the constructor) writes while it reads the groups."""
    import c16
    fields = {f["name"]: f for c in facts.classes if c["name"] == cls for f in c.get("fields", [])}
    methods = [m for m in facts.methods_of(cls) if tbf.body(m) is not None]

    def writes_to(m, lk=None):
        out = {}
        lk = lk or c16._Look(facts, m)
        for x in walk(tbf.body(m)):
            nm = None
            if x.get("k") in ("CallExpr", "CXXMemberCallExpr") and tbf.callee_name(x) in c16.MUTATORS | {"resize", "assign", "clear", "reserve"} and tbf.call_base(x) is not None:
                c = lk.container(tbf.call_base(x))
                nm = c.split("[")[0] if c else None
            if x.get("k") in ("BinaryOperator", "CompoundAssignOperator", "CXXOperatorCallExpr") and x.get("op", "").endswith("=") and x.get("op") not in ("==", "!=", "<=", ">="):
                l = kids(x)[0] if x.get("k") != "CXXOperatorCallExpr" else kids(x)[1]
                c = lk.container(l)
                if c is None:
                    l0 = strip(l)
                    if l0.get("k") in ("MemberExpr", "CXXDependentScopeMemberExpr") and l0.get("name") in fields and (not kids(l0) or strip(kids(l0)[0]).get("k") == "CXXThisExpr"):
                        c = l0["name"]
                nm = c.split("[")[0] if c else nm
            if nm in fields:
                out.setdefault(nm, []).append(x)
        return out

    def reads_groups(m):
        for x in walk(tbf.body(m)):
            if x.get("k") in ("MemberExpr", "CXXDependentScopeMemberExpr") and x.get("name") in structural:
                return True
            if x.get("k") in ("CallExpr", "CXXMemberCallExpr") and (tbf.callee_name(x) or "").startswith(("applyToAll", "getNbParticleGroups", "getNbCellGroups", "getCellGroups", "getParticleGroups", "getLeafGroups")):
                return True
        return False
    own = {id(m): writes_to(m) for m in methods}
    byname = {}
    for m in methods:
        byname.setdefault(m["name"], []).append(m)

    def writes_closure(m, depth=0, seen=None):
        """writes of m and of the member functions of the same object it calls (a refresh helper called by rebuild() resets what it fills)"""
        seen = seen if seen is not None else set()
        if id(m) in seen or depth > 4:
            return {}
        seen.add(id(m))
        out = {k: list(v) for k, v in own[id(m)].items()}
        for x in walk(tbf.body(m)):
            if x.get("k") in ("CallExpr", "CXXMemberCallExpr") and tbf.callee_name(x) in byname:
                b_ = tbf.call_base(x)
                if b_ is None or strip(b_).get("k") == "CXXThisExpr":
                    for g_ in byname[tbf.callee_name(x)]:
                        if g_["kind"] not in ("CXXConstructor", "CXXDestructor") and len(g_["params"]) == len(tbf.call_args(x)):
                            for k_, v_ in writes_closure(g_, depth + 1, seen).items():
                                out.setdefault(k_, []).extend(v_)
        return out
    derived = {}
    mutators = []
    for m in methods:
        w = own[id(m)]
        if any(k in structural for k in w) and m["kind"] not in ("CXXConstructor", "CXXDestructor"):
            mutators.append((m, writes_closure(m)))
            continue
        if False:
            pass
    for m in methods:
        w = own[id(m)]
        if m["kind"] in ("CXXConstructor", "CXXDestructor"):
            continue
        for fname, nodes in w.items():
            if fname in structural:
                continue
            if reads_groups(m) and not any(k in structural for k in w):
                derived.setdefault(fname, (m, nodes[0]))
    res.instance(R, "%s derived members" % cls, "src/core", "members written outside construction while the groups are read: %s; functions that refill the groups: %s" % (sorted(derived) or "none", [m["name"] for m, _w in mutators]))
    if not mutators:
        raise AnalysisBroken("%s: no member function refilling the group containers found (rebuild confirmed by reading)" % cls)
    for fname, (m0, node) in sorted(derived.items()):
        for g, w in mutators:
            if fname not in w:
                res.violation(R, tbf.rel(facts.path_of(g)), g["qname"], "stale:%s:%s" % (fname, g["name"]), g["l"][1],
                              "%s() refills the group containers but does not reset '%s', which %s() fills from the groups (%s) and keeps: after a rebuild '%s' still describes the layout "
                              "before it, and whatever reads it returns the values of other particles / cells" % (g["name"], fname, m0["name"], facts.loc(node), fname))
    derived_state.last = set(derived)
    return len(derived)


_VIEW = re.compile(r"(\w+)\.(?:template)?getViewerForBlock(?:Const)?<(\w+)>")


def results_follow_particle(facts, res, R="C13.6.results-follow-the-particle", cls="TbfParticlesContainer", tree_cls="TbfTree"):
    """C13.6: the original index stored at a storage slot names the particle whose data AND accumulated results sit at that slot.  Outside
    the constructor (where the results are zero) whoever rewrites the index of a slot must, in the same function, also write the results of
    that slot; otherwise the results stay with the slot while the label moves to another particle, and everything read by original index
    after a rebuild (getAllParticlesRhs, the scatter of rebuild()) returns another particle's results.
    Sites: (i) methods of the particles container assigning through the viewer of the index block (the block getParticleIndexes() reads);
    (ii) leaf visitors of the tree writing through a non-const index pointer."""
    gi = [m for m in facts.methods_of(cls) if m["name"] == "getParticleIndexes" and tbf.body(m) is not None]
    if not gi:
        raise AnalysisBroken("%s::getParticleIndexes not found: the index block cannot be identified" % cls)
    blocks = set(b_ for r_ in walk(tbf.body(gi[0])) if r_.get("k") == "ReturnStmt" for b_ in _VIEW.findall(facts.ntext(r_)))
    if len(blocks) != 1:
        raise AnalysisBroken("%s::getParticleIndexes: index block not identified (%s)" % (cls, sorted(blocks)))
    idxblock = list(blocks)[0]
    nctor = nother = 0
    relabel = {}
    for m in facts.methods_of(cls):
        b = tbf.body(m)
        if b is None or m.get("inst"):
            continue
        views = {}
        for v in walk(b):
            if v.get("k") == "VarDecl" and kids(v):
                mm = _VIEW.search(facts.ntext(kids(v)[0]))
                if mm:
                    views[v["did"]] = (mm.group(1), mm.group(2))
        wrote = {}
        for x in walk(b):
            if not (x.get("k") in ("BinaryOperator", "CXXOperatorCallExpr", "CompoundAssignOperator") and x.get("op", "").endswith("=") and x.get("op") not in ("==", "!=", "<=", ">=")):
                continue
            lhs = kids(x)[0] if x.get("k") != "CXXOperatorCallExpr" else kids(x)[1]
            lt = facts.ntext(lhs)
            if "getItem" not in lt:
                continue
            blk = None
            mm = _VIEW.search(lt)
            if mm:
                blk = (mm.group(1), mm.group(2))
            else:
                for y in walk(lhs):
                    if y.get("k") == "DeclRefExpr" and y.get("did") in views:
                        blk = views[y["did"]]
            if blk:
                wrote.setdefault(blk, x)
        if idxblock in wrote:
            x = wrote[idxblock]
            others = [k for k in wrote if k[0] != idxblock[0]]
            if m["kind"] == "CXXConstructor":
                nctor += 1
                res.instance(R, "%s constructor" % cls, facts.loc(x), "index slots written at construction (results start at zero)")
            else:
                nother += 1
                res.instance(R, "%s::%s" % (cls, m["name"]), facts.loc(x), "rewrites index slots; also writes %s" % sorted(others))
                if not others:
                    relabel[m["name"]] = (m, x)

    # callers in the tree: a call of a relabel-only method must be followed, on every path, by the scatter of the gathered results
    def _branches(node):
        out = set()
        prev = node
        for a in tbf.ancestors(node):
            if a.get("k") == "IfStmt":
                cc = [y for y in kids(a) if y.get("k") != "DeclStmt"]
                for i_, c_ in enumerate(cc[1:], 1):
                    if c_ is prev:
                        out.add((id(a), i_))
            prev = a
        return out
    nvis = ncalls = 0
    for tcls in ([tree_cls] if tree_cls else []):
        for m in facts.methods_of(tcls):
            b = tbf.body(m)
            if b is None or m.get("inst"):
                continue
            tbf.link_parents(b)
            scatters = []
            sites = []
            for lam in walk(b):
                if lam.get("k") != "LambdaExpr":
                    continue
                ps = lam.get("params") or []
                ip = [p_ for p_ in ps if re.match(r"^(long|long int) \*( const)?$", p_.get("t", ""))]
                rp = [p_["did"] for p_ in ps if "Rhs" in p_.get("t", "")]
                if not ps:
                    continue
                nvis += 1
                asg = [x for x in walk(lam) if x.get("k") in ("BinaryOperator", "CompoundAssignOperator") and x.get("op", "").endswith("=") and x.get("op") not in ("==", "!=", "<=", ">=")]
                wr = [x for x in asg if any(y.get("k") == "DeclRefExpr" and y.get("did") in rp for y in walk(kids(x)[0]))]
                if wr:
                    scatters.append(lam)
                for p_ in ip:
                    w = [x for x in asg if any(y.get("k") == "DeclRefExpr" and y.get("did") == p_["did"] for y in walk(kids(x)[0]))]
                    if w and not wr:
                        sites.append((w[0], "a leaf visitor of %s() rewrites the particle indexes of the slots (`%s`)" % (m["name"], facts.ntext(w[0])[:60]), "relabel-visitor:%s" % m["name"]))
            for c in walk(b):
                if c.get("k") in ("CallExpr", "CXXMemberCallExpr") and tbf.callee_name(c) in relabel:
                    sites.append((c, "%s() calls %s(), which rewrites the particle index stored at the slots of block %s<%s> and writes no block of the results memory" % (m["name"], tbf.callee_name(c), idxblock[0], idxblock[1]), "relabel:%s" % tbf.callee_name(c)))
            for (site, what, key) in sites:
                ncalls += 1
                sb = _branches(site)
                cover = [l_ for l_ in scatters if l_["l"][1] > site["l"][1] and _branches(l_) <= sb]
                res.instance(R, "%s::%s %s" % (tcls, m["name"], key), facts.loc(site), "followed on every path by a scatter of the results: %s" % bool(cover))
                if not cover:
                    res.violation(R, tbf.rel(facts.path_of(site)), m["qname"], key, site["l"][1],
                                  what + ", and no scatter of the gathered results follows on that path: the accumulated results stay with the slot while the slot now names another particle - after such a rebuild, results are returned under the wrong particle")
    res.instance(R, "summary", "src/core", "index block %s<%s>; written by %d constructor(s), %d other method(s) of which relabel-only: %s; %d leaf visitors of %s read, %d relabelling sites" % (idxblock[0], idxblock[1], nctor, nother, sorted(relabel), nvis, tree_cls, ncalls))
    return nctor


def tsm_forward(facts, res):
    """C13.4.tsm: the target/source rebuild rebuilds both member trees, unconditionally, through the parameterless rebuild() - or, when it
    hands a staging array to an overload, one whose extent is exactly that tree's particle count (the rebuild takes the count from it)"""
    t = facts.fn("TbfTreeTsm::rebuild")
    tt = facts.ntext(tbf.body(t))
    res.instance("C13.4.tsm", "TbfTreeTsm::rebuild", facts.loc(t), tt)
    # both member trees are rebuilt, unconditionally: rebuild() is also what resets every cell expansion to zero, so a tree that is
    # "skipped because nothing moved" keeps the multipoles / locals of the previous execution and the next one adds to them
    tb = tbf.body(t)
    tbf.link_parents(tb)
    tree_members = [fl["name"] for fl in facts.cls("TbfTreeTsm")["fields"] if "TreeClass" in fl.get("t", "") or fl["name"].startswith("tree")]
    calls = {}
    for x in walk(tb):
        if x.get("k") in ("CallExpr", "CXXMemberCallExpr") and tbf.callee_name(x) == "rebuild" and tbf.call_base(x) is not None:
            b0 = strip(tbf.call_base(x))
            if b0.get("k") in ("MemberExpr", "CXXDependentScopeMemberExpr") and b0.get("name") in tree_members:
                calls.setdefault(b0["name"], []).append(x)
    if len(tree_members) != 2:
        raise AnalysisBroken("TbfTreeTsm: %d member trees (2 confirmed by reading)" % len(tree_members))
    for mname in tree_members:
        cs = calls.get(mname, [])
        if not cs:
            res.violation("C13.4.tsm", tbf.rel(facts.path_of(t)), "TbfTreeTsm::rebuild", "forward:" + mname, t["l"][1], "target/source rebuild does not rebuild '%s'" % mname)
            continue
        cond = [a for c_ in cs for a in tbf.ancestors(c_) if a.get("k") in ("IfStmt", "ConditionalOperator", "SwitchStmt", "ForStmt", "WhileStmt")]
        early = [r for r in walk(tb, into_lambdas=False) if r.get("k") == "ReturnStmt" and r["l"][1] < cs[0]["l"][1]]
        if cond or early:
            w = (cond or early)[0]
            res.violation("C13.4.tsm", tbf.rel(facts.path_of(t)), "TbfTreeTsm::rebuild", "conditional:" + mname, w["l"][1],
                          "'%s' is rebuilt only under a condition (`%s`): rebuild() is what resets the cell expansions, a tree that is skipped keeps the multipoles / locals of the previous "
                          "execution and the next execute() adds one more full interaction on top of them" % (mname, facts.ntext(w["c"][0] if w.get("k") == "IfStmt" else w)[:70]))
    for mname in tree_members:
        for c_ in calls.get(mname, []):
            for a_ in tbf.call_args(c_):
                a0 = strip(a_)
                dv = [v for v in walk(tb) if v.get("k") == "VarDecl" and v.get("did") == a0.get("did")] if a0.get("k") == "DeclRefExpr" else []
                if not dv or not kids(dv[0]) or not re.search(r"vector|Staging|array", dv[0].get("t", "")):
                    continue          # not a staging array (a flag, a literal): nothing whose extent the rebuild could take for the particle count
                ext = facts.ntext(kids(dv[0])[0])
                want = re.compile(r"^(\w+\()?%s\.getNbParticles\(\)\)?$" % re.escape(mname))
                m_ext = re.search(r"\((.*)\)$", ext)
                inner = m_ext.group(1) if m_ext else ext
                res.instance("C13.4.tsm", "%s.rebuild(%s)" % (mname, facts.ntext(a_)[:20]), facts.loc(c_), "staging array of extent `%s`" % inner[:60])
                if not want.match(inner):
                    res.violation("C13.4.tsm", tbf.rel(facts.path_of(c_)), "TbfTreeTsm::rebuild", "staging-extent:" + mname, c_["l"][1],
                                  "'%s' is rebuilt from a staging array of extent `%s`, not its own particle count: the rebuild sizes the result staging, sorts and re-creates the groups from the size of that array, so the tree with fewer particles gets the tail of the array as extra particles (zero-initialised or the other tree's)" % (mname, inner[:60]))


def run(res, tier):
    facts = tbf.scan("core")
    res.units.append("umbrella TU 'core': TbfTree constructor, TbfTree::rebuild, TbfTreeTsm::rebuild")
    res.rule("C13.1 rebuild() instantiates for Morton / periodic Morton (dim 1-4) and Hilbert (dim 3), single and target/source trees")
    res.rule("C13.2 gather/scatter lambdas: per-particle arrays indexed by original index then value, per-leaf arrays by value then position, scatter inverse of the result gather, staging element types equal the tree's")
    res.rule("C13.3 construction facts of rebuild() (sorter type+args, split argument, emplace_back/parent/index calls with argument origins, conditions, level interval) equal the constructor's")
    res.rule("C13.4 rebuild clears both containers and re-creates every group through the constructors that zero-initialise (C06.1)")
    rebuild = tbf.expand_member_helpers(facts, facts.fn("TbfTree::rebuild"))
    tsm_forward(facts, res)
    res.rule("C13.7 repeated cycles in periodic mode: the expansions of the virtual levels the top-tree executors keep are zeroed at the head of the stage that recomputes them (multipoles: M2M, locals: M2L) - rebuild() zeroes the cells of the tree only")
    import c12 as _c12
    n7 = 0
    for cls7 in _c12.TOPTREE:
        if hasattr(_c12.toptree_state, "last"):
            _c12.toptree_state.last.pop(cls7, None)
        n7 += _c12.toptree_fresh_pass(facts, cls7, res)
    res.rule("C13.6 results follow the particle: outside construction, whoever rewrites the original index stored at a slot also writes that slot's results in the same function")
    nctor = results_follow_particle(facts, res)
    if nctor < 1:
        res.deferred = getattr(res, "deferred", []) + [AnalysisBroken("rule C13.6 matched %d constructors writing the index block, floor confirmed by reading is 1 - the analyser no longer follows the code" % nctor)]
    fx = os.path.join(tbf.VERIF, "fixtures", "c13_relabel.cpp")
    ctl = tbf.Result("C13")
    results_follow_particle(tbf.scan_file(fx, [], [os.path.join(tbf.VERIF, "fixtures") + os.sep]), ctl, tree_cls="Tree")
    if len(ctl.violations) != 1 or "rebuildBad" not in ctl.violations[0]["function"]:
        raise AnalysisBroken("positive control fixtures/c13_relabel.cpp: %d of 1 relabelling methods reported" % len(ctl.violations))
    res.instance("C13.6.results-follow-the-particle", "positive control", "verif:fixtures/c13_relabel.cpp", "1 of 1 seeded constructs reported, the one that writes both silent")
    relabelled = any(v["rule"].startswith(("C13.6", "C13.4.tsm")) and not tbf.is_known("C13", v, tbf.load_known()) for v in res.violations)
    # 2
    try:
        n = idxdomain.check_function(facts, rebuild, res, "C13.2.gather-scatter")
    except AnalysisBroken:
        if relabelled:
            return     # the slots are relabelled in place: the gather / scatter model of rebuild() no longer applies, the violation above stands
        raise
    res.floor("C13.2", n, 2, "copy statements in rebuild's leaf visitors")
    # scatter inverse of gather: some statement writes the per-leaf rhs from the per-particle rhs array and vice versa
    txts = [i["detail"] for i in res.instances if i["rule"] == "C13.2.gather-scatter"]
    gathers = [t for t in txts if re.match(r"^(\w+)\[particleIndexes\[", t)]
    scat = [t for t in txts if re.search(r"=\s*(\w+)\[particleIndexes\[", t.split(";")[0]) and not re.match(r"^(\w+)\[particleIndexes\[", t)]
    gnames = set(re.match(r"^(\w+)\[", t).group(1) for t in gathers)
    snames = set(re.search(r"=\s*(\w+)\[particleIndexes\[", t.split(";")[0]).group(1) for t in scat)
    # copies summarised by the copy-relation engine:  `dest[IDX[p]][v] <- rows[v][p]` (gather) / `->` (scatter); what is gathered is named by its rows
    rel = [re.match(r"^(\w+)\[IDX\[.*\]\]\[.*\] (<-|->) (\w+)\[", t) for t in txts]
    rel = [m_ for m_ in rel if m_]
    if rel:
        gnames |= set(m_.group(3) for m_ in rel if m_.group(2) == "<-")
        snames |= set(m_.group(3) for m_ in rel if m_.group(2) == "->")
        if gathers:
            gnames = set("rows:" + g_ for g_ in gnames)
            snames = set("rows:" + g_ for g_ in snames)
    res.instance("C13.2.scatter-inverse", "TbfTree::rebuild", facts.loc(rebuild), "gathered: %s scattered back: %s" % (sorted(gnames), sorted(snames)))
    if len(gnames) < 2:
        res.violation("C13.2.scatter-inverse", tbf.rel(facts.path_of(rebuild)), "TbfTree::rebuild", "gather", rebuild["l"][1], "rebuild does not gather both data and results by original index (found %s)" % sorted(gnames))
    if not snames or not snames <= gnames:
        res.violation("C13.2.scatter-inverse", tbf.rel(facts.path_of(rebuild)), "TbfTree::rebuild", "scatter", rebuild["l"][1], "accumulated results are not scattered back from the gathered array (gathered %s, scattered %s)" % (sorted(gnames), sorted(snames)))
    # 3
    ctors = [m for m in facts.methods_of("TbfTree") if m["kind"] == "CXXConstructor" and tbf.body(m) is not None and len(m["params"]) >= 2]
    if len(ctors) != 1:
        raise AnalysisBroken("expected one particle-taking TbfTree constructor, found %d" % len(ctors))
    ctor = tbf.expand_member_helpers(facts, ctors[0])
    cf = construction_facts(facts, ctor, ["param1"])
    # in rebuild the positions are the gathered `data` array
    fm = stages.FnModel(facts, rebuild)
    datavars = [d for d in fm.decls.values() if d.get("k") == "VarDecl" and idxdomain.type_extent(d.get("t", "")) and "Data" in d["t"]]
    if len(datavars) != 1:
        raise AnalysisBroken("rebuild: cannot identify the gathered data array")
    dorig = fm.origin({"k": "DeclRefExpr", "did": datavars[0]["did"], "dk": "Var", "name": datavars[0]["name"], "l": datavars[0]["l"]})
    rf = construction_facts(facts, rebuild, [dorig])
    # members the tree fills FROM its groups (directories, tables) are not part of how the groups are built: whether rebuild() keeps them
    # current is rule C13.5's business (a one-time sizing in the constructor need not be repeated)
    derived_state(facts, tbf.Result("C13"))
    dm = getattr(derived_state, "last", set())
    ignore = lambda k: (".clear()" in k and ("cellBlocks.clear" in k or "particleGroups.clear" in k)) or k.startswith("call ctor(") or "std::size(POS)" in k or "size(POS" in k \
        or any(re.match(r"^(call|assign) this\.%s\b" % re.escape(d_), k) for d_ in dm)
    ck = set(k for k in cf if not ignore(k))
    rk = set(k for k in rf if not ignore(k))
    res.instance("C13.3.same-construction", "ctor vs rebuild", facts.loc(rebuild), "%d construction facts in the constructor, %d in rebuild" % (len(ck), len(rk)))
    for k in sorted(ck | rk):
        res.instance("C13.3.same-construction", k[:120], facts.loc(cf.get(k) or rf.get(k)), "in ctor: %s, in rebuild: %s" % (k in ck, k in rk), nontrivial=False)
    # groups kept under a condition: when the test consults the sorter's own split of the edited particles (the definition of the grouping)
    # the kept groups may well equal the fresh ones - that equality is value-level and not decided here (analysis broken, no verdict);
    # a test that does not consult the split at all is a second definition of leaf membership, reported below like any other extra step
    kept = kept_groups_guard(facts, rebuild, fm)
    if kept is not None:
        res.instance("C13.3.same-construction", "kept-groups", facts.loc(kept), "particle groups are re-created only when `%s` fails; the test consults the sorter's split" % facts.ntext(kept["c"][0] if kept.get("k") == "IfStmt" else kept)[:60])
        if not [v for v in res.violations if not tbf.is_known("C13", v, tbf.load_known())]:
            raise AnalysisBroken("%s: rebuild() keeps the existing particle groups when a comparison with the sorter's split succeeds: whether the kept groups equal freshly built ones is not decided by the construction-facts rule" % facts.loc(kept))
        rk = ck = set()
    for k in sorted(ck - rk):
        res.violation("C13.3.same-construction", tbf.rel(facts.path_of(rebuild)), "TbfTree::rebuild", k[:100], rebuild["l"][1],
                      "the constructor builds the tree with `%s` (%s) but rebuild() has no such step: a rebuilt tree differs from a freshly built one" % (k, facts.loc(cf[k])))
    for k in sorted(rk - ck):
        res.violation("C13.3.same-construction", tbf.rel(facts.path_of(rf[k])), "TbfTree::rebuild", k[:100], rf[k]["l"][1],
                      "rebuild() performs `%s` which the constructor does not: a rebuilt tree differs from a freshly built one" % k)
    res.floor("C13.3", len(ck), 25, "construction facts")
    # 4
    txt = facts.ntext(tbf.body(rebuild))
    tfields = {fl["name"] for fl in facts.cls("TbfTree")["fields"]}
    for anchor in ("cellBlocks", "particleGroups"):
        if anchor not in tfields:
            raise AnalysisBroken("TbfTree has no member '%s' any more: the reset rule must be re-read" % anchor)
    done = set()
    for x in walk(tbf.body(rebuild)):          # rebuild() with its private helpers spliced in
        if x.get("k") in ("CallExpr", "CXXMemberCallExpr") and tbf.call_base(x) is not None:
            b0 = strip(tbf.call_base(x))
            if b0.get("k") in ("MemberExpr", "CXXDependentScopeMemberExpr") and b0.get("name") in ("cellBlocks", "particleGroups") and tbf.callee_name(x) in ("clear", "resize"):
                done.add("%s.%s(" % (b0["name"], tbf.callee_name(x)) + (")" if tbf.callee_name(x) == "clear" else ""))
    for what in ("cellBlocks.clear()", "particleGroups.clear()", "cellBlocks.resize("):
        res.instance("C13.4.reset", what, facts.loc(rebuild), "present: %s" % (what in done))
        if what not in done:
            res.violation("C13.4.reset", tbf.rel(facts.path_of(rebuild)), "TbfTree::rebuild", what, rebuild["l"][1], "rebuild does not start from empty containers (%s missing): old expansions would survive" % what)
    res.rule("C13.5 every member the tree fills from its groups outside construction (caches, tables) is reset by rebuild()")
    derived_state(facts, res)
    # 1
    for comp in (("g++",) if tier == "quick" else ("g++", "clang++")):
        rc, err = tbf.compile_witness(REBUILD_TU, compiler=comp, name="c13_rebuild.cpp", max_errors=5)
        res.instance("C13.1.rebuild-instantiates", comp, "witness:c13_rebuild", "10 orderings/dimensions x {tree, target/source tree}")
        if rc != 0:
            f, line, msg, _ = witness.first_src_error(err)
            res.violation("C13.1.rebuild-instantiates", f, "<witness c13_rebuild>", comp, line, "rebuild() does not instantiate for every shipped ordering: " + msg[:300])
