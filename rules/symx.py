"""`symx` engine: exact symbolic evaluation of table-building code.

Evaluates a function body over sympy values: members and parameters are positive symbols, literals are exact
rationals, `<<` is multiplication by a power of two, casts are transparent (the *mathematical* value is computed;
the width of the arithmetic is the business of C15.4).  Loops with literal bounds are unrolled.  Loops whose
bounds are symbolic (tree height, expansion order) are summarised: the loop variable becomes an integer symbol
with its range, and every scalar carried around the loop by `v *= c`, `v /= c`, `v += c`, `v = -v` is replaced by
its closed form in the loop variable (geometric / arithmetic recurrence); anything else carried is opaque.  What
comes out is, for every member table, the list of stores (index expressions, value, ranges of the loop symbols)
and the allocation extents - a closed-form description of the table that a rule compares with the geometry it
must encode.  One pass over the AST, no paths, no solver.
"""
import sympy

import tbf
from tbf import walk, kids, strip, AnalysisBroken

MAX_UNROLL = 4096


class Opaque(Exception):
    pass


class Store:
    def __init__(self, table, idx, value, loops, node):
        self.table, self.idx, self.value, self.loops, self.node = table, idx, value, loops, node

    def __repr__(self):
        return "%s%s = %s  {%s}" % (self.table, list(self.idx), self.value, ", ".join("%s in [%s,%s]" % (s, lo, hi) for s, lo, hi in self.loops))


def psym(name, integer=False):
    return sympy.Symbol(name, positive=True, integer=integer) if integer else sympy.Symbol(name, positive=True)


class SymEval:
    def __init__(self, facts, fn, int_members=(), bind=None):
        self.facts = facts
        self.fn = fn
        self.env = {}          # did -> value
        self.members = {}      # name -> value (overrides the default symbol)
        self.int_members = set(int_members)
        self.arrays = {}       # did -> {idx tuple: value}   local arrays
        self.stores = []
        self.allocs = {}       # member -> extent value
        self.loops = []        # stack of (symbol, lo, hi)
        self.probe = False
        self.opaque_n = 0
        self.notes = []
        self.pstate = set()    # dids of static locals and of locals looked up in them
        self.cache_paths = []  # if-statements that return early on a cache hit
        self.consts = {}       # template parameter / static constant name -> integer (the rule instantiates a dimension)
        self.lambdas = {}      # did -> LambdaExpr node (local lambdas called directly)
        for p in fn.get("params", []):
            self.env[p["did"]] = (bind or {}).get(p["name"], psym(p["name"], integer=("long" in p["t"] or "int" in p["t"])))

    # ------------------------------------------------------------------ values
    def fresh(self, what):
        self.opaque_n += 1
        return sympy.Symbol("opaque%d<%s>" % (self.opaque_n, what[:30]))

    def member(self, name):
        if name in self.members:
            return self.members[name]
        return psym(name, integer=name in self.int_members)

    def eval(self, n):
        n = strip(n)
        if n is None:
            return self.fresh("null")
        k = n.get("k")
        f = self.facts
        if k == "IntegerLiteral":
            return sympy.Integer(n["val"])
        if k == "FloatingLiteral":
            return sympy.nsimplify(n["val"], rational=True)
        if k == "CXXBoolLiteralExpr":
            return sympy.true if n["val"] else sympy.false
        if k in ("CXXStaticCastExpr", "CStyleCastExpr", "CXXFunctionalCastExpr", "CXXUnresolvedConstructExpr", "CXXConstCastExpr", "ParenListExpr",
                 "MaterializeTemporaryExpr", "CXXBindTemporaryExpr", "ExprWithCleanups", "CXXTemporaryObjectExpr", "CXXConstructExpr") and len(kids(n)) == 1:
            return self.eval(kids(n)[0])
        if k == "InitListExpr" or (k in ("CXXUnresolvedConstructExpr", "CXXConstructExpr", "CXXTemporaryObjectExpr") and len(kids(n)) > 1 and "array" in (n.get("t") or "")):
            items = kids(n)
            if len(items) == 1 and strip(items[0]).get("k") == "InitListExpr":
                return self.eval(items[0])
            return tuple(self.eval(x) for x in items)
        if k == "DeclRefExpr":
            did = n.get("did")
            if did in self.env:
                return self.env[did]
            if did in self.arrays:
                return ("array", did)
            if n.get("dk") in ("NonTypeTemplateParm",) or n.get("staticmember"):
                if n.get("name") in self.consts:
                    return sympy.Integer(self.consts[n["name"]])
            if n.get("dk") in ("NonTypeTemplateParm",):
                return psym(n["name"], integer=True)
            if n.get("dk") == "EnumConstant":
                return psym(n["name"], integer=True)
            if n.get("staticmember") or n.get("dk") == "Var":
                return psym(n["name"], integer=True)
            return self.fresh(n.get("name", "?"))
        if k in ("MemberExpr", "CXXDependentScopeMemberExpr"):
            b = kids(n)
            if not b or strip(b[0]).get("k") == "CXXThisExpr":
                return self.member(n["name"])
            base = self.eval(b[0])
            return sympy.Function(n["name"])(base) if isinstance(base, sympy.Basic) else self.fresh(n["name"])
        if k == "DependentScopeDeclRefExpr":
            return self.member(n["name"])
        if k == "UnaryOperator":
            op = n.get("op")
            v = self.eval(kids(n)[0])
            if op == "-":
                return -v
            if op == "+":
                return v
            if op == "!":
                return sympy.Not(v) if isinstance(v, sympy.logic.boolalg.Boolean) else self.fresh("!")
            return self.fresh(op)
        if k == "BinaryOperator":
            op = n.get("op")
            a, b = self.eval(kids(n)[0]), self.eval(kids(n)[1])
            if not isinstance(a, sympy.Basic) or not isinstance(b, sympy.Basic):
                return self.fresh(op)
            try:
                if op == "+":
                    return a + b
                if op == "-":
                    return a - b
                if op == "*":
                    return a * b
                if op == "/":
                    if a.is_Integer and b.is_Integer and self._int_typed(n):
                        return sympy.Integer(int(a) // int(b)) if int(b) != 0 and (int(a) >= 0) == (int(b) > 0) else sympy.Integer(int(sympy.Rational(int(a), int(b)))) if int(b) != 0 else self.fresh("/0")
                    if self._int_typed(n) and not (a / b).is_integer:
                        return sympy.floor(a / b)
                    return a / b
                if op == "%":
                    return sympy.Mod(a, b)
                if op == "<<":
                    return a * sympy.Integer(2) ** b
                if op == ">>":
                    return sympy.floor(a / sympy.Integer(2) ** b)
                if op == "&" and a.is_Integer and b.is_Integer:
                    return sympy.Integer(int(a) & int(b))
                if op == "|" and a.is_Integer and b.is_Integer:
                    return sympy.Integer(int(a) | int(b))
                if op in ("<", "<=", ">", ">=", "==", "!="):
                    r = {"<": sympy.Lt, "<=": sympy.Le, ">": sympy.Gt, ">=": sympy.Ge, "==": sympy.Eq, "!=": sympy.Ne}[op](a, b)
                    return r
                if op == "&&":
                    return sympy.And(a, b)
                if op == "||":
                    return sympy.Or(a, b)
            except TypeError:
                return self.fresh(op)
            return self.fresh(op)
        if k == "ConditionalOperator":
            c, a, b = [self.eval(x) for x in kids(n)]
            if c == sympy.true or (isinstance(c, sympy.Basic) and c.is_Integer and int(c) != 0):
                return a
            if c == sympy.false or (isinstance(c, sympy.Basic) and c.is_Integer and int(c) == 0):
                return b
            if isinstance(a, sympy.Basic) and isinstance(b, sympy.Basic) and isinstance(c, sympy.logic.boolalg.Boolean):
                return sympy.Piecewise((a, c), (b, True))
            return self.fresh("?:")
        if k in ("ArraySubscriptExpr", "CXXOperatorCallExpr") and len(kids(n)) >= 2:
            base, idx = kids(n)[-2], kids(n)[-1]
            iv = self.eval(idx)
            bv = self.eval(base)
            if isinstance(bv, tuple) and bv and bv[0] == "array":
                arr = self.arrays[bv[1]]
                key = (iv,)
                if key in arr:
                    return arr[key]
                return self.fresh("arr[%s]" % iv)
            if isinstance(bv, tuple) and bv and bv[0] == "arrayrow":
                arr = self.arrays[bv[1]]
                key = bv[2] + (iv,)
                if key in arr:
                    return arr[key]
                return ("arrayrow", bv[1], key)
            if isinstance(bv, tuple):
                if isinstance(iv, sympy.Basic) and iv.is_Integer and 0 <= int(iv) < len(bv):
                    return bv[int(iv)]
                return self.fresh("tuple[%s]" % iv)
            if isinstance(bv, sympy.Basic) and isinstance(iv, sympy.Basic):
                return sympy.Function("at")(bv, iv)
            return self.fresh("[]")
        if k in ("CallExpr", "CXXOperatorCallExpr") and kids(n):
            cal = strip(kids(n)[0]) if k == "CallExpr" else (strip(kids(n)[1]) if len(kids(n)) > 1 else None)
            if cal is not None and cal.get("k") == "DeclRefExpr" and cal.get("did") in self.lambdas and (k == "CallExpr" or n.get("op") == "()"):
                lam = self.lambdas[cal["did"]]
                largs = kids(n)[1:] if k == "CallExpr" else kids(n)[2:]
                params = lam.get("params", [])
                lbody = [y for y in lam.get("c", []) if y is not None and y.get("k") == "CompoundStmt"]
                rets = [y for y in kids(lbody[0])] if lbody else []
                if len(params) == len(largs) and len(rets) == 1 and rets[0].get("k") == "ReturnStmt" and kids(rets[0]):
                    saved = {p_["did"]: self.env.get(p_["did"]) for p_ in params}
                    for p_, a in zip(params, largs):
                        self.env[p_["did"]] = self.eval(a)
                    val = self.eval(kids(rets[0])[0])
                    for d_, v_ in saved.items():
                        if v_ is None:
                            self.env.pop(d_, None)
                        else:
                            self.env[d_] = v_
                    return val
        if k in ("CallExpr", "CXXMemberCallExpr"):
            nm = tbf.callee_name(n) or "?"
            args = [self.eval(a) for a in tbf.call_args(n)]
            base = tbf.call_base(n)
            if nm in ("sqrt", "Sqrt") and len(args) == 1 and isinstance(args[0], sympy.Basic):
                return sympy.sqrt(args[0])
            if nm in ("pow", "Pow") and len(args) == 2 and all(isinstance(a, sympy.Basic) for a in args):
                return args[0] ** args[1]
            if nm in ("pow2",) and len(args) == 1:
                return sympy.Integer(2) ** args[0]
            if nm in ("abs", "Abs", "fabs") and len(args) == 1 and isinstance(args[0], sympy.Basic):
                return sympy.Abs(args[0])
            if nm in ("min", "max") and len(args) == 2 and all(isinstance(a, sympy.Basic) for a in args):
                return (sympy.Min if nm == "min" else sympy.Max)(*args)
            if nm == "size" and base is None and len(args) == 1 and isinstance(args[0], tuple) and args[0][0] != "array":
                return sympy.Integer(len(args[0]))
            # library helper with a single return statement: inline
            if base is None or strip(base).get("k") == "CXXThisExpr":
                cands = [g for g in self.facts.functions if g["name"] == nm and not g.get("inst") and tbf.body(g) is not None and len(g["params"]) == len(args)
                         and (g.get("cls") in (None, self.fn.get("cls")) or n.get("callee") == g["qname"])]
                if len(cands) == 1:
                    st = kids(tbf.body(cands[0]))
                    if len(st) == 1 and st[0].get("k") == "ReturnStmt":
                        sub = SymEval(self.facts, cands[0], self.int_members)
                        sub.members = self.members
                        for p, a in zip(cands[0]["params"], args):
                            sub.env[p["did"]] = a
                        return sub.eval(kids(st[0])[0])
            sa = [a if isinstance(a, sympy.Basic) else sympy.Symbol(str(a)[:40]) for a in args]
            if base is not None:
                bv = self.eval(base)
                if isinstance(bv, sympy.Basic):
                    return sympy.Function(nm)(bv, *sa)
                if isinstance(bv, tuple) and nm == "size":
                    return sympy.Integer(len(bv))
            return sympy.Function(nm)(*sa) if sa else sympy.Function(nm)(sympy.Symbol("void"))
        if k == "CXXNewExpr":
            return self.fresh("new")
        if k == "UnaryExprOrTypeTraitExpr":
            return psym("sizeof(%s)" % n.get("argtype", "?").replace(" ", ""), integer=True)
        if k == "CXXThisExpr":
            return sympy.Symbol("this")
        return self.fresh(k or "?")

    def _int_typed(self, n):
        t = (n.get("t") or "")
        return t in ("int", "long", "unsigned int", "unsigned long", "long long", "short", "const int", "const long")

    # ------------------------------------------------------------------ statements
    def assign(self, lhs, val, node):
        lhs = strip(lhs)
        k = lhs.get("k")
        if k == "DeclRefExpr":
            self.env[lhs["did"]] = val
            return
        if k in ("MemberExpr", "CXXDependentScopeMemberExpr") and (not kids(lhs) or strip(kids(lhs)[0]).get("k") == "CXXThisExpr"):
            self.members[lhs["name"]] = val
            return
        if k in ("ArraySubscriptExpr", "CXXOperatorCallExpr"):
            idx = []
            cur = lhs
            while cur.get("k") in ("ArraySubscriptExpr", "CXXOperatorCallExpr") and len(kids(cur)) >= 2:
                idx.insert(0, self.eval(kids(cur)[-1]))
                cur = strip(kids(cur)[-2])
            if cur.get("k") in ("MemberExpr", "CXXDependentScopeMemberExpr") and (not kids(cur) or strip(kids(cur)[0]).get("k") == "CXXThisExpr"):
                if not self.probe:
                    self.stores.append(Store(cur["name"], tuple(idx), val, list(self.loops), node))
                return
            if cur.get("k") == "DeclRefExpr" and cur.get("did") in self.arrays:
                self.arrays[cur["did"]][tuple(idx)] = val
                return
            if cur.get("k") == "DeclRefExpr" and cur.get("did") in self.env and isinstance(self.env[cur["did"]], tuple) and len(idx) == 1 \
                    and isinstance(idx[0], sympy.Basic) and idx[0].is_Integer:
                t = list(self.env[cur["did"]])
                if 0 <= int(idx[0]) < len(t):
                    t[int(idx[0])] = val
                    self.env[cur["did"]] = tuple(t)
                return
        if any(y.get("k") == "DeclRefExpr" and y.get("did") in self.pstate for y in walk(lhs)):
            return
        self.notes.append("assignment target not modelled: %s" % self.facts.ntext(lhs)[:60])

    def exec(self, s):
        if s is None:
            return
        k = s.get("k")
        if k == "CompoundStmt":
            for c in kids(s):
                self.exec(c)
            return
        if k == "DeclStmt":
            for v in kids(s):
                if v.get("k") != "VarDecl":
                    continue
                init = kids(v)
                t = v.get("t", "")
                if v.get("staticlocal") or (init and any(y.get("k") == "DeclRefExpr" and y.get("did") in self.pstate for y in walk(init[0]))):
                    # process-wide state (a cache of finished tables) and what is looked up in it: not part of what THIS kernel computes;
                    # whether sharing it is sound is the business of the key-completeness rule (c05.no_process_state)
                    self.pstate.add(v["did"])
                    continue
                if ("[" in t or "std::array<" in t.replace(" ", "")) and (not init or (strip(init[0]).get("k") in ("CXXConstructExpr", "InitListExpr", "CXXTemporaryObjectExpr", "ImplicitValueInitExpr", "CXXUnresolvedConstructExpr") and not kids(strip(init[0])))):
                    self.arrays[v["did"]] = {}
                    continue
                if init and strip(init[0]).get("k") == "LambdaExpr":
                    self.lambdas[v["did"]] = strip(init[0])
                    continue
                if init:
                    val = self.eval(init[0])
                    if "[" in t and isinstance(val, tuple) and val and val[0] not in ("array", "arrayrow"):
                        self.arrays[v["did"]] = {(sympy.Integer(i),): x for i, x in enumerate(val)}
                        continue
                    self.env[v["did"]] = val
                else:
                    self.env[v["did"]] = self.fresh("uninit:" + v["name"])
            return
        if k in ("BinaryOperator", "CompoundAssignOperator") and s.get("op") in ("=", "+=", "-=", "*=", "/=", "<<=", ">>="):
            lhs, rhs = kids(s)
            val = self.eval(rhs)
            if s["op"] != "=":
                cur = self.eval(lhs)
                if isinstance(cur, sympy.Basic) and isinstance(val, sympy.Basic):
                    val = {"+=": cur + val, "-=": cur - val, "*=": cur * val, "/=": cur / val, "<<=": cur * 2 ** val, ">>=": sympy.floor(cur / 2 ** val)}[s["op"]]
                else:
                    val = self.fresh(s["op"])
            self.assign(lhs, val, s)
            return
        if k == "BinaryOperator" and s.get("op") == ",":
            for c in kids(s):
                self.exec(c)
            return
        if k == "UnaryOperator" and s.get("op") in ("++", "--"):
            cur = self.eval(kids(s)[0])
            if isinstance(cur, sympy.Basic):
                self.assign(kids(s)[0], cur + (1 if s["op"] == "++" else -1), s)
            return
        if k in ("CallExpr", "CXXMemberCallExpr"):
            nm = tbf.callee_name(s)
            base = tbf.call_base(s)
            if nm == "reset" and base is not None and len(tbf.call_args(s)) == 1:
                b = strip(base)
                a = strip(tbf.call_args(s)[0])
                if b.get("k") in ("MemberExpr", "CXXDependentScopeMemberExpr") and a.get("k") == "CXXNewExpr" and kids(a):
                    if not self.probe:
                        self.allocs[b["name"]] = (self.eval(kids(a)[0]), a.get("alloctype", ""), s)
                    return
            # a void helper of the same class called as a statement: execute its body with bound parameters
            if base is None or strip(base).get("k") == "CXXThisExpr":
                cands = [g for g in self.facts.methods_of(self.fn.get("cls")) if g["name"] == nm and tbf.body(g) is not None and len(g["params"]) == len(tbf.call_args(s))]
                if len(cands) == 1 and cands[0] is not self.fn and len(self.loops) < 6:
                    g = cands[0]
                    for p, a in zip(g["params"], tbf.call_args(s)):
                        self.env[p["did"]] = self.eval(a)
                    saved = self.fn
                    self.exec(tbf.body(g))
                    self.fn = saved
                    return
            self.eval(s)
            return
        if k == "IfStmt" and any(y.get("k") == "DeclRefExpr" and y.get("did") in self.pstate for y in walk(s["c"][0])):
            th = s["c"][1] if len(s["c"]) > 1 else None
            el = s["c"][2] if len(s["c"]) > 2 else None
            if th is not None and any(y.get("k") == "ReturnStmt" for y in walk(th)) and el is None:
                self.cache_paths.append(s)      # hit: this kernel takes tables an earlier kernel with the same key built along the path below
                return
            self.notes.append("branch on process-wide state not modelled at %s" % self.facts.loc(s))
            return
        if k == "IfStmt":
            c = self.eval(s["c"][0])
            th = s["c"][1] if len(s["c"]) > 1 else None
            el = s["c"][2] if len(s["c"]) > 2 else None
            if c == sympy.true:
                self.exec(th)
            elif c == sympy.false:
                self.exec(el)
            else:
                # symbolic condition: both sides are executed; scalars assigned on either side become opaque
                before = dict(self.env)
                self.exec(th)
                a = dict(self.env)
                self.env = dict(before)
                self.exec(el)
                for d, v in a.items():
                    if self.env.get(d) != v:
                        self.env[d] = self.fresh("branch")
            return
        if k == "ForStmt":
            self.exec_for(s)
            return
        if k in ("NullStmt", "ReturnStmt"):
            return
        if k in ("WhileStmt", "DoStmt", "CXXForRangeStmt", "SwitchStmt"):
            self.havoc(s)
            self.notes.append("loop form not summarised at %s" % self.facts.loc(s))
            return
        self.eval(s)

    def havoc(self, s):
        for x in walk(s):
            if x.get("k") in ("BinaryOperator", "CompoundAssignOperator") and x.get("op", "").endswith("=") and x.get("op") not in ("==", "!=", "<=", ">="):
                l = strip(kids(x)[0])
                if l.get("k") == "DeclRefExpr" and l.get("did") in self.env:
                    self.env[l["did"]] = self.fresh("havoc")

    def exec_for(self, s):
        init, cond, inc, body = s["c"]
        vs = [v for v in kids(init) if v.get("k") == "VarDecl"] if init is not None and init.get("k") == "DeclStmt" else []
        if len(vs) != 1 or cond is None or not kids(vs[0]):
            self.havoc(s)
            self.notes.append("for loop without a single induction variable at %s" % self.facts.loc(s))
            return
        var = vs[0]
        start = self.eval(kids(var)[0])
        c0 = strip(cond)
        # `a && i < b` conditions: keep the conjunct on the induction variable
        conj = []

        def flat(x):
            x = strip(x)
            if x.get("k") == "BinaryOperator" and x.get("op") == "&&":
                flat(kids(x)[0])
                flat(kids(x)[1])
            else:
                conj.append(x)
        flat(c0)
        test = [x for x in conj if x.get("k") == "BinaryOperator" and x.get("op") in ("<", "<=", ">", ">=", "!=") and (strip(kids(x)[0]).get("did") == var["did"] or strip(kids(x)[1]).get("did") == var["did"])]
        if len(test) != 1:
            self.havoc(s)
            self.notes.append("loop condition not on the induction variable at %s" % self.facts.loc(s))
            return
        t0 = test[0]
        op = t0["op"]
        if strip(kids(t0)[0]).get("did") == var["did"]:
            bound = self.eval(kids(t0)[1])
        else:
            bound = self.eval(kids(t0)[0])
            op = {"<": ">", "<=": ">=", ">": "<", ">=": "<=", "!=": "!="}[op]
        incs = []

        def flat_inc(x):
            x = strip(x)
            if x is None:
                return
            if x.get("k") == "BinaryOperator" and x.get("op") == ",":
                flat_inc(kids(x)[0])
                flat_inc(kids(x)[1])
            else:
                incs.append(x)
        flat_inc(inc)
        step = None
        extra = []
        for x in incs:
            tgt = strip(kids(x)[0]) if kids(x) else None
            if tgt is not None and tgt.get("did") == var["did"]:
                if x.get("k") == "UnaryOperator" and x.get("op") in ("++", "--"):
                    step = 1 if x["op"] == "++" else -1
                elif x.get("k") == "CompoundAssignOperator" and x.get("op") in ("+=", "-="):
                    sv = self.eval(kids(x)[1])
                    if sv == 1:
                        step = 1 if x["op"] == "+=" else -1
            else:
                extra.append(x)
        if step is None or not isinstance(start, sympy.Basic) or not isinstance(bound, sympy.Basic):
            self.havoc(s)
            self.notes.append("loop step not recognised at %s" % self.facts.loc(s))
            return
        if step == 1:
            lo, hi = start, (bound - 1 if op in ("<", "!=") else bound)
            if op not in ("<", "<=", "!="):
                self.havoc(s)
                return
        else:
            hi, lo = start, (bound + 1 if op in (">", "!=") else bound)
            if op not in (">", ">=", "!="):
                self.havoc(s)
                return
        stmts = [body] + extra
        if lo.is_Integer and hi.is_Integer:
            n = int(hi) - int(lo) + 1
            if n > MAX_UNROLL:
                raise AnalysisBroken("loop at %s has %d iterations: not unrolled" % (self.facts.loc(s), n))
            rng = range(int(lo), int(hi) + 1) if step == 1 else range(int(hi), int(lo) - 1, -1)
            for i in rng:
                self.env[var["did"]] = sympy.Integer(i)
                for st in stmts:
                    self.exec(st)
            self.env.pop(var["did"], None)
            return
        # ---- symbolic loop: closed forms of the carried scalars
        isym = sympy.Symbol("%s#%d" % (var["name"], var["did"]), integer=True)
        k = (isym - start) if step == 1 else (start - isym)
        trip = hi - lo + 1
        assigned = set()
        for st in stmts:
            for x in walk(st):
                if x.get("k") in ("BinaryOperator", "CompoundAssignOperator") and x.get("op", "").endswith("=") and x.get("op") not in ("==", "!=", "<=", ">="):
                    l = strip(kids(x)[0])
                    if l.get("k") == "DeclRefExpr":
                        assigned.add(l.get("did"))
                if x.get("k") == "UnaryOperator" and x.get("op") in ("++", "--"):
                    l = strip(kids(x)[0])
                    if l.get("k") == "DeclRefExpr":
                        assigned.add(l.get("did"))
        outer = [d for d, v in self.env.items() if isinstance(v, sympy.Basic) and d != var["did"] and d in assigned]
        ins = {d: sympy.Symbol("in#%d" % d) for d in outer}
        saved_env = dict(self.env)
        saved_members = dict(self.members)
        saved_arrays = {d: dict(a) for d, a in self.arrays.items()}
        was_probe = self.probe
        self.probe = True
        for d in outer:
            self.env[d] = ins[d]
        self.env[var["did"]] = isym
        self.loops.append((isym, lo, hi))
        for st in stmts:
            self.exec(st)
        self.loops.pop()
        after = dict(self.env)
        self.probe = was_probe
        self.env = dict(saved_env)
        self.members = saved_members
        self.arrays = saved_arrays
        closed, final = {}, {}
        carried_syms = set(ins.values())
        for d in outer:
            out = after.get(d)
            if out is None or out == ins[d]:
                continue
            v0 = saved_env[d]
            form = None
            if isinstance(out, sympy.Basic):
                ratio = sympy.cancel(out / ins[d])
                diff = sympy.expand(out - ins[d])
                if not (ratio.free_symbols & (carried_syms | {isym})) and not ratio.has(sympy.Function):
                    form = lambda kk, v0=v0, ratio=ratio: v0 * ratio ** kk
                elif not (diff.free_symbols & (carried_syms | {isym})):
                    form = lambda kk, v0=v0, diff=diff: v0 + diff * kk
            if form is None:
                closed[d] = self.fresh("carried")
                final[d] = self.fresh("carried")
            else:
                closed[d] = form(k)
                final[d] = form(trip)
        for d, v in closed.items():
            self.env[d] = v
        self.env[var["did"]] = isym
        self.loops.append((isym, lo, hi))
        for st in stmts:
            self.exec(st)
        self.loops.pop()
        for d, v in final.items():
            self.env[d] = v
        self.env.pop(var["did"], None)


def as_tuple(ev, v):
    """a local array value as a tuple of its elements (indices 0..n-1 all defined), else v"""
    if isinstance(v, tuple) and v and v[0] == "array":
        arr = ev.arrays.get(v[1], {})
        keys = sorted(int(k_[0]) for k_ in arr if len(k_) == 1 and isinstance(k_[0], sympy.Basic) and k_[0].is_Integer)
        if keys and keys == list(range(len(keys))):
            return tuple(arr[(sympy.Integer(i),)] for i in keys)
    return v


def run_function(facts, fn, int_members=(), members=None):
    ev = SymEval(facts, fn, int_members)
    if members:
        ev.members.update(members)
    ev.exec(tbf.body(fn))
    return ev
