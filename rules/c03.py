"""C03 — task-parallel executors equal the sequential one under every legal schedule."""
import tbf
import omp

LEVEL = "other"
TECHNIQUE = "capture-lifetime / dependence-vs-effect / submission-summary analysis over the clang AST (libTooling)"

OMP_CLASSES = ["TbfOpenmpAlgorithm", "TbfOpenmpAlgorithmTsm"]


def run(res, tier):
    facts = tbf.scan("core")
    res.units.append("umbrella TU 'core' (%d headers, %d function patterns)" % (len(facts.headers), len(facts.functions)))
    res.rule("C03.c capture lifetime: a deferred task touches only firstprivate copies, its own locals, `this` outside lambdas and reference parameters of the stage function")
    ntasks = 0
    for cls in OMP_CLASSES:
        ms = facts.methods_of(cls)
        if not ms:
            raise tbf.AnalysisBroken("class %s has no methods in the core umbrella" % cls)
        for fn in ms:
            ntasks += omp.check_capture_lifetime(facts, fn, res)
    # any other task directive in the library is analysed too (new executors are not silently skipped)
    for fn in facts.functions:
        if fn.get("cls") in OMP_CLASSES or fn.get("inst"):
            continue
        ntasks += omp.check_capture_lifetime(facts, fn, res)
    res.floor("C03.c", ntasks, 14, "omp task directives")
