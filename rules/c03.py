"""C03 — task-parallel executors equal the sequential one under every legal schedule.

Decided clauses (each a necessary condition, see DESIGN.md §2 C03):
 (a) same submissions as the sequential reference (wrapper calls with argument origins)
 (b) declared dependencies cover the effects of the task body
 (c) capture lifetime of everything a deferred task dereferences
 (d) per-worker kernel selected inside the task
 (e) all tasks joined before execute() returns; stage functions reachable only from execute()
quick: the two OpenMP executors; thorough: also Specx (a,b,c-captures,d,e) and StarPU through the
declaration-only stub headers.
"""
import os
import re
import tbf
import omp
import stages
import effects
import taskdeps
from tbf import walk, kids, strip, AnalysisBroken

LEVEL = "other"
TECHNIQUE = "capture-lifetime / dependence-vs-effect (canonical block handle vs element address) / submission-summary rules over the clang AST (libTooling)"

PAIRS = [("TbfOpenmpAlgorithm", "TbfAlgorithm"), ("TbfOpenmpAlgorithmTsm", "TbfAlgorithmTsm")]
SPECX_PAIRS = [("TbfSmSpecxAlgorithm", "TbfAlgorithm"), ("TbfSmSpecxAlgorithmTsm", "TbfAlgorithmTsm")]
STAGES = ["P2M", "M2M", "M2L", "L2L", "L2P", "P2P"]


def same_submissions(facts, par, ref, res):
    """(a) per stage: the set of wrapper applications (method + argument origins) equals the reference's"""
    n = 0
    for stage in STAGES:
        if stage not in par.stages or stage not in ref.stages:
            raise AnalysisBroken("stage %s missing in %s or %s" % (stage, par.cls, ref.cls))
        ps, rs = par.stages[stage], ref.stages[stage]
        a, b = set(ps.call_signatures()), set(rs.call_signatures())
        n += 1
        res.instance("C03.a.same-submissions", "%s::%s vs %s::%s" % (par.cls, stage, ref.cls, stage), facts.loc(ps.fn),
                     "%d wrapper applications: %s" % (len(a), sorted(m for m, _ in a)))
        for m, args in sorted(a - b):
            cand = [x for x in b if x[0] == m]
            why = "no such application in the reference"
            if cand:
                diffs = [i for i, (x, y) in enumerate(zip(args, cand[0][1])) if x != y]
                why = "argument slot(s) %s differ from %s::%s: here %s, reference %s" % (
                    diffs, ref.cls, stage, [taskdeps.short(args[i]) for i in diffs], [taskdeps.short(cand[0][1][i]) for i in diffs])
            node = [c["node"] for c in ps.wrapper_calls if c["method"] == m and tuple(c["args"]) == args][0]
            res.violation("C03.a.same-submissions", tbf.rel(facts.path_of(node)), ps.fn["qname"], m, node["l"][1],
                          "wrapper application %s(...) is not submitted by the sequential reference: %s" % (m, why))
        for m, args in sorted(b - a):
            if any(x[0] == m for x in a - b):
                continue   # already reported as a differing application
            res.violation("C03.a.same-submissions", tbf.rel(facts.path_of(ps.fn)), ps.fn["qname"], m + ":missing", ps.fn["l"][1],
                          "the sequential reference submits %s(...) in stage %s, this executor does not" % (m, stage))
        # level interval, guards and list builders must agree too
        la = [(str(l["lo"]), str(l["hi"])) for l in ps.level_loops]
        lb = [(str(l["lo"]), str(l["hi"])) for l in rs.level_loops]
        if sorted(la) != sorted(lb):
            res.violation("C03.a.same-submissions", tbf.rel(facts.path_of(ps.fn)), ps.fn["qname"], "level-interval", ps.fn["l"][1],
                          "level interval %s differs from the reference's %s" % (la, lb))
        ga = sorted((str(g["expr"]), g["op"]) for g in ps.guards)
        gb = sorted((str(g["expr"]), g["op"]) for g in rs.guards)
        if ga != gb:
            res.violation("C03.a.same-submissions", tbf.rel(facts.path_of(ps.fn)), ps.fn["qname"], "stage-guard", ps.fn["l"][1],
                          "stage guard %s differs from the reference's %s" % (ga, gb))
        import cursor
        cursor.compare(facts, res, "C03.a.same-walk", rs.fn, ps.fn, "walk over the groups of stage %s" % stage)
        ma = sorted(m["descr"] for m in ps.mapper_calls)
        mb = sorted(m["descr"] for m in rs.mapper_calls)
        if ma != mb:
            res.violation("C03.a.same-submissions", tbf.rel(facts.path_of(ps.fn)), ps.fn["qname"], "mapper", ps.fn["l"][1],
                          "group-mapper calls differ from the reference: %s vs %s" % ([taskdeps.short(x) for x in ma], [taskdeps.short(x) for x in mb]))
    return n


def join_rule(facts, ex, res, kind):
    """(e) stage functions that create tasks are called only from execute(), inside the region that joins them"""
    fm = ex.exec_model
    stage_names = set(ex.stages)
    n = 0
    creators = []
    for c in walk(fm.body):
        if c.get("k") in ("CallExpr", "CXXMemberCallExpr") and ex._self_call(c) in stage_names:
            n += 1
            ok = False
            if kind == "omp":
                ok = any(a.get("k") == "OMPParallelDirective" for a in tbf.ancestors(c))
                how = "inside the `omp parallel` region of execute() (its closing barrier / the trailing taskwait joins every task)"
            else:
                # specx: a waitAllTasks() call follows, in the same compound statement, every stage call
                how = "followed by runtime.waitAllTasks() on every path of execute()"
                waits = [w for w in walk(fm.body) if w.get("k") in ("CallExpr", "CXXMemberCallExpr") and tbf.callee_name(w) in ("waitAllTasks", "starpu_task_wait_for_all")]
                ok = any(w["l"][1] > c["l"][1] and not any(a.get("k") in ("IfStmt", "ForStmt", "WhileStmt") for a in tbf.ancestors(w)) for w in waits)
                rets = [r for r in walk(fm.body) if r.get("k") == "ReturnStmt" and r["l"][1] > c["l"][1]]
                if rets and waits and min(r["l"][1] for r in rets) < max(w["l"][1] for w in waits):
                    ok = False
            if kind == "omp":
                # the nearest construct whose implicit / explicit task generates the stage's tasks: a stage call wrapped in its own `omp task`
                # makes that task the parent of everything the stage submits
                creator = [a for a in tbf.ancestors(c) if a.get("k") in ("OMPMasterDirective", "OMPSingleDirective", "OMPMaskedDirective", "OMPSectionDirective", "OMPTaskDirective", "OMPTaskLoopDirective")][:1]
                if not creator:
                    # the first structured block of `omp sections` needs no `omp section` pragma: it is a section (one thread) of its own
                    creator = [a for a in tbf.ancestors(c) if a.get("k") == "OMPSectionsDirective"]
                par = [a for a in tbf.ancestors(c) if a.get("k") == "OMPParallelDirective"]
                if ok and not creator:
                    res.violation("C03.e.join", tbf.rel(facts.path_of(c)), ex.cls + "::execute", ex._self_call(c) + ":every-thread", c["l"][1],
                                  "stage call inside `omp parallel` but outside any master / single construct: every thread of the team submits the stage's tasks")
                creators.append((creator[0] if creator else None, c))
            res.instance("C03.e.join", "%s::execute -> %s" % (ex.cls, ex._self_call(c)), facts.loc(c), how)
            if not ok:
                res.violation("C03.e.join", tbf.rel(facts.path_of(c)), ex.cls + "::execute", ex._self_call(c), c["l"][1],
                              "stage call is not " + how)
    # one creator: `depend` clauses order sibling tasks only, i.e. tasks generated by the same (implicit) task
    regions = {}
    for cr, c in creators:
        if cr is not None:
            regions.setdefault(id(cr), (cr, []))[1].append(c)
    if len(regions) > 1:
        rs = sorted(regions.values(), key=lambda r: -len(r[1]))
        for cr, calls in rs[1:]:
            for c in calls:
                res.violation("C03.e.join", tbf.rel(facts.path_of(c)), ex.cls + "::execute", ex._self_call(c) + ":other-creator", c["l"][1],
                              "stage %s is submitted from the `%s` construct at line %d while %s are submitted from the one at line %d: the two constructs may be executed by different threads, "
                              "their tasks are not siblings, and the depend clauses of one set do not order it with the other (both update the same particle results)" % (
                                  ex._self_call(c), cr["k"].replace("OMP", "omp ").replace("Directive", "").lower(), cr["l"][1], sorted(set(ex._self_call(x) for x in rs[0][1])), rs[0][0]["l"][1]))
    # reachable only from execute
    for m in facts.methods_of(ex.cls):
        if m["name"] == "execute":
            continue
        b = tbf.body(m)
        if b is None:
            continue
        for c in walk(b):
            if c.get("k") in ("CallExpr", "CXXMemberCallExpr") and ex._self_call(c) in stage_names:
                res.violation("C03.e.join", tbf.rel(facts.path_of(c)), m["qname"], ex._self_call(c), c["l"][1],
                              "task-creating stage function called outside execute(): its tasks are not joined")
    return n


def only_through_stages(facts, ex, res, R="C03.a.same-submissions"):
    """(a) third part: execute() touches the tree only through its stage functions.  Any other call in execute() that is handed the
    tree (a delegate algorithm, a helper) is an execution path of its own: it does not use the per-worker kernel objects the
    executor owns (what applyToAllKernels visits), its operator applications are not the ones compared with the reference, and an
    early return behind it skips the stages."""
    fm = ex.exec_model
    tree = ex.execute["params"][0]["did"] if ex.execute.get("params") else None
    n = 0
    for c in walk(fm.body):
        if c.get("k") not in ("CallExpr", "CXXMemberCallExpr"):
            continue
        if ex._self_call(c) in ex.stages:
            n += 1
            continue
        for a in tbf.call_args(c):
            a0 = strip(a)
            if a0 is not None and a0.get("k") == "DeclRefExpr" and a0.get("did") == tree:
                res.violation(R, tbf.rel(facts.path_of(c)), ex.cls + "::execute", "bypass:%s" % (tbf.callee_name(c) or "?"), c["l"][1],
                              "execute() hands the tree to `%s`, which is not one of its stage functions: the work done there does not go through the executor's stages and per-worker kernels "
                              "(kernel state such as interaction counters stays in whatever object that call uses, and the submissions are not those of the reference)" % facts.ntext(c)[:80])
    # copies of a per-worker kernel: constructing anything from an element of the kernel vector
    for c in walk(fm.body):
        if c.get("k") in ("VarDecl",) and kids(c):
            t = facts.ntext(c)
            for y in walk(c):
                if y.get("k") in ("MemberExpr", "CXXDependentScopeMemberExpr") and y.get("name") == "kernels" and (not kids(y) or strip(kids(y)[0]).get("k") == "CXXThisExpr"):
                    p_ = y.get("_p")
                    if p_ is not None and p_.get("k") in ("CXXDependentScopeMemberExpr", "MemberExpr") and p_.get("name") in ("front", "back", "at"):
                        res.violation(R, tbf.rel(facts.path_of(c)), ex.cls + "::execute", "kernel-copy:%s" % c.get("name"), c["l"][1],
                                      "`%s` is constructed from an element of the per-worker kernel vector: operators applied through it update a copy that applyToAllKernels never visits" % t[:90])
    return n


OMP_DEPEND_TYPES = {"in", "out", "inout", "mutexinoutset", "inoutset", "depobj"}


def commute_macro(facts, res, tier, R="C03.f.commute-macro"):
    """The OpenMP executors write `depend(commute: x)` and define `commute` per OpenMP version.  Whatever it expands to must be a dependence
    type of that OpenMP version that ORDERS writers (inout, or mutexinoutset from 5.0 on): a misspelt keyword is a syntax error for every
    compiler that reports that version (clang 14 reports 5.0 by default), `in` would let the accumulating tasks of a block run concurrently.
    Decided on the preprocessor text of both headers, plus a compile witness of the two executors with clang's default OpenMP version."""
    import witness
    n = 0
    for h in ("src/algorithms/openmp/tbfopenmpalgorithm.hpp", "src/algorithms/openmp/tbfopenmpalgorithmtsm.hpp"):
        txt = open(os.path.join(tbf.REPO, h)).read()
        defs = [(m.start(), m.group(1)) for m in re.finditer(r"^[ \t]*#[ \t]*define[ \t]+commute[ \t]+(\w+)", txt, re.M)]
        if not defs:
            raise AnalysisBroken("%s: no `#define commute ...` found (confirmed by reading)" % h)
        for pos, val in defs:
            n += 1
            line = txt.count("\n", 0, pos) + 1
            res.instance(R, "%s:%d" % (h, line), "%s:%d" % (h, line), "commute -> %s" % val)
            if val not in OMP_DEPEND_TYPES:
                res.violation(R, h, "<preprocessor>", "commute=%s@%s" % (val, h.split("/")[-1]), line,
                              "`commute` is defined as `%s`, which is not an OpenMP dependence type (in, out, inout, mutexinoutset, ...): every `depend(commute: ...)` clause of the executor is a syntax error for a compiler that takes this branch (clang 14 reports OpenMP 5.0 = 201811 by default)" % val)
            elif val not in ("inout", "mutexinoutset"):
                res.violation(R, h, "<preprocessor>", "commute=%s@%s" % (val, h.split("/")[-1]), line, "`commute` is defined as `%s`, which does not order the tasks that accumulate into the same block" % val)
    tu = witness.HEADERS + """
#include "algorithms/openmp/tbfopenmpalgorithm.hpp"
#include "algorithms/openmp/tbfopenmpalgorithmtsm.hpp"
#include "kernels/testkernel/tbftestkernel.hpp"
using RealType = double;
void witnessOpenmp(const TbfSpacialConfiguration<RealType, 3>& conf, TbfTree<RealType, RealType, 3, long int, 1, std::array<long int,1>, std::array<long int,1>>& tree){
    TbfOpenmpAlgorithm<RealType, TbfTestKernel<RealType>> algorithm(conf);
    algorithm.execute(tree);
}
"""
    rc, err = tbf.compile_witness(tu, compiler="clang++", name="c03_openmp_default.cpp", max_errors=4, clang_default_openmp=True)
    res.instance(R, "clang++ default OpenMP version", "witness:c03_openmp_default", "TbfOpenmpAlgorithm instantiated and executed: rc=%d" % rc)
    if rc != 0:
        f, line, msg, _ = witness.first_src_error(err)
        res.violation(R, f, "<witness c03_openmp_default>", "%s:%d" % (f, line), line, "the OpenMP executor does not compile with clang's default OpenMP version: " + msg[:240])
    return n


def kernels_sized(facts, ex, res, worker_count_call):
    """(d) second half: the per-worker kernel vector is grown to the runtime's worker count in execute()
    before any task is created"""
    fm = ex.exec_model
    first_stage = min([c["l"][1] for c in walk(fm.body) if c.get("k") in ("CallExpr", "CXXMemberCallExpr") and ex._self_call(c) in ex.stages] or [10 ** 9])
    grow = [c for c in walk(fm.body) if c.get("k") in ("CallExpr", "CXXMemberCallExpr") and ex._self_call(c) == "increaseNumberOfKernels"]
    ok = any(c["l"][1] < first_stage for c in grow)
    res.instance("C03.d.kernels-sized", ex.cls + "::execute", facts.loc(ex.execute), "increaseNumberOfKernels() before the first stage: %s" % ok)
    if not ok:
        res.violation("C03.d.kernels-sized", tbf.rel(facts.path_of(ex.execute)), ex.cls + "::execute", "increaseNumberOfKernels", ex.execute["l"][1],
                      "per-worker kernel vector is not grown to the worker count before tasks are created")
        return
    inc = [m for m in facts.methods_of(ex.cls) if m["name"] == "increaseNumberOfKernels"]
    if len(inc) != 1:
        raise AnalysisBroken(ex.cls + "::increaseNumberOfKernels not found")
    txt = facts.ntext(tbf.body(inc[0]))
    if worker_count_call == "param":
        ok2 = True
    else:
        ok2 = worker_count_call in txt
    if not ok2 or "emplace_back" not in txt and "push_back" not in txt and "resize" not in txt:
        res.violation("C03.d.kernels-sized", tbf.rel(facts.path_of(inc[0])), inc[0]["qname"], "worker-count", inc[0]["l"][1],
                      "increaseNumberOfKernels does not grow the vector up to %s" % worker_count_call)


def per_worker_kernel(facts, ex, res, wid_calls):
    """(d) first half: inside a task the kernel argument is K[worker-id()], the id call being evaluated
    in the task body (not at creation, where it would name the creating thread)"""
    for name, st in ex.stages.items():
        for c in st.wrapper_calls:
            if c["in_task"] is None:
                continue
            args = tbf.call_args(c["node"])
            ok = False
            for a, o in zip(args, c["args"]):
                if o == "K" and any(x.get("k") == "CallExpr" and tbf.callee_name(x) in wid_calls for x in walk(a)):
                    ok = True
            res.instance("C03.d.per-worker-kernel", "%s %s" % (st.fn["qname"], c["method"]), facts.loc(c["node"]), facts.ntext(c["node"])[:110])
            if not ok:
                res.violation("C03.d.per-worker-kernel", tbf.rel(facts.path_of(c["node"])), st.fn["qname"], c["method"], c["node"]["l"][1],
                              "wrapper call inside a task does not select the kernel by the executing worker's id evaluated in the task body (got: %s)" % [o for o in c["args"] if "kernel" in o.lower() or o == "K"])


def shared_wrapper_immutable(facts, res):
    """(d) third part: the group-kernel wrapper is one object shared by every task of an executor, so it
    must carry no state a task can change: no `mutable` member, every operator method const, and no
    method writes a member"""
    R = "C03.d.shared-wrapper-immutable"
    cls = facts.cls("TbfGroupKernelInterface")
    f = tbf.rel(facts.path_of(cls))
    for fl in cls["fields"]:
        res.instance(R, "field " + fl["name"], facts.loc(fl) if fl.get("l") else f, "type %s mutable=%s" % (fl["t"], bool(fl.get("mutable"))))
        if fl.get("mutable"):
            res.violation(R, f, "TbfGroupKernelInterface", "mutable:" + fl["name"], fl.get("l", [0, 0])[1],
                          "member '%s' of the wrapper shared by all tasks is mutable: concurrent operator calls overwrite each other's state" % fl["name"])
        elif not fl["t"].startswith("const "):
            res.violation(R, f, "TbfGroupKernelInterface", "nonconst:" + fl["name"], fl.get("l", [0, 0])[1],
                          "member '%s' of the wrapper shared by all tasks is not const" % fl["name"])
    names = set(fl["name"] for fl in cls["fields"])
    n = 0
    for m in facts.methods_of("TbfGroupKernelInterface"):
        if m["kind"] != "CXXMethod":
            continue
        n += 1
        if not m.get("const") and not m.get("static"):      # (a static helper has no object to modify)
            res.violation(R, tbf.rel(facts.path_of(m)), m["qname"], "nonconst-method", m["l"][1], "wrapper operator %s is not const although the wrapper is shared by concurrent tasks" % m["name"])
        for x in walk(tbf.body(m)):
            if x.get("k") in ("VarDecl",) and x.get("staticlocal"):
                res.violation(R, tbf.rel(facts.path_of(x)), m["qname"], "static:" + x["name"], x["l"][1], "function-local static '%s' in a wrapper operator is shared by concurrent tasks" % x["name"])
    res.floor(R, n, 10, "wrapper operator methods")


def run(res, tier):
    facts = tbf.scan("core")
    res.units.append("umbrella TU 'core' (%d headers, %d function patterns)" % (len(facts.headers), len(facts.functions)))
    res.rule("C03.a same submissions: per stage the set of wrapper applications (method, origin of every argument), level interval, guard and mapper calls equal the sequential reference's")
    res.rule("C03.a same walk: per stage the control skeleton (loop conditions, branch conditions, which cursor each branch advances, where operators are submitted) equals the sequential reference's")
    res.rule("C03.b deps cover effects: every (group, memory block) a task's wrapper calls write has an inout/commute dependency, every read of a block some task writes has at least `in`")
    res.rule("C03.c capture lifetime: a deferred task touches only firstprivate copies, its own locals, `this` outside lambdas and reference parameters of the stage function")
    res.rule("C03.d per-worker kernel: wrapper calls inside tasks use K[worker-id()] evaluated in the body; K grown to the worker count before submission")
    res.rule("C03.e join: task-creating stage functions are called only from execute(), inside the joining region")
    cmap = effects.container_map(facts)
    weff = effects.wrapper_effects(facts, cmap)
    shared_wrapper_immutable(facts, res)
    ntasks = 0
    nunits = 0
    for cls, refcls in PAIRS:
        ex = stages.ExecutorSummary(facts, cls)
        ref = stages.ExecutorSummary(facts, refcls)
        same_submissions(facts, ex, ref, res)
        for name, st in ex.stages.items():
            nunits += taskdeps.check_stage(st, weff, cmap, res)
            for c in st.wrapper_calls:
                if c["in_task"] is None:
                    res.violation("C03.a.same-submissions", tbf.rel(facts.path_of(c["node"])), st.fn["qname"], c["method"] + ":untasked", c["node"]["l"][1],
                                  "wrapper call executed by the creating thread outside any task: it is not ordered with the tasks touching the same blocks")
        join_rule(facts, ex, res, "omp")
        only_through_stages(facts, ex, res)
        kernels_sized(facts, ex, res, "omp_get_max_threads")
        for fn in facts.methods_of(cls):
            ntasks += omp.check_capture_lifetime(facts, fn, res)
        per_worker_kernel(facts, ex, res, ("omp_get_thread_num",))
    for fn in facts.functions:
        if fn.get("cls") in [p[0] for p in PAIRS] or fn.get("inst"):
            continue
        ntasks += omp.check_capture_lifetime(facts, fn, res)
    res.floor("C03.c", ntasks, 14, "omp task directives")
    res.floor("C03.b", nunits, 14, "task units with wrapper calls")
    res.rule("C03.f the `commute` dependence type of the OpenMP executors expands, in every version branch, to an OpenMP dependence type that orders writers (inout / mutexinoutset); compile witness with clang's default OpenMP version")
    res.floor("C03.f", commute_macro(facts, res, tier), 4, "`#define commute` branches")

    if tier in ("quick", "thorough"):      # the Specx / StarPU executors (declaration stubs) are analysed on every run: the unit tests never compile them, so nothing else would notice a change there
        import c03_runtimes
        c03_runtimes.run(res, weff_core=weff)
