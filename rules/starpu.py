"""StarPU executor rules (thorough tier) — placeholder filled in below."""
def run_c03(res):
    pass
