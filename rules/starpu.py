"""StarPU executor rules (thorough tier of C03), parsed through the declaration-only stub starpu.h.

 S1 codelet table vs submission: each starpu_insert_task(&cl, ...) passes exactly cl.nbuffers
    (mode, handle) pairs whose modes equal cl.modes[i]
 S2 pack / unpack agreement: the STARPU_VALUE sequence and the callback's starpu_codelet_unpack_args
    agree in count, order and byte size
 S3 effects vs access modes: in the callback bound to the codelet, buffers[i] feeds (pointer and size
    from the same i) one memory block of one container; every block the wrapper call writes is
    backed by a buffer submitted RW (commute), every block it reads by some buffer
 S4 handle slot vs block: the handle passed at position i is slot k of the handle array and slot k
    was registered (handle builder) for the block the callback uses buffers[i] as; parent/child
    handles come from level L / L+1
 S5 join: starpu_task_wait_for_all() follows every stage call and precedes the release of the
    index buffers and handles;  S6 per-worker kernel selected by starpu_worker_get_id() in callbacks
"""
import re

import tbf
import stages
import effects
import coherence
from tbf import walk, kids, strip, AnalysisBroken

CLASSES = [("TbfSmStarpuAlgorithm", "TbfStarPUHandleBuilder"), ("TbfSmStarpuAlgorithmTsm", "TbfStarPUHandleBuilderTsm")]
BLOCK_OF_PTR = {"getDataPtr": "objectData", "getMultipolePtr": "objectMultipole", "getLocalPtr": "objectLocal", "getRhsPtr": "objectRhs"}


def norm_mode(t):
    t = t.replace(" ", "")
    if "STARPU_RW" in t or "STARPU_W" in t:
        return "RW+COMMUTE" if "COMMUTE" in t else "RW"
    if "STARPU_R" in t:
        return "R"
    return "?" + t


def codelets(facts, cls):
    fn = [m for m in facts.methods_of(cls) if m["name"] == "initCodelet"]
    if len(fn) != 1:
        raise AnalysisBroken("%s::initCodelet not found" % cls)
    out = {}
    for x in walk(tbf.body(fn[0])):
        if x.get("k") in ("BinaryOperator", "CompoundAssignOperator") and x.get("op") in ("=", "|="):
            lhs = facts.ntext(kids(x)[0])
            rhs = facts.ntext(kids(x)[1])
            m = re.match(r"^(\w+)\.(\w+)(?:\[(\d+)\])?$", lhs)
            if not m:
                continue
            cl = out.setdefault(m.group(1), {"modes": {}, "node": x})
            if m.group(2) == "nbuffers":
                cl["nbuffers"] = int(rhs)
            elif m.group(2) == "modes":
                cl["modes"][int(m.group(3))] = norm_mode(rhs)
            elif m.group(2) == "cpu_funcs":
                mm = re.search(r"::(\w+Callback)", rhs)
                cl["callback"] = mm.group(1) if mm else rhs
    return {k: v for k, v in out.items() if "nbuffers" in v}


def parse_insert(facts, fm, call):
    args = tbf.call_args(call)
    cl = facts.ntext(args[0]).lstrip("&")
    values, buffers = [], []
    i = 1
    while i < len(args):
        t = facts.ntext(args[i])
        if t == "STARPU_VALUE":
            v = strip(args[i + 1])
            var = strip(kids(v)[0]) if v.get("k") == "UnaryOperator" and v.get("op") == "&" else v
            d = fm.decls.get(var.get("did")) if var.get("k") == "DeclRefExpr" else None
            values.append({"var": var.get("name", facts.ntext(var)), "size": facts.ntext(args[i + 2]), "type": (d or {}).get("t", var.get("t", "?")), "node": args[i + 1]})
            i += 3
        elif t in ("STARPU_PRIORITY", "STARPU_NAME"):
            i += 2
        elif "STARPU_R" in t or "STARPU_W" in t:
            buffers.append({"mode": norm_mode(t), "handle": facts.ntext(args[i + 1]), "node": args[i + 1]})
            i += 2
        elif t == "0":
            i += 1
        else:
            raise AnalysisBroken("%s: unrecognised starpu_insert_task argument '%s'" % (facts.loc(args[i]), t))
    return cl, values, buffers


SIZE_CLASS = [(r"sizeof\(void\*\)", "ptr"), (r"sizeof\(size_t\)", "size_t"), (r"sizeof\(longint\)|sizeof\(long\)", "long"), (r"sizeof\(int\)", "int")]


def size_class_of_sizeof(t):
    t = t.replace(" ", "")
    for pat, c in SIZE_CLASS:
        if re.match("^" + pat + "$", t):
            return c
    return "?" + t


def size_class_of_type(t):
    t = t.strip()
    if t.endswith("*"):
        return "ptr"
    if t in ("size_t", "unsigned long", "std::size_t"):
        return "size_t"
    if t in ("long", "long int"):
        return "long"
    if t == "int":
        return "int"
    return "?" + t


BYTES = {"ptr": 8, "size_t": 8, "long": 8, "int": 4}


def callback_model(facts, name):
    fns = [f for f in facts.functions if f["name"] == name and f.get("cls") == "TbfSmStarpuCallbacks" and not f.get("inst")]
    if len(fns) != 1:
        raise AnalysisBroken("callback %s not found" % name)
    fn = fns[0]
    fm = stages.FnModel(facts, fn)
    unpack = [c for c in walk(fm.body) if c.get("k") == "CallExpr" and tbf.callee_name(c) == "starpu_codelet_unpack_args"]
    if len(unpack) != 1:
        raise AnalysisBroken("%s: %d unpack calls" % (name, len(unpack)))
    uv = []
    for a in tbf.call_args(unpack[0])[1:]:
        v = strip(kids(strip(a))[0])
        d = fm.decls.get(v.get("did"))
        uv.append({"var": v.get("name"), "type": (d or {}).get("t", "?")})
    # locals fed by buffers[i]
    fed = {}   # var did -> (i, 'ptr'|'size')
    for v in fm.decls.values():
        if v.get("k") != "VarDecl" or not kids(v):
            continue
        t = facts.ntext(kids(v)[0])
        m = re.search(r"STARPU_VARIABLE_GET_(PTR|ELEMSIZE)\(buffers\[(\d+)\]\)", t)
        if m:
            fed[v["did"]] = (int(m.group(2)), "ptr" if m.group(1) == "PTR" else "size", v["name"])
    # containers constructed from them
    containers = {}   # var did -> {"name", "slots": [(buffer idx or None) per block slot], "const": bool}
    for v in fm.decls.values():
        if v.get("k") != "VarDecl" or "ContainerClass" not in v.get("t", "") or not kids(v):
            continue
        init = strip(kids(v)[0])
        cargs = [strip(a) for a in kids(init)] if init.get("k") in ("ParenListExpr", "CXXUnresolvedConstructExpr", "InitListExpr", "CXXConstructExpr") else []
        slots = []
        for j in range(0, len(cargs) - 1, 2):
            p, s = cargs[j], cargs[j + 1]
            if p.get("k") == "CXXNullPtrLiteralExpr" or facts.ntext(p) == "nullptr":
                slots.append(None)
                continue
            fp, fs = fed.get(p.get("did")), fed.get(s.get("did"))
            slots.append({"ptr": fp, "size": fs, "node": p})
        containers[v["did"]] = {"name": v["name"], "slots": slots, "const": v["t"].startswith("const "), "cells": "CellContainerClass" in v["t"], "node": v}
    wcalls = []
    for c in walk(fm.body):
        if c.get("k") in ("CallExpr", "CXXMemberCallExpr"):
            callee = strip(kids(c)[0])
            base = tbf.call_base(c)
            if base is not None and facts.ntext(base).endswith("kernelWrapper"):
                wcalls.append(c)
    return {"fn": fn, "fm": fm, "unpack": uv, "containers": containers, "wcalls": wcalls}


def handle_slots(facts, builder):
    """handle-array slot -> block, from the registration calls of the builder"""
    out = {}
    for fn in facts.functions:
        if fn.get("cls") != builder or not re.match(r"^Get\w*Handles\w*$", fn["name"]):
            continue
        regs = {}
        for x in walk(tbf.body(fn)):
            if x.get("k") == "CallExpr" and tbf.callee_name(x) == "starpu_variable_data_register":
                a = tbf.call_args(x)
                h = [y.get("name") for y in walk(a[0]) if y.get("k") == "DeclRefExpr"][0]
                p = [tbf.callee_name(y) for y in walk(a[2]) if y.get("k") in ("CallExpr", "CXXMemberCallExpr") and (tbf.callee_name(y) or "") in BLOCK_OF_PTR]
                regs[h] = BLOCK_OF_PTR[p[0]] if p else "?"
        for x in walk(tbf.body(fn)):
            if x.get("k") == "VarDecl" and "std::array<starpu_data_handle_t" in x.get("t", ""):
                names = [y.get("name") for y in walk(x) if y.get("k") == "DeclRefExpr" and y.get("name") in regs]
                kind = "particles" if "Particle" in fn["name"] else "cells"
                out[kind + ":" + fn["name"]] = [regs[n] for n in names]
    return out


def lockstep(facts, res, fn):
    """S7: every advance of a group iterator is paired, in the same block, with the advance of exactly one handle-index
    counter (and vice versa), the same counter for the same iterator everywhere, and the counter starts at 0"""
    import cursor
    R = "C03.S7.handle-index-lockstep"
    sk = cursor.Skeletons(facts, fn, ops=False)
    pairs = {}
    n = 0

    def rec(items):
        nonlocal n
        its = [x for x in items if x[0] == "act" and re.match(r"^\+\+(it|each)\(", x[1])]
        cts = [x for x in items if x[0] == "act" and re.match(r"^(\+\+mutable:\w+|mutable:\w+\+=1)$", x[1])]
        if its or cts:
            n += 1
            if bool(its) != bool(cts):
                node = (its or cts)[0][2]
                res.violation(R, tbf.rel(facts.path_of(node)), fn["qname"], "unpaired@%d" % node["l"][1], node["l"][1],
                              "%d iterator advance(s) but %d handle-index advance(s) in the same branch: handles and groups drift apart" % (len(its), len(cts)))
            elif len(cts) == 1 or len(cts) == len(its):
                # parallel sequences (leaf groups / particle groups) share one index
                for i, a in enumerate(its):
                    b = cts[0] if len(cts) == 1 else cts[i]
                    ctr = re.search(r"mutable:(\w+)", b[1]).group(1)
                    prev = pairs.setdefault(a[1], ctr)
                    if prev != ctr:
                        res.violation(R, tbf.rel(facts.path_of(b[2])), fn["qname"], "counter@%d" % b[2]["l"][1], b[2]["l"][1],
                                      "iterator %s advances with counter '%s' here and with '%s' elsewhere" % (a[1][:80], ctr, prev))
            else:
                raise AnalysisBroken("%s: %d iterator / %d counter advances in one branch at line %d: pairing not recognised" % (fn["qname"], len(its), len(cts), its[0][2]["l"][1]))
        for x in items:
            if x[0] == "if":
                rec(x[2]); rec(x[3])
            elif x[0] == "loop":
                rec(x[3])
    t = sk.tree()
    rec(t)
    for x in t:
        if x[0] == "act" and ":=" in x[1]:
            nm, init = x[1].split(":=", 1)
            if nm.replace("mutable:", "") in pairs.values() and init != "0":
                res.violation(R, tbf.rel(facts.path_of(x[2])), fn["qname"], "init@%d" % x[2]["l"][1], x[2]["l"][1], "handle index starts at %s, the iterator at the first group" % init)
    res.instance(R, fn["qname"], facts.loc(fn), "%d advancing branches, iterator->counter %s" % (n, sorted(set(pairs.values()))))
    if not n:
        raise AnalysisBroken("%s: no iterator/handle-index advance recognised" % fn["qname"])


def run_c03(res):
    facts = tbf.scan("starpu")
    res.units.append("umbrella TU 'starpu' (core + smstarpu headers, declaration-only starpu.h stub; %d function patterns)" % len(facts.functions))
    res.assumptions.append("StarPU clauses: stubs/starpu/starpu.h only declares names and constants; the semantics assumed for access modes, STARPU_VALUE packing and starpu_task_wait_for_all are those documented by StarPU")
    res.rule("C03.S1-S6 StarPU: codelet table vs submission, pack/unpack agreement, effects vs access modes, handle slot vs block and level, join, per-worker kernel")
    cmap = effects.container_map(facts)
    weff = effects.wrapper_effects(facts, cmap)
    written = effects.written_fields(weff)
    wroles = None
    import c02
    wroles = c02.wrapper_param_roles(facts, cmap)
    # S7: the callbacks index the per-worker kernel vector by starpu_worker_get_id(): every way of constructing the executor must have
    # grown that vector to the worker count (in the constructor, or in execute() before the first submission)
    res.rule("C03.S7 StarPU: every constructor of the executors leaves one kernel per worker (increaseNumberOfKernels reached from the constructor or from execute() before the first submission)")
    for cls, _hb in CLASSES:
        ms = [m for m in facts.methods_of(cls) if tbf.body(m) is not None and not m.get("inst")]
        ctors = [m for m in ms if m["kind"] == "CXXConstructor" and m["params"] and not (len(m["params"]) == 1 and cls in m["params"][0]["t"])]
        ex_ = [m for m in ms if m["name"] == "execute"]
        if not ctors or not ex_:
            raise AnalysisBroken("%s: constructors / execute not found" % cls)
        grows = lambda m: any(c_.get("k") in ("CallExpr", "CXXMemberCallExpr") and tbf.callee_name(c_) == "increaseNumberOfKernels" for c_ in walk(tbf.body(m)))
        in_execute = any(grows(m) for m in ex_)
        for m in ctors:
            fills = any(c_.get("k") in ("CallExpr", "CXXMemberCallExpr") and tbf.callee_name(c_) in ("emplace_back", "push_back") and tbf.call_base(c_) is not None and strip(tbf.call_base(c_)).get("name") == "kernels" for c_ in walk(tbf.body(m)))
            res.instance("C03.S7.kernels-per-worker", "%s ctor@%d" % (cls, m["l"][1]), facts.loc(m), "puts a kernel in the vector: %s; grows it to the worker count: %s" % (fills, grows(m) or in_execute))
            if fills and not grows(m) and not in_execute:
                res.violation("C03.S7.kernels-per-worker", tbf.rel(facts.path_of(m)), m["qname"], "one-kernel@%d" % m["l"][1], m["l"][1],
                              "this constructor leaves ONE kernel in the vector the callbacks index by starpu_worker_get_id(), and execute() does not grow it either: with two workers or more every task that runs on worker id >= 1 uses kernels[id] past the end of the vector (the constructor taking a kernel grows it through ExecOnWorkers)")
    ninsert = 0
    import cursor
    for cls, builder in CLASSES:
        refcls = "TbfAlgorithmTsm" if cls.endswith("Tsm") else "TbfAlgorithm"
        for st in ("P2M", "M2M", "M2L", "L2L", "L2P", "P2P"):
            a = [m for m in facts.methods_of(refcls) if m["name"] == st and not m.get("inst")]
            b = [m for m in facts.methods_of(cls) if m["name"] == st and not m.get("inst")]
            if len(a) != 1 or len(b) != 1:
                raise AnalysisBroken("stage %s of %s / %s not found" % (st, cls, refcls))
            # StarPU submits through starpu_insert_task and carries a handle index next to each iterator: compare the iterator walk only
            cursor.compare(facts, res, "C03.a.same-walk", a[0], b[0], "walk over the groups of stage %s" % st, ops=False, counters=False)
            lockstep(facts, res, b[0])
        cls_fields = {f["name"] for f in facts.cls(cls)["fields"]}
        cl = codelets(facts, cls)
        hslots = handle_slots(facts, builder)
        if not cl or not hslots:
            raise AnalysisBroken("%s: codelets / handle slots not recognised" % cls)
        for m in facts.methods_of(cls):
            if m["name"] not in ("P2M", "M2M", "M2L", "L2L", "L2P", "P2P"):
                continue
            fm = stages.FnModel(facts, m)
            for call in walk(fm.body):
                if call.get("k") != "CallExpr" or tbf.callee_name(call) != "starpu_insert_task":
                    continue
                ninsert += 1
                name, values, buffers = parse_insert(facts, fm, call)
                f = tbf.rel(facts.path_of(call))
                key = "%s::%s %s@%d" % (cls, m["name"], name, call["l"][1])
                c = cl.get(name)
                if c is None:
                    raise AnalysisBroken("%s: codelet %s has no table entry" % (facts.loc(call), name))
                res.instance("C03.S1.codelet-table", key, facts.loc(call), "nbuffers %d modes %s ; submitted %s" % (c["nbuffers"], [c["modes"].get(i) for i in range(c["nbuffers"])], [b["mode"] for b in buffers]))
                if len(buffers) != c["nbuffers"]:
                    res.violation("C03.S1.codelet-table", f, m["qname"], name + ":count", call["l"][1], "submission passes %d handles, the codelet declares %d buffers" % (len(buffers), c["nbuffers"]))
                for i, b in enumerate(buffers):
                    if i < c["nbuffers"] and c["modes"].get(i) != b["mode"]:
                        res.violation("C03.S1.codelet-table", f, m["qname"], "%s:mode[%d]" % (name, i), call["l"][1], "handle %d submitted with mode %s, the codelet declares %s" % (i, b["mode"], c["modes"].get(i)))
                cb = callback_model(facts, c["callback"])
                # S2
                res.instance("C03.S2.pack-unpack", key, facts.loc(call), "packed %s ; unpacked %s" % ([(v["var"], v["size"]) for v in values], [(u["var"], u["type"]) for u in cb["unpack"]]))
                if len(values) != len(cb["unpack"]):
                    res.violation("C03.S2.pack-unpack", f, m["qname"], name + ":count", call["l"][1], "%d values packed, %s unpacks %d" % (len(values), c["callback"], len(cb["unpack"])))
                for i, (v, u) in enumerate(zip(values, cb["unpack"])):
                    ps, us = size_class_of_sizeof(v["size"]), size_class_of_type(u["type"])
                    if ps.startswith("?") or us.startswith("?"):
                        raise AnalysisBroken("%s: cannot classify packed size '%s' / unpacked type '%s'" % (facts.loc(call), v["size"], u["type"]))
                    if BYTES[ps] != BYTES[us]:
                        res.violation("C03.S2.pack-unpack", f, m["qname"], "%s:value[%d]" % (name, i), call["l"][1], "value %d ('%s') packed with %s bytes, unpacked into '%s' (%s, %d bytes)" % (i, v["var"], v["size"], u["var"], u["type"], BYTES[us]))
                    vt = size_class_of_type(v["type"].replace("const ", ""))
                    if not vt.startswith("?") and BYTES[vt] < BYTES[ps]:
                        res.violation("C03.S2.pack-unpack", f, m["qname"], "%s:value[%d]:overread" % (name, i), call["l"][1], "value %d ('%s', %s) is packed with %s bytes: reads past the variable" % (i, v["var"], v["type"], v["size"]))
                # S3 / S4
                kind_of = {}
                for did, cont in cb["containers"].items():
                    order = ["objectData", "objectMultipole", "objectLocal"] if cont["cells"] else ["objectData", "objectRhs"]
                    for si, sl in enumerate(cont["slots"]):
                        if sl is None:
                            continue
                        blk = order[si]
                        if sl["ptr"] is None or sl["size"] is None or sl["ptr"][0] != sl["size"][0] or sl["ptr"][1] != "ptr" or sl["size"][1] != "size":
                            res.violation("C03.S3.effects-vs-modes", tbf.rel(facts.path_of(cont["node"])), cb["fn"]["qname"], "%s:%s" % (cont["name"], blk), cont["node"]["l"][1],
                                          "container '%s' block %s is not built from the pointer and size of one buffer" % (cont["name"], blk))
                            continue
                        kind_of[(did, blk)] = sl["ptr"][0]
                for wc in cb["wcalls"]:
                    meth = tbf.callee_name(wc)
                    e = weff.get(meth)
                    if e is None:
                        raise AnalysisBroken("callback %s calls unknown wrapper method %s" % (c["callback"], meth))
                    args = [strip(a) for a in tbf.call_args(wc)]
                    if not any("starpu_worker_get_id" in facts.ntext(a) for a in args):
                        res.violation("C03.S6.per-worker-kernel", tbf.rel(facts.path_of(wc)), cb["fn"]["qname"], meth, wc["l"][1], "callback does not select the kernel by starpu_worker_get_id()")
                    for a, pe in zip(args, e["params"]):
                        if not pe or a.get("k") != "DeclRefExpr" or a.get("did") not in cb["containers"]:
                            continue
                        cont = cb["containers"][a["did"]]
                        for blk, mode in pe.items():
                            if blk not in written and blk != "objectData":
                                continue
                            bi = kind_of.get((a["did"], blk))
                            res.instance("C03.S3.effects-vs-modes", "%s %s.%s" % (key, cont["name"], blk), facts.loc(wc), "%s: %s -> buffers[%s] mode %s" % (meth, mode, bi, c["modes"].get(bi) if bi is not None else None))
                            if bi is None:
                                if blk in written:
                                    res.violation("C03.S3.effects-vs-modes", tbf.rel(facts.path_of(wc)), cb["fn"]["qname"], "%s:%s.%s" % (name, cont["name"], blk), wc["l"][1],
                                                  "%s %s block %s of '%s' but the callback builds that block from no buffer (nullptr)" % (meth, "writes" if mode == "W" else "reads", blk, cont["name"]))
                                continue
                            if mode == "W" and not c["modes"].get(bi, "").startswith("RW"):
                                res.violation("C03.S3.effects-vs-modes", tbf.rel(facts.path_of(wc)), cb["fn"]["qname"], "%s:%s.%s" % (name, cont["name"], blk), wc["l"][1],
                                              "%s writes block %s of '%s' = buffers[%d], which the codelet declares %s" % (meth, blk, cont["name"], bi, c["modes"].get(bi)))
                            # S4: handle slot registered for this block, and level of the handle
                            if bi < len(buffers):
                                h = buffers[bi]["handle"]
                                mm = re.match(r"^(\w+)((?:\[[^\]]+\])+)$", h)
                                if not mm:
                                    raise AnalysisBroken("%s: handle expression '%s' not recognised" % (facts.loc(call), h))
                                idxs = re.findall(r"\[([^\]]+)\]", mm.group(2))
                                k = int(idxs[-1])
                                hk = ("cells" if cont["cells"] else "particles")
                                hname = mm.group(1)
                                cands = [v for kk, v in hslots.items() if kk.startswith(hk + ":") and (("Src" in hname) == ("Src" in kk)) and (("Tgt" in hname) == ("Tgt" in kk))]
                                if not cands:
                                    raise AnalysisBroken("%s: no handle builder matches the handle array '%s'" % (facts.loc(call), hname))
                                ok = any(k < len(v) and v[k] == blk for v in cands)
                                res.instance("C03.S4.handle-slot", "%s buffers[%d]" % (key, bi), facts.loc(buffers[bi]["node"]), "%s -> slot %d, callback uses it as %s.%s" % (h, k, cont["name"], blk))
                                if not ok:
                                    res.violation("C03.S4.handle-slot", f, m["qname"], "%s:buffers[%d]" % (name, bi), call["l"][1],
                                                  "handle %s is slot %d of the handle array (registered as %s) but the callback uses buffers[%d] as block %s of '%s'" % (h, k, [v[k] if k < len(v) else None for v in cands], bi, blk, cont["name"]))
                    # level agreement for parent/children/transfer
                    wr = wroles.get(meth)
                    if wr and wr["op"] in ("M2M", "L2L", "M2L") and len(buffers) == c["nbuffers"]:
                        want = {"M2M": {"parent": 0, "children": 1}, "L2L": {"parent": 0, "children": 1}, "M2L": {"target": 0, "sources": 0}}[wr["op"]]
                        for role, delta in want.items():
                            for pi in wr["roles"].get(role, []):
                                a = args[pi]
                                if a.get("did") not in cb["containers"]:
                                    continue
                                for blk in ("objectMultipole", "objectLocal"):
                                    bi = kind_of.get((a["did"], blk))
                                    if bi is None or bi >= len(buffers):
                                        continue
                                    idxs = re.findall(r"\[([^\]]+)\]", buffers[bi]["handle"])
                                    lvl = idxs[0].replace(" ", "")
                                    exp = "idxLevel" if delta == 0 else "idxLevel+1"
                                    res.instance("C03.S4.handle-level", "%s %s" % (key, role), facts.loc(buffers[bi]["node"]), "handle level [%s], expected [%s]" % (lvl, exp))
                                    if lvl != exp:
                                        res.violation("C03.S4.handle-level", f, m["qname"], "%s:%s" % (name, role), call["l"][1], "the %s handle is taken at level [%s], the wrapper treats that group as level %s" % (role, lvl, exp))
        # S5 join
        ex = [m for m in facts.methods_of(cls) if m["name"] == "execute"]
        if len(ex) != 1:
            raise AnalysisBroken("%s::execute not found" % cls)
        b = tbf.body(ex[0])
        top = kids(b)
        def line_of(pred):
            for s in top:
                if pred(s):
                    return s["l"][1]
            return None
        last_stage = max([s["l"][1] for s in top if s.get("k") == "IfStmt" and "inOperationToProceed" in facts.ntext(s["c"][0])] or [0])
        wait = line_of(lambda s: s.get("k") == "CallExpr" and tbf.callee_name(s) == "starpu_task_wait_for_all")
        clear = line_of(lambda s: "vecIndexBuffer.clear" in facts.ntext(s))
        clean = line_of(lambda s: "CleanCellHandles" in facts.ntext(s) or "CleanParticleHandles" in facts.ntext(s))
        res.instance("C03.S5.join", cls + "::execute", facts.loc(ex[0]), "last stage @%s, wait @%s, buffers cleared @%s, handles released @%s" % (last_stage, wait, clear, clean))
        ok = wait is not None and wait > last_stage and (clear is None or clear > wait) and (clean is None or clean > wait)
        if not ok or any(x.get("k") == "ReturnStmt" for x in walk(b)):
            res.violation("C03.S5.join", tbf.rel(facts.path_of(ex[0])), ex[0]["qname"], "wait", ex[0]["l"][1],
                          "starpu_task_wait_for_all() must follow every stage submission and precede the release of the index buffers and data handles")
    res.floor("C03.S1", ninsert, 14, "starpu_insert_task sites")
