"""C08 — results and the set of elementary interactions do not depend on the grouping.

A target may receive several partial operator calls (batches are cut at group boundaries), so
independence from the grouping *requires* every operator to ACCUMULATE into its output.

Decided clause (1): for the 3 shipped kernels x 8 operators, every store that reaches an output
parameter - directly, through a local alias, or through a helper the output is handed to (followed
recursively) - is a compound += / -=, the read-modify-write idiom x.real(x.real()+e), or a
recompute-from-accumulated-input (output and input are members of the same cell object).
Decided clause (2): the automatic block size is clamped to >= 1 (a zero block size makes the tree
silently empty for every executor).
NOT decided: equality of the multiset of elementary interactions between two groupings (counting).
"""
import re

import tbf
import coherence
from tbf import walk, kids, strip, AnalysisBroken

LEVEL = "other"
TECHNIQUE = "interprocedural store-form (accumulate-only) effect analysis from each operator's output parameter over the clang AST"

KERNELS = ["TbfTestKernel", "FRotationKernel", "FUnifKernel"]
OPS = ["P2M", "M2M", "M2L", "L2L", "L2P", "P2P", "P2PTsm", "P2PInner"]
OVERWRITERS = {"memset", "memcpy", "memmove", "fill", "fill_n", "copy", "copy_n", "setzero", "c_setzero", "copyall", "setall"}
PURE = {"forward", "move", "size", "get", "data", "begin", "end", "real", "imag", "Sqrt", "sqrt", "abs", "GetPtr", "make_const", "cos", "sin", "pow", "getLevel", "conj"}


class StoreScan:
    def __init__(self, facts, res, kernel, op):
        self.facts = facts
        self.res = res
        self.kernel = kernel
        self.op = op
        self.seen = set()
        self.stores = 0

    def root_var(self, n):
        """variable an lvalue / pointer expression is rooted in (through [], ., ->, *, &, get(), data(), casts)"""
        n = strip(n)
        for _ in range(40):
            if n is None:
                return None
            k = n.get("k")
            if k == "DeclRefExpr":
                return n
            c = kids(n)
            if k in ("ArraySubscriptExpr", "MemberExpr", "CXXDependentScopeMemberExpr", "UnaryOperator") and c:
                n = strip(c[0])
                continue
            if k == "CXXOperatorCallExpr" and len(c) >= 2:
                n = strip(c[1])
                continue
            if k in ("CallExpr", "CXXMemberCallExpr") and c:
                cal = strip(c[0])
                if cal.get("k") in ("CXXDependentScopeMemberExpr", "MemberExpr", "UnresolvedMemberExpr") and kids(cal):
                    n = strip(kids(cal)[0])
                    continue
                nm = tbf.callee_name(n)
                if nm in ("GetPtr", "addressof", "move", "forward") and len(c) > 1:
                    n = strip(c[1])
                    continue
                return None
            if k.endswith("CastExpr") and c:
                n = strip(c[0])
                continue
            if k == "BinaryOperator" and n.get("op") in ("+", "-") and c:
                n = strip(c[0])      # pointer arithmetic
                continue
            return None
        return None

    def scan(self, fn, out_dids, via, depth=0):
        key = (fn["id"], tuple(sorted(out_dids)))
        if key in self.seen or depth > 8:
            return
        self.seen.add(key)
        facts = self.facts
        b = tbf.body(fn)
        if b is None:
            return
        tbf.link_parents(b)
        tainted = set(out_dids)
        # aliases: locals initialised from an output-derived pointer / reference expression
        changed = True
        decls = [v for v in walk(b) if v.get("k") == "VarDecl" and kids(v)]
        while changed:
            changed = False
            for v in decls:
                if v["did"] in tainted:
                    continue
                t = v.get("t", "")
                if not ("*" in t or "&" in t or t.strip() in ("auto", "const auto")):
                    continue
                r = self.root_var(kids(v)[0])
                if r is not None and r.get("did") in tainted:
                    # a by-value copy of an element is not an alias
                    if "&" in t or "*" in t:
                        tainted.add(v["did"])
                        changed = True
        f = tbf.rel(facts.path_of(fn))
        here = "%s::%s via %s" % (self.kernel, self.op, " -> ".join(via))
        for x in walk(b):
            k = x.get("k")
            if k in ("BinaryOperator", "CompoundAssignOperator") and x.get("op", "").endswith("=") and x.get("op") not in ("==", "!=", "<=", ">="):
                lhs = strip(kids(x)[0])
                if lhs.get("k") == "DeclRefExpr":
                    continue    # assignment to the variable itself (re-seating a local), not a store through it
                r = self.root_var(lhs)
                if r is None or r.get("did") not in tainted:
                    continue
                self.stores += 1
                ok = x["op"] in ("+=", "-=")
                how = x["op"]
                if not ok and x["op"] == "=":
                    # long-hand accumulation: `out[i] = acc;` where the scalar local acc was initialised from the very same element and has
                    # only been added to / subtracted from (directly or through its address) since
                    rv = strip(kids(x)[1])
                    if rv.get("k") == "DeclRefExpr" and rv.get("dk") == "Var":
                        d0 = next((v for v in decls if v["did"] == rv["did"]), None)
                        if d0 is not None and kids(d0) and self.facts.ntext(kids(d0)[0]) == self.facts.ntext(lhs):
                            writes = [y for y in walk(b) if y.get("k") in ("BinaryOperator", "CompoundAssignOperator") and y.get("op", "").endswith("=") and y.get("op") not in ("==", "!=", "<=", ">=")
                                      and strip(kids(y)[0]).get("k") == "DeclRefExpr" and strip(kids(y)[0]).get("did") == rv["did"]]
                            if all(y.get("op") in ("+=", "-=") for y in writes):
                                ok = True
                                how = "= (accumulator seeded from the same element)"
                self.res.instance("C08.1.accumulate-only", "%s %s@%d" % (here, fn["name"], x["l"][1]), facts.loc(x), "%s %s ..." % (facts.ntext(lhs)[:60], how))
                if not ok:
                    self.res.violation("C08.1.accumulate-only", f, fn["qname"], "%s:%s@%d" % (self.op, facts.ntext(lhs)[:40], x["l"][1]), x["l"][1],
                                       "operator %s of %s overwrites its output (%s %s ...) instead of accumulating: a target that receives several partial calls (batches cut at group boundaries) keeps only the last one" % (self.op, self.kernel, facts.ntext(lhs)[:60], how))
            if k in ("UnaryOperator",) and x.get("op") in ("++", "--"):
                r = self.root_var(kids(x)[0])
                if r is not None and r.get("did") in tainted and strip(kids(x)[0]).get("k") != "DeclRefExpr":
                    self.stores += 1
            if k in ("CallExpr", "CXXMemberCallExpr", "CXXOperatorCallExpr"):
                nm = tbf.callee_name(x)
                c = kids(x)
                cal = strip(c[0]) if c else None
                # setter idiom  x.real(x.real() + e)
                if nm in ("real", "imag") and len(tbf.call_args(x)) == 1 and cal is not None and kids(cal):
                    r = self.root_var(kids(cal)[0])
                    if r is not None and r.get("did") in tainted:
                        self.stores += 1
                        arg = facts.ntext(tbf.call_args(x)[0])
                        base = facts.ntext(kids(cal)[0])
                        ok = arg.startswith(base + "." + nm + "()+") or arg.startswith(base + "." + nm + "()-")
                        self.res.instance("C08.1.accumulate-only", "%s %s@%d" % (here, fn["name"], x["l"][1]), facts.loc(x), "%s.%s(%s)" % (base[:40], nm, arg[:50]))
                        if not ok:
                            self.res.violation("C08.1.accumulate-only", f, fn["qname"], "%s:%s.%s@%d" % (self.op, base[:30], nm, x["l"][1]), x["l"][1],
                                               "operator %s of %s sets %s.%s(...) to a value that is not `old + contribution`" % (self.op, self.kernel, base[:40], nm))
                    continue
                if k == "CXXOperatorCallExpr":
                    continue
                args = tbf.call_args(x)
                hit = []
                for i, a in enumerate(args):
                    r = self.root_var(a)
                    if r is not None and r.get("did") in tainted:
                        hit.append(i)
                if not hit or nm in PURE:
                    continue
                if nm in OVERWRITERS:
                    self.stores += 1
                    self.res.violation("C08.1.accumulate-only", f, fn["qname"], "%s:%s@%d" % (self.op, nm, x["l"][1]), x["l"][1],
                                       "operator %s of %s hands its output to %s, which overwrites it" % (self.op, self.kernel, nm))
                    continue
                cands = [g for g in facts.functions if g["name"] == nm and not g.get("inst") and len(g["params"]) >= len(args) and tbf.body(g) is not None]
                if not cands:
                    # member call on an output-derived object with no output-derived argument is handled above; unknown free callee
                    raise AnalysisBroken("%s: output of %s::%s is handed to '%s' whose definition the analyser cannot find" % (facts.loc(x), self.kernel, self.op, nm))
                for g in cands:
                    outs = []
                    for i in hit:
                        p = g["params"][i]
                        pt = p["t"]
                        if pt.startswith("const ") and ("*" not in pt or pt.startswith("const ") and "*const" not in pt.replace(" ", "")[5:] and pt.count("*") == 1):
                            # pointer-to-const / const reference: read only
                            if "&" in pt or pt.replace(" ", "").startswith("const") and "*" in pt:
                                continue
                        if "*" in pt or "&" in pt:
                            outs.append(p["did"])
                    if outs:
                        if recompute_idiom(facts, x, g):
                            self.res.instance("C08.1.recompute-idiom", "%s %s@%d" % (here, fn["name"], x["l"][1]), facts.loc(x), "%s: output recomputed from the same cell's accumulated input" % nm)
                            continue
                        self.scan(g, outs, via + ["%s@%d" % (fn["name"], x["l"][1])], depth + 1)


def recompute_idiom(facts, call, callee):
    """the one permitted overwrite: out = F(in) where `in` is the accumulated real expansion of the SAME
    cell object whose transformed expansion is `out` (uniform kernel: DFT of the accumulated multipole)"""
    args = [strip(a) for a in tbf.call_args(call)]
    roots = []
    for a in args:
        t = facts.ntext(a)
        m = re.match(r"^\(?(\w+)\.(\w+)", t)
        roots.append((m.group(1), m.group(2)) if m else None)
    objs = [r[0] for r in roots if r]
    mems = [r[1] for r in roots if r]
    return len(objs) == 2 and objs[0] == objs[1] and mems[0] != mems[1] and "DFT" in callee["name"]


def partial_calls_exclusive(res):
    """C08.3: a target block may receive several partial operator calls (one per source group / child group, the number depends on the
    block size); the calls accumulate, so the sum is grouping-independent only if no two of them update the block at the same time:
    every task that writes a block must declare it inout / commute (write half of rule C03.b, same engine)"""
    import c03
    import effects
    import stages
    import taskdeps
    R = "C08.3.partial-calls-exclusive"
    n = 0
    for unit, pairs in (("core", c03.PAIRS), ("specx", c03.SPECX_PAIRS)):
        facts = tbf.scan(unit)
        cmap = effects.container_map(facts)
        weff = effects.wrapper_effects(facts, cmap)
        sub = tbf.Result("C03")
        for cls, _ref in pairs:
            ex = stages.ExecutorSummary(facts, cls)
            for name, st in ex.stages.items():
                k = taskdeps.check_stage(st, weff, cmap, sub)
                n += k
                if k:
                    res.instance(R, "%s::%s" % (cls, name), facts.loc(st.fn), "%d task unit(s): every written block declared inout/commute" % k)
        for v in sub.violations:
            if "task writes block" in v["msg"]:
                res.violation(R, v["file"], v["function"], v["key"], v["line"], v["msg"] + ": two partial calls that accumulate into this block may run at the same time and one contribution is lost; whether that happens depends on where the group boundaries fall")
    res.floor(R, n, 20, "task units with wrapper calls")


def run(res, tier):
    facts = tbf.scan("core")
    res.units.append("umbrella TU 'core': operators of TbfTestKernel, FRotationKernel, FUnifKernel and every helper their outputs are handed to; TbfBlockSizeFinder")
    res.rule("C08.1 every store reaching an operator's output parameter (role table) is += / -= / x.real(x.real()+e), followed through aliases and helpers; the single permitted overwrite is a recompute from the same cell's accumulated input")
    res.rule("C08.2 the automatic block-size estimate is clamped to >= 1")
    total = 0
    for kernel in KERNELS:
        for op in OPS:
            ms = [m for m in facts.methods_of(kernel) if m["name"] == op]
            if len(ms) != 1:
                raise AnalysisBroken("%s::%s: %d definitions" % (kernel, op, len(ms)))
            m = ms[0]
            roles = coherence.ROLES[op]
            if len(roles) != len(m["params"]):
                raise AnalysisBroken("%s::%s has %d parameters, the operator interface has %d" % (kernel, op, len(m["params"]), len(roles)))
            outs = [p["did"] for p, (r, part, io) in zip(m["params"], roles) if io == "out"]
            sc = StoreScan(facts, res, kernel, op)
            sc.scan(m, outs, [op])
            total += sc.stores
            if sc.stores == 0:
                res.violation("C08.1.accumulate-only", tbf.rel(facts.path_of(m)), m["qname"], op + ":no-store", m["l"][1],
                              "no store to the output of %s::%s was found: the operator contributes nothing" % (kernel, op))
    res.floor("C08.1", total, 40, "stores to operator outputs")
    res.rule("C08.3 partial calls exclusive: in the OpenMP and Specx executors every task that writes a group block declares it inout / commutative-write, so the partial accumulating calls a block receives (their number depends on the block size) never overlap")
    partial_calls_exclusive(res)
    # clause 2
    block_size_positive(facts, res)
    res.rule("C08.5 the block size is a bound, not a size: in the tree's constructor / rebuild and the sorter's split the raw block size never sizes an allocation and never enters a sum or product (it may be compared, and clamped with std::min against a quantity of the data)")
    res.floor("C08.5", block_size_is_a_bound(facts, res), 2, "allocations / arithmetic sites")
    res.rule("C08.4 which cells interact does not depend on where the group boundaries fall: a source cell's position in a group comes from that group's own lookup, or from a hole-free shortcut tested on that same group (rule C02.5 on the group wrapper)")
    import c02
    sub = tbf.Result("C02")
    n4 = c02.position_provenance(facts, sub)
    for i in sub.instances:
        res.instance("C08.4.lookup-in-own-group", i["key"], i["at"], i["detail"])
    for v in sub.violations:
        res.violation("C08.4.lookup-in-own-group", v["file"], v["function"], v["key"], v["line"], v["msg"] + " - whether that happens depends on the block size and the grouping mode")
    res.floor("C08.4", n4, 6, "accessor calls at looked-up positions")


def block_size_is_a_bound(facts, res, R="C08.5.block-size-is-a-bound"):
    """Any block size >= 1 is valid, however large ("one group per level" is commonly asked for with a huge value): the block size may
    bound group sizes and be compared, but it may not size an allocation or enter a sum / product that can overflow.  In the tree's
    constructor / rebuild and in the sorter's split, a RAW use of the block size (the constructor parameter, the member it initialises,
    the split's group-size parameter - not a local clamped with std::min against a quantity of the data) is reported when it is an argument
    of reserve / resize / an array new, or an operand of + or *."""
    sites = []
    fns = [(m, {"nbElementsPerBlock"}, set()) for m in facts.methods_of("TbfTree") if (m["kind"] == "CXXConstructor" or m["name"] == "rebuild") and tbf.body(m) is not None and not m.get("inst")]
    sp = [m for m in facts.methods_of("TbfParticleSorter") if m["name"] == "splitInGroups" and tbf.body(m) is not None and not m.get("inst")]
    if not fns or len(sp) != 1:
        raise AnalysisBroken("TbfTree constructor / rebuild or TbfParticleSorter::splitInGroups not found")
    fns.append((sp[0], set(), {sp[0]["params"][0]["did"]}))
    n = 0
    for m, members, params in fns:
        body = tbf.body(m)
        tbf.link_parents(body)
        for p_ in m["params"]:
            if re.search(r"ElementsPerBlock|GroupSize|BlockSize", p_.get("name") or ""):
                params = params | {p_["did"]}

        def raw(e):
            for z in walk(e):
                if z.get("k") == "DeclRefExpr" and z.get("did") in params:
                    # inside std::min(raw, other)? then the value is clamped
                    if not any(a.get("k") in ("CallExpr",) and tbf.callee_name(a) == "min" for a in tbf.ancestors(z)):
                        return z
                if z.get("k") in ("MemberExpr", "CXXDependentScopeMemberExpr") and z.get("name") in members and (not kids(z) or strip(kids(z)[0]).get("k") == "CXXThisExpr"):
                    if not any(a.get("k") in ("CallExpr",) and tbf.callee_name(a) == "min" for a in tbf.ancestors(z)):
                        return z
            return None
        # a local that is just the raw block size under another name is raw too
        grew = True
        while grew:
            grew = False
            for v in walk(body):
                if v.get("k") == "VarDecl" and kids(v) and v.get("did") not in params:
                    i0 = strip(kids(v)[0])
                    while i0.get("k") in ("CXXStaticCastExpr", "CStyleCastExpr", "CXXFunctionalCastExpr") and len(kids(i0)) == 1:
                        i0 = strip(kids(i0)[0])
                    if (i0.get("k") == "DeclRefExpr" and i0.get("did") in params) or (i0.get("k") in ("MemberExpr", "CXXDependentScopeMemberExpr") and i0.get("name") in members):
                        params = params | {v["did"]}
                        grew = True
        for x in walk(body):
            k = x.get("k")
            if k in ("CallExpr", "CXXMemberCallExpr") and tbf.callee_name(x) in ("reserve", "resize") and tbf.call_args(x):
                n += 1
                r_ = raw(tbf.call_args(x)[0])
                if r_ is not None:
                    sites.append((m, x, "sizes the allocation `%s`" % facts.ntext(x)[:60]))
            elif k == "CXXNewExpr" and x.get("array") and kids(x):
                n += 1
                if raw(kids(x)[0]) is not None:
                    sites.append((m, x, "sizes the array allocation `%s`" % facts.ntext(x)[:60]))
            elif k == "BinaryOperator" and x.get("op") in ("+", "*"):
                sides = [strip(c_) for c_ in kids(x)]
                direct = [c_ for c_ in sides if (c_.get("k") == "DeclRefExpr" and c_.get("did") in params) or (c_.get("k") in ("MemberExpr", "CXXDependentScopeMemberExpr") and c_.get("name") in members)]
                if direct and raw(x) is not None:
                    n += 1
                    sites.append((m, x, "enters `%s`, which overflows for block sizes near the largest long" % facts.ntext(x)[:50]))
    res.instance(R, "TbfTree / TbfParticleSorter", "src/core", "%d allocations / sums / products examined in the constructor, rebuild() and splitInGroups(); %d use the raw block size" % (n, len(sites)))
    for m, x, what in sites:
        res.violation(R, tbf.rel(facts.path_of(x)), m["qname"], "raw-block-size:%s@%d" % (m["name"], x["l"][1]), x["l"][1],
                      "the requested block size %s: any block size >= 1 is valid (a huge one is the usual way to ask for one group per level) - the tree of a thousand particles then fails with bad_alloc / length_error or computes group counts from an overflowed sum" % what)
    return n


def block_size_positive(facts, res, R="C08.2.block-size-positive", only=None):
    n = 0
    for fn in facts.functions:
        if fn.get("inst") or not fn["qname"].startswith("TbfBlockSizeFinder::Estimate"):
            continue
        if only is not None and fn["name"] not in only:
            continue
        n += 1
        rets = [r for r in walk(tbf.body(fn)) if r.get("k") == "ReturnStmt" and kids(r)]
        # returns under a condition that depends on the environment (directly, or through a helper that reads it) are the user's override
        computed = [r for r in rets if not any(a.get("k") == "IfStmt" and any(reads_env(facts, c0) for c0 in (a["c"][:-2] + a.get("pre", [])) if c0 is not None) for a in _anc(fn, r))]
        for r in computed:
            e = strip(kids(r)[0])
            # a helper of the library with a single return statement is inlined
            for _ in range(4):
                if e.get("k") == "CallExpr" and tbf.callee_name(e) != "max":
                    hs = [g for g in facts.functions if g["name"] == tbf.callee_name(e) and not g.get("inst") and tbf.body(g) is not None and len(g["params"]) == len(tbf.call_args(e))]
                    hr = [x for x in walk(tbf.body(hs[0])) if x.get("k") == "ReturnStmt" and kids(x)] if len(hs) == 1 else []
                    if len(hr) == 1:
                        e = strip(kids(hr[0])[0])
                        continue
                break
            while e.get("k") in ("CXXStaticCastExpr", "CStyleCastExpr", "CXXFunctionalCastExpr") and kids(e):
                e = strip(kids(e)[0])
            def clamped(x):
                x = strip(x)
                while x.get("k") in ("CXXStaticCastExpr", "CStyleCastExpr", "CXXFunctionalCastExpr", "ImplicitCastExpr", "MaterializeTemporaryExpr") and kids(x):
                    x = strip(kids(x)[-1])
                return x.get("k") == "CallExpr" and tbf.callee_name(x) == "max" and any(strip(a).get("k") == "IntegerLiteral" and strip(a).get("val", 0) >= 1 for a in tbf.call_args(x))
            ok = clamped(e)
            if not ok and e.get("k") in ("CallExpr", "CXXConstructExpr", "InitListExpr", "CXXTemporaryObjectExpr", "CXXUnresolvedConstructExpr", "CXXFunctionalCastExpr"):
                # one size per tree (a pair): every component is clamped
                comps = tbf.call_args(e) if e.get("k") == "CallExpr" and tbf.callee_name(e) in ("make_pair", "make_tuple") else (kids(e) if e.get("k") != "CallExpr" else [])
                ok = len(comps) >= 2 and all(clamped(c_) for c_ in comps)
            res.instance(R, fn["qname"], facts.loc(r), facts.ntext(e)[:100])
            if not ok:
                res.violation(R, tbf.rel(facts.path_of(r)), fn["qname"], "return@%d" % r["l"][1], r["l"][1],
                              "the automatic block size '%s' is not clamped to >= 1: with few leaves it becomes 0 and the tree is built empty" % facts.ntext(e)[:80])
    res.floor(R, n, 2 if only is None else 1, "estimators")


def reads_env(facts, n, depth=0):
    """the expression (or declaration) calls getenv, directly or through library functions"""
    for x in walk(n):
        if x.get("k") in ("CallExpr", "CXXMemberCallExpr"):
            nm = tbf.callee_name(x)
            if nm == "getenv":
                return True
            if depth < 3 and nm:
                for g in facts.functions:
                    if g["name"] == nm and not g.get("inst") and tbf.body(g) is not None and g.get("cls") is None:
                        if reads_env(facts, tbf.body(g), depth + 1):
                            return True
    return False


def _anc(fn, n):
    b = tbf.body(fn)
    tbf.link_parents(b)
    return list(tbf.ancestors(n))
