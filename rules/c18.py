"""C18 — interaction counters report the true number of elementary interactions.

Decided clauses:
 1 forwarding fidelity: in each decorator kernel (counter, timer, printer) operator M calls exactly
   RealKernel::M once with its own parameters in order, and writes none of them
 2 increment table: the counter increments equal, as polynomials over the count parameters, the
   documented quantities (1 per leaf, children, neighbours, nSrc*nTgt, n^2-n)
 3 per-worker copies: every executor's applyToAllKernels visits every kernel copy; Reduce adds every
   field exactly once on each side
 4 the documented merge snippet and decorator composition compile for sequential, OpenMP and
   target/source executors (witness)
"""
import os
import re

import sympy

import tbf
import coherence
import witness
from tbf import walk, kids, strip, AnalysisBroken

LEVEL = "other"
TECHNIQUE = "forwarding / increment-polynomial / field-coverage rules over the clang AST (sympy normal forms) + must-compile witnesses of the documented merge"

DECORATORS = ["TbfInteractionCounter", "TbfInteractionTimer", "TbfInteractionPrinter"]
OPS = ["P2M", "M2M", "M2L", "L2L", "L2P", "P2P", "P2PTsm", "P2PInner"]
# counter field incremented by each operator and the documented amount over the role slots of the operator
INCREMENT = {
    "P2M": ("P2M", lambda c: 1), "L2P": ("L2P", lambda c: 1),
    "M2M": ("M2M", lambda c: c[("children", "count")]), "L2L": ("L2L", lambda c: c[("children", "count")]),
    "M2L": ("M2L", lambda c: c[("sources", "count")]),
    "P2P": ("P2P", lambda c: c[("source", "count")] * c[("target", "count")]),
    "P2PTsm": ("P2P", lambda c: c[("source", "count")] * c[("target", "count")]),
    "P2PInner": ("P2PInner", lambda c: c[("leaf", "count")] ** 2 - c[("leaf", "count")]),
}
EXECUTORS = ["TbfAlgorithm", "TbfAlgorithmTsm", "TbfOpenmpAlgorithm", "TbfOpenmpAlgorithmTsm", "TbfAlgorithmPeriodicTopTree", "TbfAlgorithmPeriodicTopTreeTsm"]

ENTRY_TU = witness.HEADERS + """
#include <type_traits>
#include "kernels/counterkernels/tbfinteractioncounter.hpp"
#include "kernels/counterkernels/tbfinteractiontimer.hpp"
using RealType = double;
template <class K> long int entry(){
    typename K::ReduceType a{}, b{};
    auto viaKernel = K::Reduce(a, b);
    auto viaType = K::ReduceType::Reduce(a, b);
    static_assert(std::is_same<decltype(viaKernel), decltype(viaType)>::value, "the two merge entry points give different types");
    return long(sizeof(viaKernel));
}
long int witness(){
    return entry<TbfInteractionCounter<TbfTestKernel<RealType>>>() + entry<TbfInteractionTimer<TbfTestKernel<RealType>>>()
         + entry<TbfInteractionCounter<TbfInteractionTimer<TbfTestKernel<RealType>>>>();
}
"""

MERGE_TU = witness.HEADERS + """
#include "kernels/counterkernels/tbfinteractioncounter.hpp"
#include "kernels/counterkernels/tbfinteractiontimer.hpp"
#include "kernels/counterkernels/tbfinteractionprinter.hpp"
using RealType = double; constexpr long int Dim = 3;
template <class AlgoTemplateTag, class KernelClass, class TreeClass, class AlgorithmClass>
long int merge(TreeClass& tree, AlgorithmClass& algorithm){
    algorithm.execute(tree);
    // README "Counting the number of interactions"
    auto counters = typename KernelClass::ReduceType();
    algorithm.applyToAllKernels([&](const auto& inKernel){
        counters = KernelClass::ReduceType::Reduce(counters, inKernel.getReduceData());
    });
    return long(sizeof(counters));
}
long int witness(){
    const TbfSpacialConfiguration<RealType, Dim> configuration(4, {{1,1,1}}, {{0.5,0.5,0.5}});
    std::vector<std::array<RealType, Dim>> pos(10);
    using Tree = TbfTree<RealType, RealType, Dim, long int, 1, std::array<long int,1>, std::array<long int,1>>;
    using TreeTsm = TbfTreeTsm<RealType, RealType, Dim, long int, 1, std::array<long int,1>, std::array<long int,1>>;
    Tree tree(configuration, pos, 4, false);
    TreeTsm tsm(configuration, pos, pos, 4, false);
    using KC = TbfInteractionCounter<TbfTestKernel<RealType>>;
    using KT = TbfInteractionTimer<TbfTestKernel<RealType>>;
    using KCT = TbfInteractionCounter<TbfInteractionTimer<TbfTestKernel<RealType>>>;
    using KP = TbfInteractionPrinter<TbfTestKernel<RealType>>;
    long int r = 0;
    { TbfAlgorithm<RealType, KC> a(configuration); r += merge<void, KC>(tree, a); }
    { TbfAlgorithm<RealType, KT> a(configuration); r += merge<void, KT>(tree, a); }
    { TbfAlgorithm<RealType, KCT> a(configuration); r += merge<void, KCT>(tree, a); }
    { TbfOpenmpAlgorithm<RealType, KC> a(configuration); r += merge<void, KC>(tree, a); }
    { TbfOpenmpAlgorithm<RealType, KT> a(configuration); r += merge<void, KT>(tree, a); }
    { TbfOpenmpAlgorithm<RealType, KCT> a(configuration); r += merge<void, KCT>(tree, a); }
    { TbfAlgorithmTsm<RealType, KC> a(configuration); r += merge<void, KC>(tsm, a); }
    { TbfAlgorithmTsm<RealType, KT> a(configuration); r += merge<void, KT>(tsm, a); }
    { TbfOpenmpAlgorithmTsm<RealType, KC> a(configuration); r += merge<void, KC>(tsm, a); }
    { TbfOpenmpAlgorithmTsm<RealType, KCT> a(configuration); r += merge<void, KCT>(tsm, a); }
    { TbfAlgorithm<RealType, KP> a(configuration); a.execute(tree); }
    { TbfAlgorithmTsm<RealType, KP> a(configuration); a.execute(tsm); }
    return r;
}
"""


def forwarding(facts, cls, res):
    n = 0
    methods = {}
    for m in facts.methods_of(cls):
        if m["name"] in OPS:
            methods.setdefault(m["name"], []).append(m)
    for op in OPS:
        ms = methods.get(op, [])
        if len(ms) != 1:
            raise AnalysisBroken("%s::%s: %d definitions (1 confirmed by reading)" % (cls, op, len(ms)))
        m = ms[0]
        b = tbf.body(m)
        pids = [p["did"] for p in m["params"]]
        pnames = [p["name"] for p in m["params"]]
        calls = []
        for x in walk(b):
            if x.get("k") in ("CallExpr", "CXXMemberCallExpr"):
                callee = strip(kids(x)[0])
                q = callee.get("qual", "") or ""
                if "callee" in x:
                    q = x["callee"]
                if callee.get("k") in ("DependentScopeDeclRefExpr", "UnresolvedLookupExpr", "CXXDependentScopeMemberExpr", "MemberExpr", "UnresolvedMemberExpr") and "RealKernel" in (q + facts.ntext(callee)):
                    calls.append((x, callee.get("name")))
        n += 1
        where = facts.loc(m)
        f = tbf.rel(facts.path_of(m))
        res.instance("C18.1.forwarding", "%s::%s" % (cls, op), where, "forwards to %s" % [("RealKernel::%s" % c[1]) for c in calls])
        if len(calls) != 1:
            res.violation("C18.1.forwarding", f, m["qname"], op + ":count", m["l"][1], "operator %s forwards %d times to the wrapped kernel (exactly once expected)" % (op, len(calls)))
            continue
        call, target = calls[0]
        if target != op:
            res.violation("C18.1.forwarding", f, m["qname"], op + ":target", call["l"][1], "operator %s forwards to RealKernel::%s instead of RealKernel::%s" % (op, target, op))
        args = [strip(a) for a in tbf.call_args(call)]
        got = [a.get("did") if a.get("k") == "DeclRefExpr" else None for a in args]
        if got != pids:
            gnames = [a.get("name", facts.ntext(a)) for a in args]
            res.violation("C18.1.forwarding", f, m["qname"], op + ":args", call["l"][1],
                          "arguments are not the operator's own parameters in order: passes (%s), parameters are (%s)" % (", ".join(gnames), ", ".join(pnames)))
        # nothing writes a parameter
        for x in walk(b):
            if x.get("k") in ("BinaryOperator", "CompoundAssignOperator") and x.get("op", "").endswith("=") and x.get("op") not in ("==", "!=", "<=", ">="):
                lhs = strip(kids(x)[0])
                root = lhs
                while root.get("k") in ("ArraySubscriptExpr", "MemberExpr", "CXXDependentScopeMemberExpr", "UnaryOperator", "CXXOperatorCallExpr") and kids(root):
                    root = strip(kids(root)[0] if root.get("k") != "CXXOperatorCallExpr" else kids(root)[1])
                if root.get("k") == "DeclRefExpr" and root.get("did") in pids:
                    res.violation("C18.1.forwarding", f, m["qname"], op + ":writes-arg", x["l"][1], "decorator writes its argument '%s' before forwarding" % root.get("name"))
        # a const operator cannot update the decorator's own state (and cannot call a non-const wrapped operator)
        if m.get("const") and cls != "TbfInteractionPrinter":
            res.violation("C18.1.forwarding", f, m["qname"], op + ":const", m["l"][1], "operator %s is const but updates the decorator's state: it does not instantiate" % op)
    return n


def increments(facts, res):
    cls = "TbfInteractionCounter"
    n = 0
    for m in facts.methods_of(cls):
        op = m["name"]
        if op not in OPS:
            continue
        roles = coherence.ROLES[op]
        if len(roles) != len(m["params"]):
            raise AnalysisBroken("%s::%s has %d parameters, operator interface has %d" % (cls, op, len(m["params"]), len(roles)))
        sym_of = {}
        counts = {}
        for p, (role, part, io) in zip(m["params"], roles):
            if part == "count":
                s = sympy.Symbol("n_" + role, integer=True)
                sym_of[p["did"]] = s
                counts[(role, part)] = s
        field, want_f = INCREMENT[op]
        want = sympy.expand(want_f(counts))
        incs = []
        cfields = set(f["name"] for f in facts.cls(cls).get("fields", []))

        def counter_field(lhs):
            """`<member of this>.<field>`: the state record of the decorator, whatever it is called"""
            lhs = strip(lhs)
            if lhs.get("k") in ("MemberExpr", "CXXDependentScopeMemberExpr") and kids(lhs):
                b = strip(kids(lhs)[0])
                if b.get("k") in ("MemberExpr", "CXXDependentScopeMemberExpr") and b.get("name") in cfields:
                    return lhs.get("name")
            return None
        # private helpers of the decorator called as statements are spliced in (their parameters replaced by the arguments)
        mx = tbf.expand_member_helpers(facts, m)
        for x in walk(tbf.body(mx)):
            if x.get("k") == "CompoundAssignOperator" and x.get("op") == "+=" and counter_field(kids(x)[0]):
                incs.append((counter_field(kids(x)[0]), to_sym(kids(x)[1], sym_of, facts), x))
            elif x.get("k") == "UnaryOperator" and x.get("op") == "++" and counter_field(kids(x)[0]):
                incs.append((counter_field(kids(x)[0]), sympy.Integer(1), x))
            elif x.get("k") in ("CallExpr", "CXXMemberCallExpr") and tbf.call_base(x) is not None:
                # an increment through a member function of the state record: `counters.add...(a, b)` with `field += f(params)` inside
                b0 = strip(tbf.call_base(x))
                if b0.get("k") in ("MemberExpr", "CXXDependentScopeMemberExpr") and b0.get("name") in cfields:
                    rec = [f_["t"].split("::")[-1] for f_ in facts.cls(cls).get("fields", []) if f_["name"] == b0["name"]]
                    cands = [g for g in facts.functions if g["name"] == tbf.callee_name(x) and tbf.body(g) is not None and not g.get("inst")
                             and rec and (g.get("cls") or "").split("::")[-1] == rec[0] and len(g["params"]) == len(tbf.call_args(x))]
                    if len(cands) == 1:
                        g = cands[0]
                        sub = {p_["did"]: to_sym(a_, sym_of, facts) for p_, a_ in zip(g["params"], tbf.call_args(x))}
                        rfields = set(f_["name"] for c_ in facts.classes if c_["name"].split("::")[-1] == rec[0] for f_ in c_.get("fields", []))
                        for y in walk(tbf.body(g)):
                            t_ = strip(kids(y)[0]) if y.get("k") in ("CompoundAssignOperator", "UnaryOperator") and kids(y) else None
                            if t_ is not None and t_.get("k") in ("MemberExpr", "CXXDependentScopeMemberExpr") and t_.get("name") in rfields and (not kids(t_) or strip(kids(t_)[0]).get("k") == "CXXThisExpr"):
                                if y.get("k") == "CompoundAssignOperator" and y.get("op") == "+=":
                                    incs.append((t_["name"], to_sym(kids(y)[1], sub, facts), x))
                                elif y.get("k") == "UnaryOperator" and y.get("op") == "++":
                                    incs.append((t_["name"], sympy.Integer(1), x))
        n += 1
        res.instance("C18.2.increment", "%s::%s" % (cls, op), facts.loc(m), "counters.%s += %s (documented: %s)" % (field, [str(i[1]) for i in incs], want))
        f = tbf.rel(facts.path_of(m))
        if len(incs) != 1:
            res.violation("C18.2.increment", f, m["qname"], op, m["l"][1], "operator %s performs %d counter increments (exactly one expected)" % (op, len(incs)))
            continue
        fld, expr, node = incs[0]
        if fld != field:
            res.violation("C18.2.increment", f, m["qname"], op + ":field", node["l"][1], "operator %s increments counter '%s' instead of '%s'" % (op, fld, field))
        if expr is None or sympy.expand(expr - want) != 0:
            res.violation("C18.2.increment", f, m["qname"], op + ":amount", node["l"][1], "operator %s adds %s, the number of elementary interactions of the call is %s" % (op, expr, want))
    return n


def to_sym(n, sym_of, facts):
    n = strip(n)
    k = n.get("k")
    if k == "IntegerLiteral":
        return sympy.Integer(n["val"])
    if k == "DeclRefExpr":
        return sym_of.get(n.get("did"), sympy.Symbol("<" + n.get("name", "?") + ">"))
    if k == "BinaryOperator" and n.get("op") in ("+", "-", "*"):
        a, b = [to_sym(x, sym_of, facts) for x in kids(n)]
        if a is None or b is None:
            return None
        return {"+": a + b, "-": a - b, "*": a * b}[n["op"]]
    if k in ("CXXStaticCastExpr", "CStyleCastExpr", "CXXFunctionalCastExpr"):
        return to_sym(kids(n)[0], sym_of, facts)
    return None


def reduce_coverage(facts, res):
    for cls, rname in (("Counters", "Counters"), ("Timers", "Timers")):
        c = [x for x in facts.classes if x["name"] == cls]
        if len(c) != 1:
            raise AnalysisBroken("struct %s not found" % cls)
        fields = [f["name"] for f in c[0]["fields"]]
        red = [m for m in facts.functions if m.get("cls") == cls and m["name"] == "Reduce" and not m.get("inst")]
        if len(red) != 1:
            raise AnalysisBroken("%s::Reduce not found" % cls)
        m = red[0]
        b = tbf.body(m)
        # generic form: the fields listed once as pointers to member, each summed over all operands with std::accumulate
        ptrs = [y.get("name") or (y.get("qname") or "").split("::")[-1] for y in walk(b) if y.get("k") == "UnaryOperator" and y.get("op") == "&" and kids(y)
                and strip(kids(y)[0]).get("k") in ("DeclRefExpr", "DependentScopeDeclRefExpr") and (strip(kids(y)[0]).get("name") in fields)]
        ptrs = [strip(kids(y)[0]).get("name") for y in walk(b) if y.get("k") == "UnaryOperator" and y.get("op") == "&" and kids(y) and strip(kids(y)[0]).get("name") in fields]
        accs = [y for y in walk(b) if y.get("k") == "CallExpr" and tbf.callee_name(y) == "accumulate"]
        if ptrs and accs:
            f_ = tbf.rel(facts.path_of(m))
            for fld in fields:
                k_ = ptrs.count(fld)
                res.instance("C18.3.reduce-covers-fields", "%s::%s" % (cls, fld), facts.loc(m), "listed %d time(s) in the pointer-to-member list" % k_)
                if k_ != 1:
                    res.violation("C18.3.reduce-covers-fields", f_, m["qname"], fld, m["l"][1], "field %s of %s appears %d time(s) in the list of merged fields (once expected)" % (fld, cls, k_))
            ftypes = {f2["name"]: f2.get("t", "") for f2 in c[0]["fields"]}
            for a_ in accs:
                args = tbf.call_args(a_)
                init = strip(args[2]) if len(args) >= 3 else None
                t_init = (init or {}).get("t", "")
                lit_int = init is not None and init.get("k") == "IntegerLiteral" and t_init in ("int", "")
                wide = set(ftypes.values())
                res.instance("C18.3.reduce-covers-fields", "%s::Reduce accumulate@%d" % (cls, a_["l"][1]), facts.loc(a_), "initial value `%s` of type %s; fields are %s" % (facts.ntext(init)[:30] if init else "?", t_init or "int", sorted(wide)))
                if init is None or lit_int or (t_init in ("int", "unsigned int", "float") and any(t_ not in ("int", "unsigned int", "float") for t_ in wide)):
                    res.violation("C18.3.reduce-covers-fields", f_, m["qname"], "accumulate-type@%d" % a_["l"][1], a_["l"][1],
                                  "std::accumulate sums the %s fields of %s starting from `%s`, an %s: the running sum has that type, so a merged count of 2^31 or more is truncated although every per-worker counter is exact" % ("/".join(sorted(wide)), cls, facts.ntext(init)[:20] if init else "?", t_init or "int"))
            continue
        if len(m["params"]) != 2:
            raise AnalysisBroken("%s::Reduce has %d parameters and is not the pointer-to-member / accumulate form: re-confirm by reading" % (cls, len(m["params"])))
        p1, p2 = [p["did"] for p in m["params"]]
        seen = {f: {"a": 0, "b": 0} for f in fields}
        seeded_from_a = False
        for x in walk(b):
            if x.get("k") == "VarDecl" and x.get("name") == "result":
                if any(y.get("k") == "DeclRefExpr" and y.get("did") == p1 for y in walk(x)):
                    seeded_from_a = True
            if x.get("k") in ("MemberExpr", "CXXDependentScopeMemberExpr") and x.get("name") in seen and kids(x):
                base = strip(kids(x)[0])
                if base.get("k") == "DeclRefExpr" and base.get("did") == p1:
                    seen[x["name"]]["a"] += 1
                if base.get("k") == "DeclRefExpr" and base.get("did") == p2:
                    seen[x["name"]]["b"] += 1
        for fld in fields:
            a = seen[fld]["a"] + (1 if seeded_from_a else 0)
            bb = seen[fld]["b"]
            res.instance("C18.3.reduce-covers-fields", "%s::%s" % (cls, fld), facts.loc(m), "first operand used %d time(s), second %d" % (a, bb))
            if a != 1 or bb != 1:
                res.violation("C18.3.reduce-covers-fields", tbf.rel(facts.path_of(m)), m["qname"], fld, m["l"][1],
                              "field %s of %s is merged from the first operand %d time(s) and from the second %d time(s) (once each expected)" % (fld, cls, a, bb))
        # cross-check: every merge statement mentions exactly one field (the same on both sides)
        for x in walk(b):
            stmt = None
            if x.get("k") in ("BinaryOperator", "CompoundAssignOperator") and x.get("op") in ("=", "+="):
                stmt = x
            elif x.get("k") in ("CallExpr", "CXXMemberCallExpr") and tbf.callee_name(x) == "merge":
                stmt = x
            if stmt is None:
                continue
            names = set(y["name"] for y in walk(stmt) if y.get("k") in ("MemberExpr", "CXXDependentScopeMemberExpr") and y.get("name") in fields)
            if len(names) > 1:
                res.violation("C18.3.reduce-covers-fields", tbf.rel(facts.path_of(m)), m["qname"], "mixed:" + "+".join(sorted(names)), stmt["l"][1],
                              "one merge statement mixes the fields %s: a counter is merged into another one" % sorted(names))


def merge_accumulates(facts, res, R="C18.3.merge-accumulates"):
    """Timers::Reduce seeds the result from its first operand and calls `field.merge(other.field)` for the second: the merged value holds both
    operands only if merge() ADDS its argument's state to the object's (`+=` from the argument's same member, or x = x + other.x)."""
    n = 0
    cands = [g for g in facts.functions if g["name"] == "merge" and g.get("cls") == "TbfTimer" and tbf.body(g) is not None and not g.get("inst") and len(g["params"]) == 1]
    if len(cands) != 1:
        raise AnalysisBroken("TbfTimer::merge(const TbfTimer&) not found (%d candidates)" % len(cands))
    g = cands[0]
    p = g["params"][0]["did"]
    fields = set(f["name"] for c in facts.classes if c["name"] == "TbfTimer" for f in c.get("fields", []))
    stores = []
    for x in walk(tbf.body(g)):
        if x.get("k") in ("BinaryOperator", "CompoundAssignOperator", "CXXOperatorCallExpr") and x.get("op") in ("=", "+="):
            l, r = (kids(x)[0], kids(x)[1]) if x.get("k") != "CXXOperatorCallExpr" else (kids(x)[1], kids(x)[2])
            l = strip(l)
            if l.get("k") in ("MemberExpr", "CXXDependentScopeMemberExpr") and l.get("name") in fields:
                from_arg = any(z.get("k") in ("MemberExpr", "CXXDependentScopeMemberExpr") and z.get("name") == l["name"] and kids(z) and strip(kids(z)[0]).get("did") == p for z in walk(r))
                keeps_own = x.get("op") == "+=" or any(z.get("k") in ("MemberExpr", "CXXDependentScopeMemberExpr") and z.get("name") == l["name"] and (not kids(z) or strip(kids(z)[0]).get("k") == "CXXThisExpr") for z in walk(r))
                stores.append((x, l["name"], from_arg, keeps_own))
    if not stores:
        raise AnalysisBroken("TbfTimer::merge: no store to a member found")
    for x, nm, from_arg, keeps_own in stores:
        n += 1
        res.instance(R, "TbfTimer::merge %s" % nm, facts.loc(x), "`%s`: takes the argument's %s: %s, keeps its own: %s" % (facts.ntext(x)[:50], nm, from_arg, keeps_own))
        if from_arg and not keeps_own:
            res.violation(R, tbf.rel(facts.path_of(x)), g["qname"], "overwrites:%s" % nm, x["l"][1],
                          "merge() assigns the argument's '%s' instead of adding it: Timers::Reduce(a, b), the documented way to merge the per-worker timers, returns b's time and drops a's - merged over n workers only the last worker's time is left" % nm)
    return n


def apply_to_all(facts, res):
    for cls in EXECUTORS:
        ms = [m for m in facts.methods_of(cls) if m["name"] == "applyToAllKernels"]
        if len(ms) != 1:
            raise AnalysisBroken("%s::applyToAllKernels not found" % cls)
        m = ms[0]
        b = tbf.body(m)
        fields = {f["name"]: f["t"] for f in facts.cls(cls)["fields"]}
        ok = False
        how = ""
        if "kernels" in fields:
            for x in walk(b):
                if x.get("k") == "CXXForRangeStmt":
                    rng = strip(x["c"][1])
                    if rng.get("name") == "kernels":
                        var = x["c"][0]
                        calls = [c for c in walk(x["c"][2]) if c.get("k") == "CallExpr" and any(strip(a).get("did") == var["did"] for a in tbf.call_args(c))]
                        ok = bool(calls)
                        how = "range-for over the per-worker vector, callback applied to each element"
        elif "kernel" in fields:
            calls = [c for c in walk(b) if c.get("k") == "CallExpr" and any(strip(a).get("name") == "kernel" for a in tbf.call_args(c))]
            ok = len(calls) == 1
            how = "single kernel, callback applied once"
        res.instance("C18.3.apply-visits-all", cls, facts.loc(m), how)
        if not ok:
            res.violation("C18.3.apply-visits-all", tbf.rel(facts.path_of(m)), m["qname"], "visit", m["l"][1], "applyToAllKernels does not hand every kernel copy to the callback")


SHRINKERS = {"pop_back", "erase", "clear", "resize", "assign", "swap", "shrink_to_fit"}


def kernel_vector_lifetime(facts, res):
    """per-worker kernel copies (which hold the counters) live as long as the executor: the vector of
    kernels is only ever grown (emplace_back / push_back / reserve), never shrunk, cleared or replaced"""
    R = "C18.3.kernels-only-grow"
    for cls in EXECUTORS:
        fields = {f["name"]: f["t"] for f in facts.cls(cls)["fields"]}
        if "kernels" not in fields:
            continue
        n = 0
        for m in facts.methods_of(cls):
            b = tbf.body(m)
            if b is None:
                continue
            for x in walk(b):
                if x.get("k") in ("CallExpr", "CXXMemberCallExpr"):
                    base = tbf.call_base(x)
                    if base is not None and strip(base).get("name") == "kernels" and strip(base).get("k") == "MemberExpr":
                        nm = tbf.callee_name(x)
                        n += 1
                        res.instance(R, "%s::%s kernels.%s" % (cls, m["name"], nm), facts.loc(x), facts.ntext(x)[:80])
                        if nm in SHRINKERS:
                            res.violation(R, tbf.rel(facts.path_of(x)), m["qname"], "kernels.%s@%d" % (nm, x["l"][1]), x["l"][1],
                                          "the per-worker kernel vector is shrunk/replaced (kernels.%s): counters held by the removed copies are lost before they can be merged" % nm)
                if x.get("k") in ("BinaryOperator", "CXXOperatorCallExpr") and x.get("op") == "=":
                    lhs = strip(kids(x)[0] if x.get("k") == "BinaryOperator" else kids(x)[1])
                    if lhs.get("k") == "MemberExpr" and lhs.get("name") == "kernels":
                        res.violation(R, tbf.rel(facts.path_of(x)), m["qname"], "kernels=@%d" % x["l"][1], x["l"][1], "the per-worker kernel vector is reassigned")
        if n < 2:
            raise AnalysisBroken("%s: fewer than 2 uses of the kernel vector found" % cls)


def counters_travel(facts, res, classes=("TbfInteractionCounter", "TbfInteractionTimer"), R="C18.5.counters-travel"):
    """The counts live in the kernel object.  Executors keep kernels in vectors (growth relocates them) and users keep executors in
    containers or hand a used kernel on: relocating an object must not change what it has counted.  Decided on the special members: a
    move constructor / move assignment that exists carries every state member of the decorator from its argument; where the class declares
    a copy operation (which suppresses the implicit move) and no move, relocation IS that copy, and the copy must carry them.  A copy that
    starts from zero is fine as long as a move that carries the counts is declared next to it."""
    n = 0
    for cls in classes:
        cl = [c for c in facts.classes if c["name"] == cls]
        if len(cl) != 1:
            raise AnalysisBroken("%s: class not found" % cls)
        state = [f["name"] for f in cl[0].get("fields", [])]
        if not state:
            raise AnalysisBroken("%s: no state member found (counters confirmed by reading)" % cls)
        ms = [m for m in facts.methods_of(cls) if not m.get("inst")]

        def special(kind, move):
            out = []
            for m in ms:
                if (kind == "ctor" and m["kind"] == "CXXConstructor") or (kind == "assign" and m["name"] == "operator="):
                    if len(m["params"]) == 1:
                        t = m["params"][0]["t"]
                        if re.search(r"\b%s\b" % cls, t) and (("&&" in t) == move) and "&" in t:
                            out.append(m)
            return out

        def carries(m):
            """state members not taken from the argument"""
            if m.get("defaulted"):
                return []
            if m.get("deleted") or tbf.body(m) is None:
                return list(state)
            p = m["params"][0]["did"]
            got = set()

            def from_arg(e, f):
                return any(z.get("k") in ("MemberExpr", "CXXDependentScopeMemberExpr") and z.get("name") == f and kids(z) and any(y.get("did") == p for y in walk(kids(z)[0])) for z in walk(e))
            for i in m.get("inits", []):
                if i.get("member") in state and i.get("written") and any(from_arg(c_, i["member"]) for c_ in i.get("c", []) if c_):
                    got.add(i["member"])
            for x in walk(tbf.body(m)):
                if x.get("k") in ("BinaryOperator", "CXXOperatorCallExpr") and x.get("op") == "=":
                    l, r = (kids(x)[0], kids(x)[1]) if x.get("k") == "BinaryOperator" else (kids(x)[1], kids(x)[2])
                    l = strip(l)
                    if l.get("k") in ("MemberExpr", "CXXDependentScopeMemberExpr") and l.get("name") in state and from_arg(r, l["name"]):
                        got.add(l["name"])
            return [f for f in state if f not in got]
        for kind, what in (("ctor", "constructor"), ("assign", "assignment")):
            mv, cp = special(kind, True), special(kind, False)
            n += 1
            res.instance(R, "%s %s" % (cls, what), facts.loc(cl[0]) if cl[0].get("l") else cls, "state %s; move %s declared %s; copy %s declared %s"
                         % (state, what, "yes" if mv else "no (implicit or suppressed)", what, "yes" if cp else "no (implicit)"))
            for m in mv:
                left = carries(m)
                if left:
                    res.violation(R, tbf.rel(facts.path_of(m)), m["qname"], "move-%s:%s" % (kind, ",".join(left)), m["l"][1],
                                  "the move %s of %s does not take %s from its argument: a kernel relocated by its container (vector growth, an executor moved or stored) forgets what it has counted" % (what, cls, left))
            if not mv:
                # any user-declared copy operation suppresses the implicit move: relocation falls back to the copy
                for m in cp:
                    left = carries(m)
                    if left:
                        res.violation(R, tbf.rel(facts.path_of(m)), m["qname"], "copy-as-move-%s:%s" % (kind, ",".join(left)), m["l"][1],
                                      "%s declares a copy %s that does not take %s from its argument and no move %s: declaring the copy suppresses the implicit move, so every relocation of a kernel (vector growth, an executor object moved or stored in a container) goes through this copy and the counts made so far are lost" % (cls, what, left, what))
    return n


def run(res, tier):
    facts = tbf.scan("core")
    res.units.append("umbrella TU 'core': TbfInteractionCounter/Timer/Printer, Counters/Timers::Reduce, applyToAllKernels of 6 executors")
    res.rule("C18.1 decorator operator M = state update + exactly one RealKernel::M(own parameters in order); no argument written; not const when it updates state")
    res.rule("C18.2 counter increment == documented count as a polynomial in the count parameters (role table of the operator interface)")
    res.rule("C18.3 Reduce merges every field once from each operand; applyToAllKernels visits every kernel copy; the per-worker kernel vector only grows (copies and their counters live as long as the executor); (per-worker kernel selection is C03.d)")
    res.rule("C18.4 README merge snippet + decorator composition compile for sequential, OpenMP and target/source executors")
    n = 0
    for cls in DECORATORS:
        n += forwarding(facts, cls, res)
    res.floor("C18.1", n, 24, "decorator operators")
    k = increments(facts, res)
    res.floor("C18.2", k, 8, "counter operators")
    reduce_coverage(facts, res)
    res.floor("C18.3.merge-accumulates", merge_accumulates(facts, res), 1, "stores of TbfTimer::merge")
    apply_to_all(facts, res)
    kernel_vector_lifetime(facts, res)
    res.rule("C18.5 counters travel with the kernel object: a declared move constructor / assignment of a counting decorator takes its state from the argument; a declared copy without a declared move (the implicit move is then suppressed) must take it too")
    res.floor("C18.5", counters_travel(facts, res), 4, "special-member slots of the counting decorators")
    # every operator application of a task executor goes through its own stages and its own per-worker kernels (the objects applyToAllKernels visits)
    import c03
    import stages
    res.rule("C18.3b execute() of the task executors touches the tree only through its stage functions and never constructs anything from an element of the per-worker kernel vector")
    for cls in ("TbfOpenmpAlgorithm", "TbfOpenmpAlgorithmTsm"):
        ex = stages.ExecutorSummary(facts, cls)
        ns = c03.only_through_stages(facts, ex, res, R="C18.3.counted-in-visited-kernels")
        res.instance("C18.3.counted-in-visited-kernels", cls + "::execute", facts.loc(ex.execute), "%d stage calls, no other call receives the tree" % ns)
    res.rule("C18.4b every merge entry point the decorators declare instantiates: the kernel's own static Reduce(a, b) over its ReduceType gives the type the documented ReduceType::Reduce gives")
    for comp in (("g++",) if tier == "quick" else ("g++", "clang++")):
        rc, err = tbf.compile_witness(ENTRY_TU, compiler=comp, name="c18_entries.cpp", max_errors=5)
        res.instance("C18.4.merge-entries", comp, "witness:c18_entries", "TbfInteractionCounter / TbfInteractionTimer / counter(timer): Kernel::Reduce(a, b)")
        if rc != 0:
            f, line, msg, _ = witness.first_src_error(err)
            res.violation("C18.4.merge-entries", f, "<witness c18_entries>", "%s:Reduce" % os.path.basename(f), line, "a merge entry point of the counting decorators does not compile when used: " + msg[:300])
    for comp in (("g++",) if tier == "quick" else ("g++", "clang++")):
        rc, err = tbf.compile_witness(MERGE_TU, compiler=comp, name="c18_merge.cpp", max_errors=5)
        res.instance("C18.4.merge-witness", comp, "witness:c18_merge", "counter/timer/counter(timer)/printer x sequential/OpenMP/target-source, README merge")
        if rc != 0:
            f, line, msg, _ = witness.first_src_error(err)
            res.violation("C18.4.merge-witness", f, "<witness c18_merge>", "%s:%d" % (f, line), line, "documented merge / wrapped kernel does not compile: " + msg[:300])
