"""C02 — every operator call receives geometrically consistent arguments.

Decided clauses (structural; value-level geometry is not decided):
 1 role coherence: at every kernel call of the group wrapper (and of the periodic top-tree
   executors) all argument slots that describe the same object are fed from the same group and the
   same index; position codes come from the same interaction record / the same child as the cell
   they describe; each slot is fed by the accessor of its part; vectors, position arrays and counts
   are filled in lock step
 2 level/role agreement: in every executor the level argument is the loop level, the parent group
   is taken from that level and the child group from the next one, transfer groups from that level
 3 array-fill / non-empty idiom: position arrays are filled `a[n] = e; n += 1` with n starting at 0
   (or constant slots covering [0,n)), and every wrapper kernel call is dominated by n > 0
"""
import re

import sympy

import tbf
import stages
import effects
import coherence
import taskdeps
from coherence import ROLES, PART_ACCESSORS
from tbf import walk, kids, strip, AnalysisBroken

LEVEL = "other"
TECHNIQUE = "slot-level role-coherence, level/role origin analysis and array-fill idiom rules over the clang AST of the wrapper and of every executor"

TOPTREES = ["TbfAlgorithmPeriodicTopTree", "TbfAlgorithmPeriodicTopTreeTsm"]
EXECUTORS = ["TbfAlgorithm", "TbfAlgorithmTsm", "TbfOpenmpAlgorithm", "TbfOpenmpAlgorithmTsm"]


def record_of(index_origin):
    """interaction record an index expression is derived from:  P[i].member  ->  P[i]"""
    m = re.search(r"(param\d+\[[^\]]*\])\.(indexSrc|globalTargetPos|arrayIndexSrc|indexTarget)", index_origin)
    return (m.group(1), m.group(2)) if m else (None, None)


def same_compound(a, b):
    pa = a.get("_p")
    while pa is not None and pa.get("k") != "CompoundStmt":
        pa = pa.get("_p")
    pb = b.get("_p")
    while pb is not None and pb.get("k") != "CompoundStmt":
        pb = pb.get("_p")
    return pa is pb and pa is not None


def role_coherence(facts, fn, sr, call, op, slots, res, R="C02.1.role-coherence"):
    roles = ROLES[op]
    fnq = fn["qname"]
    f = tbf.rel(facts.path_of(call))
    line = call["l"][1]
    key0 = "%s->%s@%d" % (fn["name"], op, line)
    if len(slots) != len(roles):
        raise AnalysisBroken("%s: kernel.%s called with %d args, interface has %d" % (facts.loc(call), op, len(slots), len(roles)))
    byrole = {}
    for (role, part, io), s in zip(roles, slots):
        byrole.setdefault(role, []).append((part, io, s))
        if part == "level" and fn.get("cls") == "TbfGroupKernelInterface":
            # the wrapper hands its own level parameter on, unmodified
            if s["kind"] != "level":
                res.violation(R, f, fnq, key0 + ":level", line, "the level handed to %s is `%s`, not the wrapper's own level parameter" % (op, facts.ntext(s["node"])[:60]))
    descr = []
    for role, items in byrole.items():
        if role == "":
            continue
        accs = []
        for part, io, s in items:
            if s["kind"] == "acc":
                accs.append((part, s))
                if s["accessor"] not in PART_ACCESSORS.get(part, set()):
                    res.violation(R, f, fnq, "%s:%s.%s" % (key0, role, part), line, "slot '%s %s' of %s is fed by accessor %s" % (role, part, op, s["accessor"]))
            elif s["kind"] == "vec":
                for e in s["elems"]:
                    if e.get("kind") == "acc":
                        accs.append((part, e))
                        if e["accessor"] not in PART_ACCESSORS.get(part, set()):
                            res.violation(R, f, fnq, "%s:%s.%s" % (key0, role, part), line, "vector slot '%s %s' of %s is filled through accessor %s" % (role, part, op, e["accessor"]))
                if not s["elems"] and s.get("escaped") is not None:
                    # filled by a callee through a reference parameter (possibly through an accessor callback): which cells it holds is not
                    # followed; the position codes that accompany it are still judged below
                    res.instance(R, "%s %s:%s.%s" % (fnq, key0, role, part), facts.loc(s["escaped"]), "vector filled by %s() through a reference parameter: contents not followed" % tbf.callee_name(s["escaped"]))
                elif not s["elems"]:
                    res.violation(R, f, fnq, "%s:%s.%s" % (key0, role, part), line, "vector handed as '%s %s' is never filled" % (role, part))
        # a leaf is described by two parallel containers (its cell group and its particle group): one group per container kind
        cellg = set(a["group"] for _p, a in accs if a["accessor"].startswith("getCell"))
        partg = set(a["group"] for _p, a in accs if not a["accessor"].startswith("getCell"))
        groups = cellg | partg
        idxs = set(a["index"] for _p, a in accs)
        descr.append("%s:{%s}[%s]" % (role, ",".join(sorted(groups)), ",".join(sorted(idxs))))
        if len(cellg) > 1 or len(partg) > 1 or len(idxs) > 1 or (role != "leaf" and len(groups) > 1):
            res.violation(R, f, fnq, "%s:%s" % (key0, role), line,
                          "the slots describing the %s of %s are fed from different objects: groups %s, indexes %s" % (role, op, sorted(groups), sorted(idxs)))
        # position / code slots of the role
        for part, io, s in items:
            if part == "positions":
                if s["kind"] != "arr" or not s["fills"]:
                    res.violation(R, f, fnq, "%s:%s.positions" % (key0, role), line, "position codes of the %s are not a locally filled array" % role)
                    continue
                vec = [x for p2, _io, x in items if x["kind"] == "vec"]
                cnt = [x for p2, _io, x in items if p2 == "count"]
                for fill in s["fills"]:
                    vo = (s.get("filler_fm") or sr.fm).origin(fill["value"])
                    if not [a_ for _p2, a_ in accs if a_.get("fill_node") is not None] and s.get("foreign") is not None:
                        # the cells are gathered by a helper this rule does not follow; a position code is still either the child code of a
                        # cell's index or the code member of an interaction record - never a running counter (the tree stores non-empty cells
                        # only: the n-th stored child is not the child at position n)
                        if "childPositionFromParent(" not in vo and "arrayIndexSrc" not in vo:
                            res.violation(R, f, fnq, "%s:%s.positions" % (key0, role), fill["node"]["l"][1],
                                          "position code `%s` (filled in %s()) is not the child position code of a cell's index: the tree stores non-empty cells only, so the n-th gathered child is not the child at position n whenever an octant is empty" % (vo[:80], s["foreign"]["name"]))
                    for _p, a in accs:
                        if a.get("fill_node") is None:
                            continue
                        okp = False
                        if "childPositionFromParent" in vo:
                            okp = (a["group"] + ".getCellSpacialIndex(" + a["index"] + ")") in vo
                        else:
                            rec_a, mem_a = record_of(a["index"])
                            rec_p, mem_p = record_of(vo)
                            okp = rec_a is not None and rec_a == rec_p and mem_a == "indexSrc" and mem_p == "arrayIndexSrc"
                        if not okp:
                            res.violation(R, f, fnq, "%s:%s.positions" % (key0, role), fill["node"]["l"][1],
                                          "position code '%s' is not derived from the same cell / interaction record as the %s it accompanies (%s[%s])" % (vo, role, a["group"], a["index"]))
                        if not s.get("foreign") and not same_compound(fill["node"], a["fill_node"]):
                            res.violation(R, f, fnq, "%s:%s.lockstep" % (key0, role), fill["node"]["l"][1], "position code and cell reference of the %s are not appended in the same block" % role)
    # cross-role: target and sources / source and target / code come from the same interaction record
    recs = {}
    for (role, part, io), s in zip(roles, slots):
        cand = []
        if s["kind"] == "acc":
            cand.append(s["index"])
        if s["kind"] == "vec":
            cand += [e["index"] for e in s["elems"] if e.get("kind") == "acc"]
        if s["kind"] == "code":
            cand.append(s["origin"])
        for c in cand:
            rec, mem = record_of(c)
            if rec:
                recs.setdefault(role or part, set()).add((rec, mem))
    allrec = set(r for v in recs.values() for r, _m in v)
    if len(allrec) == 2 and _same_source_run(facts, fn, call, recs):
        res.instance(R, key0 + ":record", facts.loc(call), "the source is looked up once for a run of records with the same source index (scan `[e].indexSrc == key`), targets and codes come from each record of the run")
        allrec = set()
    if len(allrec) == 2 and _same_target_run(facts, fn, sr, call, recs, slots):
        res.instance(R, key0 + ":record", facts.loc(call), "the target is the one of the first record of a run; the sources are gathered from each record while the record's target index equals the first's (loop condition `first.indexTarget == [i].indexTarget`)")
        allrec = set()
    if len(allrec) > 1:
        res.violation(R, f, fnq, key0 + ":record", line, "arguments of %s are taken from different interaction records: %s" % (op, {k: sorted(v) for k, v in recs.items()}))
    want = {"P2P": {"source": "indexSrc", "target": "globalTargetPos", "pair": "arrayIndexSrc"},
            "P2PTsm": {"source": "indexSrc", "target": "globalTargetPos", "pair": "arrayIndexSrc"},
            "M2L": {"sources": "indexSrc", "target": "globalTargetPos"}}.get(op, {})
    if recs:
        for role, mem in want.items():
            got = set(m for _r, m in recs.get(role, set()))
            if got and got != {mem}:
                res.violation(R, f, fnq, "%s:%s.member" % (key0, role), line, "the %s of %s is addressed through record member %s, expected %s" % (role, op, sorted(got), mem))
            if not got and fn.get("cls") == "TbfGroupKernelInterface":
                res.violation(R, f, fnq, "%s:%s.member" % (key0, role), line, "the %s of %s is not addressed through the interaction record" % (role, op))
    res.instance(R, key0, facts.loc(call), "; ".join(descr) + ("; record " + ",".join(sorted(allrec)) if allrec else ""))


def fill_idiom(facts, fn, sr, call, op, slots, res, R="C02.3.array-fill"):
    """position arrays: a[n]=e; n+=1 from n=0 (reset to 0 after each call) or constant slots [0,n)"""
    roles = ROLES[op]
    fnq = fn["qname"]
    f = tbf.rel(facts.path_of(call))
    fm = sr.fm
    for i, ((role, part, io), s) in enumerate(zip(roles, slots)):
        if part != "positions" or s["kind"] != "arr":
            continue
        if s.get("foreign"):
            # filled once by another member function: what its slots hold is judged by role coherence (same cells, same order) - the
            # counter idiom of a local array does not apply
            res.instance(R, "%s %s@%d:%s" % (fnq, op, call["l"][1], s["name"]), facts.loc(call), "member array filled by %s()" % s["foreign"]["name"])
            continue
        cnt = [x for (r2, p2, _io), x in zip(roles, slots) if r2 == role and p2 == "count"]
        if len(cnt) != 1 or cnt[0]["kind"] != "count":
            res.violation(R, f, fnq, "%s@%d:count" % (op, call["l"][1]), call["l"][1], "count handed with the position array of the %s is not a local counter" % role)
            continue
        n = cnt[0]
        if n.get("vecsize") is not None:
            vec_size_fill(facts, fn, sr, call, op, role, s, n, roles, slots, res, R)
            continue
        ndid = n["var"]
        ndecl = n["decl"]
        init = strip(kids(ndecl)[0]) if kids(ndecl) else None
        init_val = init.get("val") if init is not None and init.get("k") == "IntegerLiteral" else None
        # all writes to n
        incs, resets, other = [], [], []
        for x in walk(fm.body):
            k = x.get("k")
            if k == "CompoundAssignOperator" and strip(kids(x)[0]).get("did") == ndid:
                rhs = strip(kids(x)[1])
                (incs if x.get("op") == "+=" and rhs.get("k") == "IntegerLiteral" and rhs.get("val") == 1 else other).append(x)
            elif k == "UnaryOperator" and x.get("op") == "++" and strip(kids(x)[0]).get("did") == ndid:
                incs.append(x)
            elif k == "BinaryOperator" and x.get("op") == "=" and strip(kids(x)[0]).get("did") == ndid:
                rhs = strip(kids(x)[1])
                (resets if rhs.get("k") == "IntegerLiteral" and rhs.get("val") == 0 else other).append(x)
        idx_kinds = set()
        for fill in s["fills"]:
            ix = strip(fill["index"])
            if ix.get("k") == "DeclRefExpr" and ix.get("did") == ndid:
                idx_kinds.add("counter")
            elif ix.get("k") == "IntegerLiteral":
                idx_kinds.add("const")
            else:
                idx_kinds.add("other")
        key = "%s@%d:%s" % (op, call["l"][1], s["name"])
        detail = "array %s count %s: init=%s incs=%d resets=%d fills=%s" % (s["name"], n["name"], init_val, len(incs), len(resets), sorted(idx_kinds))
        res.instance(R, "%s %s" % (fnq, key), facts.loc(call), detail)
        if idx_kinds == {"counter"}:
            bad = []
            if init_val != 0:
                bad.append("the counter starts at %s, so slot 0 is never written" % (init_val if init_val is not None else "a non-literal value"))
            if other:
                bad.append("the counter is modified other than by +=1 / =0")
            for fill in s["fills"]:
                if not any(same_compound(fill["node"], inc) and inc["l"][1] >= fill["node"]["l"][1] for inc in incs):
                    bad.append("a fill at line %d is not followed by `%s += 1` in the same block" % (fill["node"]["l"][1], n["name"]))
            # a call inside the loop that fills the array must be followed by the reset of the counter and of the vector
            loop = None
            for a in tbf.ancestors(call):
                if a.get("k") in ("WhileStmt", "ForStmt", "DoStmt"):
                    loop = a
                    break
            declared_in_loop = loop is not None and any(x is ndecl for x in walk(loop))
            if loop is not None and not declared_in_loop and any(any(a is loop for a in tbf.ancestors(fill["node"])) for fill in s["fills"]):
                if not any(same_compound(r, call) and r["l"][1] > call["l"][1] for r in resets):
                    bad.append("the kernel call inside the filling loop is not followed by `%s = 0` in the same block (stale codes would be handed to the next call)" % n["name"])
                vecs = [x for (r2, p2, _io), x in zip(roles, slots) if r2 == role and x["kind"] == "vec"]
                for v in vecs:
                    clears = [c for c in walk(fm.body) if c.get("k") in ("CallExpr", "CXXMemberCallExpr") and tbf.callee_name(c) == "clear"
                              and tbf.call_base(c) is not None and strip(tbf.call_base(c)).get("did") == v["var"]]
                    if not any(same_compound(c, call) and c["l"][1] > call["l"][1] for c in clears):
                        bad.append("the kernel call inside the filling loop is not followed by `%s.clear()` in the same block" % v["name"])
            for b in bad:
                res.violation(R, f, fnq, key, call["l"][1], "array-fill idiom broken for '%s': %s; the kernel would read an unwritten / stale position code" % (s["name"], b))
        elif idx_kinds == {"const"}:
            lits = sorted(strip(fill["index"])["val"] for fill in s["fills"])
            if incs or other or resets or init_val is None or lits != list(range(init_val)):
                res.violation(R, f, fnq, key, call["l"][1], "constant-slot fill of '%s' writes slots %s but the count is %s" % (s["name"], lits, init_val))
        else:
            res.violation(R, f, fnq, key, call["l"][1], "position array '%s' is filled through an unrecognised index form %s" % (s["name"], sorted(idx_kinds)))


def vec_size_fill(facts, fn, sr, call, op, role, s, n, roles, slots, res, R):
    """the count handed to the kernel is the length of the vector of references: slot k of the position array must hold the code of
    element k of that vector.  Accepted: `a[v.size()] = e` in the same block as (and before) `v.emplace_back(...)`; or `a[i - i0] = e`
    where i advances by one in every iteration of the filling loop, i0 is i at the point the vector is empty, and the vector receives
    exactly one element in every iteration (an element appended under a condition lets the slot index run ahead of the vector)."""
    fm = sr.fm
    fnq = fn["qname"]
    f = tbf.rel(facts.path_of(call))
    vdid = n["vecsize"]
    vecs = [x for (r2, p2, _io), x in zip(roles, slots) if r2 == role and x["kind"] == "vec" and x["var"] == vdid]
    key = "%s@%d:%s" % (op, call["l"][1], s["name"])
    if not vecs:
        res.violation(R, f, fnq, key, call["l"][1], "the count handed with '%s' is the length of a vector that is not the %s list of this call" % (s["name"], role))
        return
    pushes = [x for x in walk(fm.body) if x.get("k") in ("CallExpr", "CXXMemberCallExpr") and tbf.callee_name(x) in ("emplace_back", "push_back")
              and tbf.call_base(x) is not None and strip(tbf.call_base(x)).get("did") == vdid]
    clears = [c for c in walk(fm.body) if c.get("k") in ("CallExpr", "CXXMemberCallExpr") and tbf.callee_name(c) == "clear" and tbf.call_base(c) is not None and strip(tbf.call_base(c)).get("did") == vdid]
    bad = []
    kinds = []
    for fill in s["fills"]:
        ix = strip(fill["index"])
        while ix.get("k") in ("CXXStaticCastExpr", "CStyleCastExpr", "CXXFunctionalCastExpr") and kids(ix):
            ix = strip(kids(ix)[0])
        if ix.get("k") in ("CallExpr", "CXXMemberCallExpr") and tbf.callee_name(ix) == "size" and tbf.call_base(ix) is not None and strip(tbf.call_base(ix)).get("did") == vdid:
            kinds.append("size")
            nxt = [p for p in pushes if same_compound(p, fill["node"]) and p["l"][1] >= fill["node"]["l"][1]]
            if len(nxt) != 1:
                bad.append("the code written at slot %s.size() (line %d) is not followed by exactly one append to that vector in the same block" % (vecs[0]["name"], fill["node"]["l"][1]))
            continue
        if ix.get("k") == "BinaryOperator" and ix.get("op") == "-":
            a, b = strip(kids(ix)[0]), strip(kids(ix)[1])
            kinds.append("offset")
            loop = None
            for an in tbf.ancestors(fill["node"]):
                if an.get("k") in ("WhileStmt", "ForStmt", "DoStmt"):
                    loop = an
                    break
            if loop is None or a.get("k") != "DeclRefExpr" or b.get("k") != "DeclRefExpr":
                bad.append("slot index `%s` is not (running counter - its value when the list was empty)" % facts.ntext(ix))
                continue
            lbody = loop["c"][0] if loop.get("k") == "DoStmt" else loop["c"][-1]
            top = kids(lbody) if lbody is not None and lbody.get("k") == "CompoundStmt" else []
            incs = [x for x in top if is_increment(x, a["did"])]
            all_incs = [x for x in walk(loop) if is_increment(x, a["did"])]
            bdecl = fm.decls.get(b["did"])
            b_ok = bdecl is not None and kids(bdecl) and strip(kids(bdecl)[0]).get("did") == a["did"] and b["did"] not in fm.assigned and not any(x is bdecl for x in walk(loop))
            top_push = [p for p in pushes if any(p is t or (t.get("k") not in ("IfStmt", "WhileStmt", "ForStmt", "DoStmt", "SwitchStmt", "CompoundStmt") and any(p is y for y in walk(t))) for t in top)]
            in_loop_push = [p for p in pushes if any(p is y for y in walk(loop))]
            if len(incs) != 1 or len(all_incs) != 1:
                bad.append("the counter `%s` of slot index `%s` does not advance exactly once per iteration" % (a.get("name"), facts.ntext(ix)))
            elif not b_ok:
                bad.append("`%s` in slot index `%s` is not the counter's value taken where the list is empty" % (b.get("name"), facts.ntext(ix)))
            elif len(top_push) != 1 or len(in_loop_push) != 1:
                cond = [p for p in in_loop_push if p not in top_push]
                bad.append("slot index `%s` advances in every iteration but %s: after an iteration that appends nothing, code k no longer belongs to element k of the list handed to %s" % (
                    facts.ntext(ix), ("'%s' receives an element only under a condition (line %d)" % (vecs[0]["name"], cond[0]["l"][1])) if cond else "the list does not receive exactly one element per iteration", op))
            elif fill["node"]["l"][1] > incs[0]["l"][1]:
                bad.append("the slot index is evaluated after the counter has advanced")
            continue
        kinds.append("other")
        bad.append("position array '%s' is filled through an unrecognised index form `%s`" % (s["name"], facts.ntext(ix)[:40]))
    # the call inside the filling loop is followed by the clear of the vector
    loop = None
    for an in tbf.ancestors(call):
        if an.get("k") in ("WhileStmt", "ForStmt", "DoStmt"):
            loop = an
            break
    if loop is not None and any(any(an is loop for an in tbf.ancestors(fill["node"])) for fill in s["fills"]) and not any(x is vecs[0]["decl"] for x in walk(loop)):
        if not any(same_compound(c, call) and c["l"][1] > call["l"][1] for c in clears):
            bad.append("the kernel call inside the filling loop is not followed by `%s.clear()` in the same block" % vecs[0]["name"])
    res.instance(R, "%s %s" % (fnq, key), facts.loc(call), "array %s, count = %s: fills %s, %d appends, %d clears" % (s["name"], n["name"], kinds, len(pushes), len(clears)))
    for b in bad:
        res.violation(R, f, fnq, key, call["l"][1], "array-fill idiom broken for '%s': %s; the kernel would read a position code that belongs to another cell" % (s["name"], b))


def is_increment(st, did):
    """`n += k` (k a positive literal), `++n` or `n++` as a statement"""
    st = strip(st)
    k = st.get("k")
    if k == "CompoundAssignOperator" and st.get("op") == "+=" and strip(kids(st)[0]).get("did") == did:
        return True
    return k == "UnaryOperator" and st.get("op") == "++" and strip(kids(st)[0]).get("did") == did


def _same_source_run(facts, fn, call, recs):
    """the source's record differs from the target's / code's record, legitimately: the call sits in `for(t = s; t < e; ++t)` where e was
    advanced by `while(e < n && records[e].indexSrc == records[s].indexSrc)` - every record of [s, e) has the source index of record s"""
    src_recs = set(r for role in ("source", "sources") for r, m in recs.get(role, set()) if m == "indexSrc")
    oth_recs = set(r for role, v in recs.items() if role not in ("source", "sources") for r, _m in v)
    if len(src_recs) != 1 or len(oth_recs) != 1 or src_recs == oth_recs:
        return False
    body = tbf.body(fn)
    tbf.link_parents(body)
    decls = {v["did"]: v for v in walk(body) if v.get("k") == "VarDecl"}
    for F in [a for a in tbf.ancestors(call) if a.get("k") == "ForStmt"]:
        init, cond = F["c"][0], F["c"][1]
        iv = [v for v in kids(init) if v.get("k") == "VarDecl"] if init is not None else []
        c0 = strip(cond) if cond is not None else None
        if len(iv) != 1 or not kids(iv[0]) or c0 is None or c0.get("k") != "BinaryOperator" or c0.get("op") != "<":
            continue
        S = strip(kids(iv[0])[0])
        E = strip(kids(c0)[1])
        if S.get("k") != "DeclRefExpr" or E.get("k") != "DeclRefExpr" or strip(kids(c0)[0]).get("did") != iv[0]["did"]:
            continue
        for W in walk(body):
            if W.get("k") != "WhileStmt" or W.get("b", 0) > F.get("b", 0):
                continue
            wc = facts.ntext(W["c"][-2]).replace(" ", "")
            m = re.search(r"\[%s\]\.indexSrc==(\w+(?:\[\w+\]\.indexSrc)?)" % re.escape(E.get("name", "?")), wc)
            if not m:
                continue
            key = m.group(1)
            key_ok = re.fullmatch(r"\w+\[%s\]\.indexSrc" % re.escape(S.get("name", "?")), key) is not None
            if not key_ok:
                kd = [v for v in decls.values() if v.get("name") == key and kids(v)]
                key_ok = bool(kd) and re.fullmatch(r"\w+\[%s\]\.indexSrc" % re.escape(S.get("name", "?")), facts.ntext(kids(kd[0])[0]).replace(" ", "")) is not None
            bump = any(x.get("k") in ("UnaryOperator", "CompoundAssignOperator") and strip(kids(x)[0]).get("did") == E.get("did") for x in walk(W["c"][-1]))
            if key_ok and bump:
                return True
    return False


def _same_target_run(facts, fn, sr, call, recs, slots):
    """the target's record differs from the sources' record, legitimately: the target is taken from the record bound at the start of a run
    (`first = records[i]`, i advanced afterwards) and every source is appended inside a loop that continues only while
    `first.indexTarget == records[i].indexTarget` - every record the sources come from has the target of the first"""
    trecs = set(r for r, m in recs.get("target", set()))
    srecs = set(r for role in ("source", "sources") for r, m in recs.get(role, set()))
    if len(trecs) != 1 or len(srecs) != 1 or trecs == srecs or "@old" not in list(trecs)[0]:
        return False
    trec, srec = list(trecs)[0], list(srecs)[0]
    body = tbf.body(fn)
    tbf.link_parents(body)
    fills = [e["fill_node"] for s_ in slots if s_.get("kind") == "vec" for e in s_.get("elems", []) if e.get("fill_node") is not None]
    if not fills:
        return False
    want = set([trec + ".indexTarget", srec + ".indexTarget"])
    for fl in fills:
        ok = False
        for L in [a for a in tbf.ancestors(fl) if a.get("k") in ("DoStmt", "WhileStmt", "ForStmt")]:
            cond = L["c"][-1] if L.get("k") == "DoStmt" else (L["c"][-2] if L.get("k") == "WhileStmt" else L["c"][1])
            if cond is None:
                continue
            pin0 = getattr(sr.fm, "_use_pin", None)
            sr.fm._use_pin = cond.get("b")
            try:
                for x in walk(cond):
                    if x.get("k") == "BinaryOperator" and x.get("op") == "==":
                        a_, b_ = sr.fm.origin(kids(x)[0]), sr.fm.origin(kids(x)[1])
                        if set([a_, b_]) == want:
                            ok = True
            finally:
                sr.fm._use_pin = pin0
        if not ok:
            return False
    return True


def non_empty(facts, fn, sr, call, op, slots, res, R="C02.3.non-empty"):
    """wrapper kernel calls with a (vector, count) source list are dominated by count > 0"""
    roles = ROLES[op]
    cnts = [x for (r2, p2, _io), x in zip(roles, slots) if p2 == "count" and x["kind"] == "count"]
    if not cnts:
        return
    n = cnts[0]
    if n.get("vecsize") is not None:
        non_empty_vec(facts, fn, sr, call, op, n, res, R)
        return
    ndid = n["var"]
    # a count that is a const local holding an accessor's value (`const long n = G.getNbParticlesInLeaf(i);`) is not the counter of a list
    # being filled: nothing increments it
    body_ = tbf.body(fn)
    decl_ = [v for v in walk(body_) if v.get("k") == "VarDecl" and v.get("did") == ndid]
    bumped = any((x.get("k") == "UnaryOperator" and x.get("op") in ("++", "--") or x.get("k") == "CompoundAssignOperator" or (x.get("k") == "BinaryOperator" and x.get("op") == "="))
                 and kids(x) and strip(kids(x)[0]).get("did") == ndid for x in walk(body_))
    if decl_ and kids(decl_[0]) and not bumped and strip(kids(decl_[0])[0]).get("k") in ("CallExpr", "CXXMemberCallExpr"):
        return
    ok = None
    how = ""
    cur = call
    while ok is None:
        par = cur.get("_p")
        if par is None:
            break
        if par.get("k") == "CompoundStmt":
            sibs = kids(par)
            pos = [i for i, x in enumerate(sibs) if x is cur][0]
            for sib in reversed(sibs[:pos]):
                k = sib.get("k")
                if is_increment(sib, ndid):
                    ok, how = True, "count incremented unconditionally at line %d before the call" % sib["l"][1]
                    break
                if k == "DoStmt":
                    body = sib["c"][0]
                    if any(is_increment(x, ndid) and x.get("_p") is body for x in kids(body)):
                        ok, how = True, "do-while body at line %d increments the count at least once" % sib["l"][1]
                        break
                if (k == "BinaryOperator" and sib.get("op") == "=" and strip(kids(sib)[0]).get("did") == ndid) or \
                        (k == "DeclStmt" and any(v.get("did") == ndid for v in kids(sib))):
                    ok, how = False, "count (re)set at line %d with no increment before the call" % sib["l"][1]
                    break
            if ok is not None:
                break
        if par.get("k") == "IfStmt" and cur is par["c"][1]:
            cond = strip(par["c"][0])
            if cond.get("k") == "DeclRefExpr" and cond.get("did") == ndid:
                ok, how = True, "guarded by if(%s)" % n["name"]
                break
            if cond.get("k") == "BinaryOperator" and cond.get("op") in (">", "!=") and strip(kids(cond)[0]).get("did") == ndid:
                ok, how = True, "guarded by if(%s %s ...)" % (n["name"], cond["op"])
                break
        if par.get("k") in ("WhileStmt", "ForStmt", "DoStmt", "LambdaExpr"):
            # statements of the loop body before the call were scanned; nothing guarantees an increment
            ok, how = False, "reached the head of the enclosing loop without an unconditional increment"
            break
        cur = par
    key = "%s@%d" % (op, call["l"][1])
    res.instance(R, "%s %s" % (fn["qname"], key), facts.loc(call), how or "no dominating increment or guard found")
    if not ok:
        res.violation(R, tbf.rel(facts.path_of(call)), fn["qname"], key, call["l"][1],
                      "kernel operator %s may be called with an empty list: %s" % (op, how or "no dominating increment or guard"))


def non_empty_vec(facts, fn, sr, call, op, n, res, R):
    """same rule when the count is the vector's length: an unconditional append dominates the call, or a guard on emptiness / size"""
    vdid = n["vecsize"]

    def is_push(st):
        st = strip(st)
        return st.get("k") in ("CallExpr", "CXXMemberCallExpr") and tbf.callee_name(st) in ("emplace_back", "push_back") and tbf.call_base(st) is not None and strip(tbf.call_base(st)).get("did") == vdid

    def guard_ok(cond, neg=False):
        c = strip(cond)
        if c.get("k") == "UnaryOperator" and c.get("op") == "!":
            return guard_ok(kids(c)[0], not neg)
        if c.get("k") in ("CallExpr", "CXXMemberCallExpr") and tbf.call_base(c) is not None and strip(tbf.call_base(c)).get("did") == vdid:
            if tbf.callee_name(c) == "empty":
                return neg
            if tbf.callee_name(c) == "size":
                return not neg
        if c.get("k") == "BinaryOperator" and c.get("op") in (">", "!=") and not neg:
            return guard_ok(kids(c)[0]) and facts.ntext(kids(c)[1]) == "0"
        if c.get("k") in ("CXXStaticCastExpr", "CStyleCastExpr", "CXXFunctionalCastExpr") and kids(c):
            return guard_ok(kids(c)[0], neg)
        return False
    ok, how = None, ""
    cur = call
    while ok is None:
        par = cur.get("_p")
        if par is None:
            break
        if par.get("k") == "CompoundStmt":
            sibs = kids(par)
            pos = [i for i, x in enumerate(sibs) if x is cur][0]
            for sib in reversed(sibs[:pos]):
                if is_push(sib):
                    ok, how = True, "element appended unconditionally at line %d before the call" % sib["l"][1]
                    break
                if sib.get("k") == "DoStmt" and any(is_push(x) for x in kids(sib["c"][0])):
                    ok, how = True, "do-while body at line %d appends at least one element" % sib["l"][1]
                    break
                s0 = strip(sib)
                if s0.get("k") in ("CallExpr", "CXXMemberCallExpr") and tbf.callee_name(s0) == "clear" and tbf.call_base(s0) is not None and strip(tbf.call_base(s0)).get("did") == vdid:
                    ok, how = False, "list cleared at line %d with no append before the call" % sib["l"][1]
                    break
            if ok is not None:
                break
        if par.get("k") == "IfStmt" and cur is par["c"][1] and guard_ok(par["c"][0]):
            ok, how = True, "guarded by `%s`" % facts.ntext(par["c"][0])
            break
        if par.get("k") in ("WhileStmt", "ForStmt", "DoStmt", "LambdaExpr"):
            ok, how = False, "reached the head of the enclosing loop without an unconditional append"
            break
        cur = par
    key = "%s@%d" % (op, call["l"][1])
    res.instance(R, "%s %s" % (fn["qname"], key), facts.loc(call), how or "no dominating append or guard found")
    if not ok:
        res.violation(R, tbf.rel(facts.path_of(call)), fn["qname"], key, call["l"][1], "kernel operator %s may be called with an empty list: %s" % (op, how or "no dominating append or guard"))


def wrapper_param_roles(facts, cmap):
    """wrapper method -> {role: param index} derived from which group parameter feeds which role"""
    out = {}
    for fn, sr, call, op, slots in coherence.wrapper_kernel_calls(facts, cmap):
        m = out.setdefault(fn["name"], {"level": None, "roles": {}, "op": op})
        for (role, part, io), s in zip(ROLES[op], slots):
            if part == "level" and s["kind"] == "level":
                m["level"] = int(s["origin"][5:])
            accs = [s] if s["kind"] == "acc" else (s["elems"] if s["kind"] == "vec" else [])
            for a in accs:
                g = re.match(r"^param(\d+)$", a.get("group", ""))
                if g and role:
                    m["roles"].setdefault(role, set()).add(int(g.group(1)))
    return out


LEVEL_OF = re.compile(r"^each\(tree\.getCellGroupsAtLevel\w*\((.*)\)\)$")
CB = re.compile(r"^cb(\d)\{TbfMapIndexesAndBlocks\((.*)\)\}$")


def group_level(origin):
    """symbolic level a cell-group origin is taken from, or None"""
    m = LEVEL_OF.match(origin)
    if m:
        return parse_level(m.group(1))
    m = CB.match(origin)
    if m:
        # cb0 = working group of the target container (4th mapper arg, or 2nd when 3 args), cb1 = mapped source container (2nd arg)
        args = split_args(m.group(2))
        which = int(m.group(1))
        cont = None
        if which == 1 and len(args) >= 2:
            cont = args[1]
        if which == 0:
            cont = args[3] if len(args) >= 4 else (args[1] if len(args) >= 2 else None)
        if cont:
            mm = re.match(r"^tree\.getCellGroupsAtLevel\w*\((.*)\)$", cont)
            if mm:
                return parse_level(mm.group(1))
    return None


def split_args(s):
    out, depth, cur = [], 0, ""
    for ch in s:
        if ch in "([{":
            depth += 1
        if ch in ")]}":
            depth -= 1
        if ch == "," and depth == 0:
            out.append(cur)
            cur = ""
        else:
            cur += ch
    out.append(cur)
    return out


def parse_level(txt):
    txt = txt.strip()
    if re.match(r"^[L0-9+\-() ]+$", txt):
        return sympy.sympify(txt, locals={"L": stages.L})
    return None


def level_role(facts, cls, wroles, res, R="C02.2.level-role"):
    ex = stages.ExecutorSummary(facts, cls)
    n = 0
    want = {"M2M": {"parent": 0, "children": 1}, "L2L": {"parent": 0, "children": 1}, "M2L": {"target": 0, "sources": 0}}
    for stage, st in ex.stages.items():
        for c in st.wrapper_calls:
            wr = wroles.get(c["method"])
            if wr is None or wr["op"] not in want:
                continue
            n += 1
            args = c["args"]
            f = tbf.rel(facts.path_of(c["node"]))
            key = "%s:%s" % (stage, c["method"])
            lvl = args[wr["level"]] if wr["level"] is not None else None
            det = ["level=%s" % lvl]
            if lvl != "L":
                res.violation(R, f, st.fn["qname"], key + ":level", c["node"]["l"][1], "level argument of %s is '%s', not the level of the enclosing level loop" % (c["method"], lvl))
            for role, delta in want[wr["op"]].items():
                for pi in sorted(wr["roles"].get(role, [])):
                    gl = group_level(args[pi])
                    det.append("%s<-arg%d@%s" % (role, pi, gl))
                    if gl is None:
                        raise AnalysisBroken("%s: cannot determine the level the %s group '%s' is taken from" % (facts.loc(c["node"]), role, taskdeps.short(args[pi])))
                    if sympy.simplify(gl - (stages.L + delta)) != 0:
                        res.violation(R, f, st.fn["qname"], "%s:%s" % (key, role), c["node"]["l"][1],
                                      "the %s group handed to %s is taken from level %s, expected level %s" % (role, c["method"], gl, stages.L + delta))
            res.instance(R, "%s %s" % (st.fn["qname"], key), facts.loc(c["node"]), " ".join(det))
    return n


def toptree_calls(facts, cls, cmap):
    out = []
    for fn in facts.methods_of(cls):
        if fn["name"] not in ("M2M", "M2L", "L2L"):
            continue
        sr = coherence.SlotResolver(facts, fn, cmap)
        for call in sr.kernel_calls(lambda b: b.get("k") == "MemberExpr" and b.get("name") == "kernel"):
            op = strip(kids(call)[0])["name"]
            slots = [sr.resolve(a) for a in tbf.call_args(call)]
            out.append((fn, sr, call, op, slots))
    return out


def toptree_levels(facts, fn, sr, call, op, slots, res, R="C02.2.level-role"):
    """virtual levels: the expansion written / read for role parent|target is stored at the level
    argument, children one level below (index + 1), transfer sources at the same level"""
    roles = ROLES[op]
    lv = [s for (r, p, io), s in zip(roles, slots) if p == "level"][0]
    lsym = sr.fm.sym(lv["node"])
    if lv["kind"] not in ("level", "count", "expr"):
        raise AnalysisBroken("%s: level argument of %s not recognised" % (facts.loc(call), op))
    want = {"M2M": {"parent": 0, "children": 1}, "L2L": {"parent": 0, "children": 1}, "M2L": {"target": 0, "sources": 0}}[op]
    det = ["level=%s" % lsym]
    for (role, part, io), s in zip(roles, slots):
        if part not in ("multipole", "local") or role not in want:
            continue
        exprs = [s] if s["kind"] == "expr" else ([e for e in s.get("elems", [])] if s["kind"] == "vec" else [])
        for e in exprs:
            if e.get("kind") != "expr":
                continue   # taken from the real tree (level-1 cells): checked by role coherence
            n = strip(e["node"])
            if n.get("k") in ("ArraySubscriptExpr", "CXXOperatorCallExpr"):
                idx = kids(n)[-1]
                isym = sr.fm.sym(idx)
                det.append("%s@%s" % (role, isym))
                if sympy.simplify(isym - (lsym + want[role])) != 0:
                    res.violation(R, tbf.rel(facts.path_of(call)), fn["qname"], "%s@%d:%s" % (op, call["l"][1], role), call["l"][1],
                                  "virtual-level %s expansion of %s is stored at index %s, the level argument is %s (expected %s)" % (role, op, isym, lsym, lsym + want[role]))
    res.instance(R, "%s %s@%d" % (fn["qname"], op, call["l"][1]), facts.loc(call), " ".join(det))


LOOKUPS = ("getElementFromSpacialIndex", "getElementFromParentIndex")


def position_provenance(facts, res, R="C02.5.position-provenance", cls="TbfGroupKernelInterface"):
    """A position inside a group that the wrapper obtains by looking an index up (`auto f = G.getElementFrom...Index(i); ... H.getCell...(*f)`)
    is a position in G: it may only be handed to accessors of that same group.  When the lookup goes through a helper of the wrapper the
    helper is followed: every value it returns is either the lookup of ITS group parameter, or a position computed from the index
    (`i - G.getStartingSpacialIndex()`) under a flag - and then the flag at the call site must be the hole-free test of the very group
    that is looked up (first / last index and count of the same group), otherwise a group with holes is addressed as if it had none."""
    methods = [m for m in facts.methods_of(cls) if tbf.body(m) is not None and not m.get("inst")]
    byname = {}
    for m in methods:
        byname.setdefault(m["name"], []).append(m)
    n = 0
    for m in methods:
        body = tbf.body(m)
        decls = {v["did"]: v for v in walk(body) if v.get("k") == "VarDecl"}
        pdids = {p_["did"]: p_ for p_ in m["params"]}

        def group_of(e):
            e = strip(e)
            while e is not None and e.get("k") in ("CallExpr", "CXXMemberCallExpr") and tbf.callee_name(e) in ("make_const", "as_const") and tbf.call_args(e):
                e = strip(tbf.call_args(e)[0])
            return e.get("did") if e is not None and e.get("k") == "DeclRefExpr" and e.get("did") in pdids else None

        def source_group(init, where):
            """the group a looked-up position belongs to; (did, note) - None when the initialiser is not a lookup"""
            init = strip(init)
            if init.get("k") not in ("CallExpr", "CXXMemberCallExpr"):
                return None
            nm = tbf.callee_name(init)
            if nm in LOOKUPS and tbf.call_base(init) is not None:
                return (group_of(tbf.call_base(init)), "%s of `%s`" % (nm, facts.ntext(tbf.call_base(init))))
            if nm in byname and (tbf.call_base(init) is None or strip(tbf.call_base(init)).get("k") == "CXXThisExpr"):
                hs = [h for h in byname[nm] if len(h["params"]) == len(tbf.call_args(init))]
                if len(hs) != 1:
                    return None
                h = hs[0]
                if not any(c_.get("k") in ("CallExpr", "CXXMemberCallExpr") and tbf.callee_name(c_) in LOOKUPS for c_ in walk(tbf.body(h))):
                    return None     # not a lookup helper (e.g. the hole-free test itself)
                args = tbf.call_args(init)
                bound = {p_["did"]: a for p_, a in zip(h["params"], args)}
                grp = None
                found_any = False
                for r in walk(tbf.body(h)):
                    if r.get("k") != "ReturnStmt" or not kids(r):
                        continue
                    e = strip(kids(r)[0])
                    lk = [c_ for c_ in walk(e) if c_.get("k") in ("CallExpr", "CXXMemberCallExpr") and tbf.callee_name(c_) in LOOKUPS and tbf.call_base(c_) is not None]
                    if lk:
                        found_any = True
                        b_ = strip(tbf.call_base(lk[0]))
                        g_ = group_of(bound[b_["did"]]) if b_.get("k") == "DeclRefExpr" and b_.get("did") in bound else None
                        if g_ is None:
                            raise AnalysisBroken("%s: the helper %s looks an index up in something that is not one of its group parameters" % (facts.loc(r), nm))
                        grp = g_ if grp in (None, g_) else -1
                        continue
                    st = [c_ for c_ in walk(e) if c_.get("k") in ("CallExpr", "CXXMemberCallExpr") and tbf.callee_name(c_) == "getStartingSpacialIndex" and tbf.call_base(c_) is not None]
                    if not st:
                        if not found_any:
                            return None     # not a lookup helper at all
                        raise AnalysisBroken("%s: a value returned by the helper %s is neither a lookup nor a position computed from the group's first index" % (facts.loc(r), nm))
                    found_any = True
                    b_ = strip(tbf.call_base(st[0]))
                    g_ = group_of(bound[b_["did"]]) if b_.get("k") == "DeclRefExpr" and b_.get("did") in bound else None
                    grp = g_ if grp in (None, g_) else -1
                    # the computed position needs a flag: the nearest enclosing `if(flag)` on a parameter
                    tbf.link_parents(tbf.body(h))
                    conds = [a_ for a_ in tbf.ancestors(r) if a_.get("k") == "IfStmt"]
                    flag = None
                    for c_ in conds:
                        c0 = strip([y for y in kids(c_) if y.get("k") != "DeclStmt"][0])
                        if c0.get("k") == "DeclRefExpr" and c0.get("did") in bound:
                            flag = bound[c0["did"]]
                    if flag is None:
                        res.violation(R, tbf.rel(facts.path_of(r)), h["qname"], "unguarded-direct@%d" % r["l"][1], r["l"][1],
                                      "the helper %s returns a position computed from the index without any test that the group has no hole" % nm)
                        continue
                    # the flag at the call site: a hole-free test, and of which group?
                    f0 = strip(flag)
                    if f0.get("k") == "DeclRefExpr" and f0.get("did") in decls and kids(decls[f0["did"]]):
                        f0 = strip(kids(decls[f0["did"]])[0])
                    tested = None
                    if f0.get("k") in ("CallExpr", "CXXMemberCallExpr") and tbf.callee_name(f0) in byname and len(tbf.call_args(f0)) == 1:
                        th = byname[tbf.callee_name(f0)][0]
                        tt = facts.ntext(tbf.body(th))
                        if all(k_ in tt for k_ in ("getEndingSpacialIndex", "getStartingSpacialIndex", "getNbCells")) or all(k_ in tt for k_ in ("getEndingSpacialIndex", "getStartingSpacialIndex", "getNbLeaves")):
                            tested = group_of(tbf.call_args(f0)[0])
                    if tested is None:
                        raise AnalysisBroken("%s: the flag `%s` handed to %s is not recognised as the hole-free test of a group parameter" % (facts.loc(where), facts.ntext(flag)[:50], nm))
                    if g_ is not None and tested != g_:
                        res.violation(R, tbf.rel(facts.path_of(where)), m["qname"], "foreign-hole-test@%d" % where["l"][1], where["l"][1],
                                      "`%s`: the position of the index in `%s` is computed as index - first index because `%s` has no hole - the test was made on another group; a source group with holes is then read at the position of another cell (or past its end), and indices it does not hold are no longer skipped"
                                      % (facts.ntext(init)[:70], pdids[g_]["name"], pdids[tested]["name"] if tested in pdids else facts.ntext(flag)[:30]))
                if not found_any:
                    return None
                if grp == -1:
                    raise AnalysisBroken("%s: the helper %s returns positions of different groups" % (facts.loc(where), nm))
                return (grp, "%s(...) on `%s`" % (nm, pdids[grp]["name"] if grp in pdids else "?"))
            return None
        # positions: locals initialised by a lookup
        owner = {}
        for did, v in decls.items():
            if kids(v):
                sg = source_group(kids(v)[0], v)
                if sg is not None and sg[0] is not None:
                    owner[did] = sg
        # ... and the plain copies of one: `const long int idx = (*found);`
        grew = True
        while grew:
            grew = False
            for did, v in decls.items():
                if did in owner or not kids(v):
                    continue
                i0 = strip(kids(v)[0])
                while i0.get("k") in ("UnaryOperator", "CXXOperatorCallExpr") and i0.get("op") == "*" and kids(i0):
                    i0 = strip(kids(i0)[-1])
                if i0.get("k") in ("CallExpr", "CXXMemberCallExpr") and tbf.callee_name(i0) == "value" and tbf.call_base(i0) is not None:
                    i0 = strip(tbf.call_base(i0))
                if i0.get("k") == "DeclRefExpr" and i0.get("did") in owner:
                    owner[did] = owner[i0["did"]]
                    grew = True
        for x in walk(body):
            if x.get("k") not in ("CallExpr", "CXXMemberCallExpr") or tbf.call_base(x) is None:
                continue
            nm = tbf.callee_name(x) or ""
            if not re.match(r"^get(Cell|Leaf|Particle|NbParticlesInLeaf)", nm) or len(tbf.call_args(x)) != 1:
                continue
            g = group_of(tbf.call_base(x))
            if g is None:
                continue
            a = strip(tbf.call_args(x)[0])
            while a.get("k") in ("UnaryOperator", "CXXOperatorCallExpr") and a.get("op") == "*" and kids(a):
                a = strip(kids(a)[-1])
            if a.get("k") in ("CallExpr", "CXXMemberCallExpr") and tbf.callee_name(a) == "value" and tbf.call_base(a) is not None:
                a = strip(tbf.call_base(a))
            if a.get("k") == "DeclRefExpr" and a.get("did") in owner:
                n += 1
                og, note = owner[a["did"]]
                if og != g:
                    res.violation(R, tbf.rel(facts.path_of(x)), m["qname"], "foreign-position@%d" % x["l"][1], x["l"][1],
                                  "`%s` reads group `%s` at a position that was looked up in another group (%s)" % (facts.ntext(x)[:60], pdids[g]["name"], note))
    res.instance(R, cls, "src/algorithms/sequential/tbfgroupkernelinterface.hpp", "%d accessor calls at looked-up positions, each on the group the position was looked up in" % n)
    return n


def run(res, tier):
    facts = tbf.scan("core")
    res.units.append("umbrella TU 'core': TbfGroupKernelInterface (12 kernel call sites), periodic top trees (2 x 6 sites), 4 executors")
    res.rule("C02.1 role coherence: slots of one role <- same group & index, slot fed by its part's accessor, position codes from the same cell / interaction record, lock-step fills, one interaction record per call")
    res.rule("C02.2 level/role: level argument = loop level; parent/target groups from that level, child groups from the next (derived from which wrapper parameter feeds which role); top trees: virtual-level storage index agrees with the level argument")
    res.rule("C02.3 array-fill idiom (a[n]=e; n+=1 from 0, or constant slots [0,n)) and wrapper kernel calls dominated by n>0")
    cmap = effects.container_map(facts)
    calls = coherence.wrapper_kernel_calls(facts, cmap)
    res.floor("C02.1", len(calls), 12, "wrapper kernel call sites")
    for fn, sr, call, op, slots in calls:
        role_coherence(facts, fn, sr, call, op, slots, res)
        fill_idiom(facts, fn, sr, call, op, slots, res)
        non_empty(facts, fn, sr, call, op, slots, res)
    ntop = 0
    for cls in TOPTREES:
        tc = toptree_calls(facts, cls, cmap)
        ntop += len(tc)
        for fn, sr, call, op, slots in tc:
            role_coherence(facts, fn, sr, call, op, slots, res)
            fill_idiom(facts, fn, sr, call, op, slots, res)
            toptree_levels(facts, fn, sr, call, op, slots, res)
    res.floor("C02.1.toptree", ntop, 12, "top-tree kernel call sites")
    res.assumptions.append("non-emptiness of the periodic top-tree calls depends on the tree holding at least one particle (run-time fact); it is decided for the 12 wrapper sites only")
    res.rule("C02.5 position provenance: a position the wrapper looked up in a group is handed to accessors of that group only; a helper that computes the position from the index (hole-free shortcut) is followed, and its flag must be the hole-free test of the group that is looked up")
    res.floor("C02.5", position_provenance(facts, res), 6, "accessor calls at looked-up positions")
    res.rule("C02.6 after rebuild() the groups an operator is handed are built like fresh ones (rule C13.3): a group kept from before the rebuild hands the operators the cells / leaves of the old particle positions")
    import c13 as _c13
    _sub = tbf.Result("C13")
    tbf.donor_run(res, _c13, _sub)
    tbf.reexport(res, _sub, ("C13.3",), "C02.6.rebuilt-groups", min_instances=10)
    wroles = wrapper_param_roles(facts, cmap)
    n = 0
    res.rule("C02.4 the interaction records an operator call is built from are those of this execution's tree: stage functions keep nothing about the tree in the executor (a list remembered across execute() calls pairs a position in a group with a position code computed for another cell once the tree is rebuilt)")
    import c12
    before = len(res.violations)
    for cls in EXECUTORS:
        c12.no_tree_derived_state(facts, cls, res, R="C02.4.lists-of-this-execution")
    stateful = len(res.violations) > before
    for cls in EXECUTORS:
        try:
            n += level_role(facts, cls, wroles, res)
        except AnalysisBroken:
            if not stateful:
                raise
            n += 4
    res.floor("C02.2", n, 14, "level-carrying wrapper calls in executors")
    if tier in ("quick", "thorough"):      # the Specx / StarPU executors (declaration stubs) are analysed on every run: the unit tests never compile them, so nothing else would notice a change there
        sf = tbf.scan("specx")
        res.units.append("umbrella TU 'specx' (declaration stub): Specx executors")
        wr2 = wrapper_param_roles(sf, effects.container_map(sf))
        for cls in ("TbfSmSpecxAlgorithm", "TbfSmSpecxAlgorithmTsm"):
            level_role(sf, cls, wr2, res)
