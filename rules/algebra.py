"""`algebra` engine: value-numbered summary of a straight-line loop body as sympy expressions.

Not a path explorer and not a solver: one basic block is evaluated once over symbols (loads become
symbols named after the array, component and index variable; FMath::Sqrt becomes sympy.sqrt), the
accumulated stores are compared with an expected closed form through sympy's normal form.
"""
import sympy

import tbf
from tbf import walk, kids, strip, AnalysisBroken


class DataDependent(Exception):
    """the value depends on a condition on the inputs (conditional operator / branch in an inlined helper)"""

    def __init__(self, node, text):
        Exception.__init__(self, text)
        self.node = node
        self.text = text


class Block:
    def __init__(self, facts, fn):
        self.facts = facts
        self.fn = fn
        self.env = {}        # did -> sympy expr (scalar locals / by-value params)
        self.arrays = {}     # did -> (param name, component)     pointer locals made by GetPtr(P[k])
        self.cells = {}      # did -> name                         pointer parameters (*p)
        self.params = {}     # did -> name  (container params)
        self.stores = {}     # location tuple -> accumulated delta
        self.overwrites = []  # (location, node)
        self.rmw = []         # (location, node): stores of the form out = (value read from out) + delta
        self.guards = []      # (symbol E, node): `if(E == 0) continue / return;` skip guards met on the analysed path
        self.idxname = {}    # loop var did -> role name
        for p in fn["params"]:
            t = p["t"]
            if t.rstrip().endswith("*") or " *" in t:
                self.cells[p["did"]] = p["name"]
            elif t.endswith("&"):
                self.params[p["did"]] = p["name"]
            else:
                self.env[p["did"]] = sympy.Symbol(p["name"], real=True)

    def sym_load(self, loc):
        return sympy.Symbol("%s.%s@%s" % loc if len(loc) == 3 else "*%s" % loc[0], real=True)

    def loc_of(self, n):
        """memory location of an lvalue expression, or None"""
        n = strip(n)
        k = n.get("k")
        if k == "ArraySubscriptExpr":
            a, i = kids(n)
            a = strip(a)
            i = strip(i)
            if a.get("k") == "DeclRefExpr" and a.get("did") in self.arrays and i.get("k") == "DeclRefExpr":
                pn, comp = self.arrays[a["did"]]
                return (pn, comp, self.idxname.get(i["did"], i.get("name")))
        if k == "UnaryOperator" and n.get("op") == "*":
            a = strip(kids(n)[0])
            if a.get("k") == "DeclRefExpr" and a.get("did") in self.cells:
                return (self.cells[a["did"]],)
        return None

    def eval(self, n):
        n = strip(n)
        k = n.get("k")
        if k == "IntegerLiteral":
            return sympy.Integer(n["val"])
        if k == "FloatingLiteral":
            v = n["val"]
            return sympy.Integer(int(v)) if float(v).is_integer() else sympy.Float(v)
        if k in ("CXXFunctionalCastExpr", "CStyleCastExpr", "CXXStaticCastExpr", "CXXUnresolvedConstructExpr", "ParenExpr"):
            c = kids(n)
            if len(c) != 1:
                raise AnalysisBroken("%s: cannot evaluate %s" % (self.facts.loc(n), self.facts.ntext(n)))
            return self.eval(c[0])
        if k == "DeclRefExpr":
            did = n.get("did")
            if did in self.env:
                return self.env[did]
            if n.get("dk") in ("Var", "ParmVar"):
                return sympy.Symbol(n["name"], real=True)
            raise AnalysisBroken("%s: unknown value %s" % (self.facts.loc(n), n.get("name")))
        loc = self.loc_of(n)
        if loc is not None:
            return self.sym_load(loc) + self.stores.get(loc, 0)
        if k == "BinaryOperator" and n.get("op") in ("+", "-", "*", "/"):
            a, b = [self.eval(x) for x in kids(n)]
            return {"+": a + b, "-": a - b, "*": a * b, "/": a / b}[n["op"]]
        if k == "UnaryOperator" and n.get("op") == "-":
            return -self.eval(kids(n)[0])
        if k == "CallExpr":
            nm = tbf.callee_name(n)
            args = tbf.call_args(n)
            if nm in ("Sqrt", "sqrt") and len(args) == 1:
                return sympy.sqrt(self.eval(args[0]))
            # helper defined in the library: inline its single return expression
            cands = [g for g in self.facts.functions if g["name"] == nm and not g.get("inst") and len(g["params"]) == len(args) and tbf.body(g) is not None]
            if len(cands) == 1:
                g = cands[0]
                sub = Block(self.facts, g)
                for p, a in zip(g["params"], args):
                    sub.env[p["did"]] = self.eval(a)
                for st in kids(tbf.body(g)):
                    if st.get("k") == "ReturnStmt":
                        return sub.eval(kids(st)[0])
                    if st.get("k") in ("IfStmt", "SwitchStmt", "WhileStmt", "ForStmt", "DoStmt"):
                        raise DataDependent(st, "helper %s branches on its arguments (%s)" % (g["qname"], self.facts.ntext(st["c"][0])[:80]))
                    sub.exec(st)
        if k in ("CallExpr", "CXXMemberCallExpr") and not tbf.call_args(n):
            # a parameterless library call (numeric_limits<T>::epsilon(), a constant accessor): an unknown constant
            return sympy.Symbol("const<%s>" % self.facts.ntext(n)[:40], real=True)
        if k == "ConditionalOperator":
            raise DataDependent(n, "conditional value `%s`" % self.facts.ntext(n)[:100])
        raise AnalysisBroken("%s: expression form not supported by the algebra engine: %s" % (self.facts.loc(n), self.facts.ntext(n)[:80]))

    def exec(self, s):
        if s is None:
            return
        k = s.get("k")
        if k == "CompoundStmt":
            for c in kids(s):
                self.exec(c)
            return
        if k == "DeclStmt":
            for v in kids(s):
                if v.get("k") != "VarDecl":
                    continue
                init = kids(v)
                t = v.get("t", "")
                if "*" in t and init:
                    i0 = strip(init[0])
                    if i0.get("k") == "CallExpr" and tbf.callee_name(i0) == "GetPtr":
                        a = strip(tbf.call_args(i0)[0])
                        if a.get("k") in ("ArraySubscriptExpr", "CXXOperatorCallExpr"):
                            base = strip(kids(a)[-2])
                            idx = strip(kids(a)[-1])
                            if base.get("did") in self.params and idx.get("k") == "IntegerLiteral":
                                self.arrays[v["did"]] = (self.params[base["did"]], idx["val"])
                                continue
                    raise AnalysisBroken("%s: pointer local '%s' is not GetPtr(param[k])" % (self.facts.loc(v), v["name"]))
                if init:
                    self.env[v["did"]] = self.eval(init[0])
                else:
                    self.env[v["did"]] = sympy.Symbol("uninit_" + v["name"], real=True)
            return
        if k in ("CompoundAssignOperator", "BinaryOperator") and s.get("op") in ("+=", "-=", "*=", "/=", "="):
            lhs, rhs = kids(s)
            l = strip(lhs)
            val = self.eval(rhs)
            if l.get("k") == "DeclRefExpr" and l.get("did") in self.env:
                cur = self.env[l["did"]]
                self.env[l["did"]] = {"+=": cur + val, "-=": cur - val, "*=": cur * val, "/=": cur / val, "=": val}[s["op"]]
                return
            loc = self.loc_of(l)
            if loc is not None:
                if s["op"] == "+=":
                    self.stores[loc] = self.stores.get(loc, 0) + val
                elif s["op"] == "-=":
                    self.stores[loc] = self.stores.get(loc, 0) - val
                else:
                    cur = self.sym_load(loc)
                    d = sympy.expand(val - cur)
                    if s["op"] == "=" and cur in val.free_symbols and cur not in d.free_symbols:
                        # `out = old + d` where `old` is the value read from the same location: an accumulation written long-hand
                        self.stores[loc] = d
                        self.rmw.append((loc, s))
                    else:
                        self.overwrites.append((loc, s))
                return
            raise AnalysisBroken("%s: assignment target not understood: %s" % (self.facts.loc(s), self.facts.ntext(lhs)))
        if k in ("NullStmt",):
            return
        if k == "CallExpr" and self.inline_call(s):
            return
        if k == "IfStmt":
            # a skip guard: `if(E == 0) continue / return;` - the path analysed is the one that is not skipped; whether the skipped pairs
            # really contribute nothing is decided by the caller against the law (guards are recorded with the symbolic E)
            c = [y for y in kids(s) if y.get("k") != "DeclStmt"]
            c0 = strip(c[0])
            th = c[1] if len(c) > 1 else None
            body_ = [th] if th is not None and th.get("k") != "CompoundStmt" else (kids(th) if th is not None else [])
            if len(c) == 2 and body_ and all(x.get("k") in ("ContinueStmt", "ReturnStmt", "NullStmt") and not kids(x) for x in body_) \
                    and c0.get("k") == "BinaryOperator" and c0.get("op") == "==":
                a, b = self.eval(kids(c0)[0]), self.eval(kids(c0)[1])
                e = a if b == 0 else b if a == 0 else None
                if e is not None and isinstance(e, sympy.Symbol):
                    self.guards.append((e, s))
                    return
            raise DataDependent(s, "branch on `%s`" % self.facts.ntext(c0)[:80])
        raise AnalysisBroken("%s: statement form not supported by the algebra engine: %s" % (self.facts.loc(s), k))

    def inline_call(self, call):
        """a library helper called as a statement with scalar values and addresses of locations (`&acc`, `&out[i]`): its body is
        evaluated on the caller's values, what it adds through a pointer is added to the location the pointer was made from"""
        nm = tbf.callee_name(call)
        args = tbf.call_args(call)
        cands = [g for g in self.facts.functions if g["name"] == nm and not g.get("inst") and len(g["params"]) == len(args) and tbf.body(g) is not None
                 and (g.get("cls") in (None, self.fn.get("cls")) or call.get("callee") == g["qname"])]
        if len(cands) != 1 or cands[0] is self.fn:
            return False
        g = cands[0]
        sub = Block(self.facts, g)
        alias = {}
        for p, a in zip(g["params"], args):
            a0 = strip(a)
            if p["did"] in sub.cells:
                if a0.get("k") == "UnaryOperator" and a0.get("op") == "&":
                    tgt = strip(kids(a0)[0])
                    if tgt.get("k") == "DeclRefExpr" and tgt.get("did") in self.env:
                        alias[p["name"]] = ("env", tgt["did"])
                        continue
                    loc = self.loc_of(tgt)
                    if loc is not None:
                        alias[p["name"]] = ("loc", loc)
                        continue
                raise AnalysisBroken("%s: pointer argument `%s` of %s is not the address of a local or of an output element" % (self.facts.loc(a), self.facts.ntext(a)[:40], nm))
            elif p["did"] in sub.params:
                raise AnalysisBroken("%s: container argument of %s not supported by the algebra engine" % (self.facts.loc(a), nm))
            else:
                sub.env[p["did"]] = self.eval(a)
        # loads through the pointers read the caller's current value
        base_load = sub.sym_load

        def load(loc):
            if len(loc) == 1 and loc[0] in alias:
                kind, ref = alias[loc[0]]
                return self.env[ref] if kind == "env" else (self.sym_load(ref) + self.stores.get(ref, 0))
            return base_load(loc)
        sub.sym_load = load
        sub.exec(tbf.body(g))
        for (loc, node) in sub.overwrites:
            if len(loc) == 1 and loc[0] in alias:
                self.overwrites.append((alias[loc[0]][1] if alias[loc[0]][0] == "loc" else ("local",), node))
        for loc, delta in sub.stores.items():
            if len(loc) == 1 and loc[0] in alias:
                kind, ref = alias[loc[0]]
                if kind == "env":
                    self.env[ref] = self.env[ref] + delta
                else:
                    self.stores[ref] = self.stores.get(ref, 0) + delta
        return True


def loop_parts(facts, forstmt):
    """(induction VarDecl, init expr, op, bound expr, body) of `for(T i = a ; i < b ; ++i)`"""
    init, cond, inc, body = forstmt["c"]
    v = [d for d in kids(init) if d.get("k") == "VarDecl"] if init else []
    if len(v) != 1 or not kids(v[0]) or cond is None or inc is None:
        raise AnalysisBroken("%s: loop form not recognised" % facts.loc(forstmt))
    cond = strip(cond)
    inc = strip(inc)
    if cond.get("k") != "BinaryOperator" or strip(kids(cond)[0]).get("did") != v[0]["did"]:
        raise AnalysisBroken("%s: loop condition not recognised" % facts.loc(forstmt))
    if not (inc.get("k") == "UnaryOperator" and inc.get("op") == "++"):
        raise AnalysisBroken("%s: loop step is not ++" % facts.loc(forstmt))
    return v[0], kids(v[0])[0], cond["op"], kids(cond)[1], body
