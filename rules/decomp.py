"""C01.8 - the level decomposition law, decided on a model built from constants read in the code.

Exactly-once over ALL particle sets reduces, cell-wise, to a statement that does not mention particles: for two different leaf cells
x, y of a tree of height H, the source y reaches the target x either through the near field (y is in x's neighbour list at the leaf
level) or through exactly one transfer (at exactly one level l the ancestor of y is in the interaction list of the ancestor of x) -
never both, never twice, never not at all.  Which cells the lists hold is fixed by a handful of constants in the list builders:
the per-dimension offset window around the (parent) cell with its clamps at the grid border, the too-close threshold, the level below
which the interaction list is empty, the self exclusion and the upper-half filter of the neighbour list, plus the upper working level
from which the executors run transfers.  The rule reads them from the syntax tree of the per-cell builders of TbfMortonSpaceIndex
(each shape it relies on is an obligation; anything else is exit 2), builds the lists of the MODEL from them and checks the law for
every ordered pair of leaf cells in dimension 1 (heights 2..7) and 2 (heights 2..5).  Everything the model takes for granted is decided
elsewhere: parent coordinates = coordinates >> 1 and the child loop covering all 2^Dim children (C11.4 bit provenance), the per-group
builders and the Hilbert class agreeing with these builders (C11.3), the executors applying M2L over [U, H-1] and P2P at the leaf level
with these lists (C12.3, C01.5), the half list feeding a mutual operator and the full list a one-sided one (C09.2, C20)."""
import itertools
import re

import tbf
from tbf import walk, kids, strip, AnalysisBroken


class Mini:
    """evaluates the straight-line / if code that fills the window arrays for ONE dimension"""

    def __init__(self, facts, fn, scal, arrs, periodic=False):
        self.facts, self.fn, self.scal, self.arrs = facts, fn, dict(scal), dict(arrs)
        self.out = {}
        self.periodic = periodic

    def bad(self, n, why):
        raise AnalysisBroken("%s: list-builder model: %s: `%s`" % (self.fn["qname"], why, self.facts.ntext(n)[:80]))

    def ev(self, n):
        n = strip(n)
        k = n.get("k")
        if k == "IntegerLiteral":
            return int(n["val"])
        if k == "CXXBoolLiteralExpr":
            return bool(n.get("val"))
        if k == "UnaryOperator" and n.get("op") == "-":
            return -self.ev(kids(n)[0])
        if k == "UnaryOperator" and n.get("op") == "!":
            return not self.ev(kids(n)[0])
        if (k.endswith("CastExpr") or k == "ParenExpr") and len(kids(n)) == 1:
            return self.ev(kids(n)[0])
        if k == "DeclRefExpr":
            if n.get("did") in self.scal:
                return self.scal[n["did"]]
            if n.get("name") == "IsPeriodic":
                return self.periodic
            self.bad(n, "unknown scalar")
        if k in ("ArraySubscriptExpr", "CXXOperatorCallExpr") and len(kids(n)) >= 2:
            b = strip(kids(n)[-2])
            if b.get("did") in self.out:
                return self.out[b["did"]]
            if b.get("did") in self.arrs:
                return self.arrs[b["did"]]
            self.bad(n, "unknown array")
        if k == "BinaryOperator":
            op = n.get("op")
            a, b = self.ev(kids(n)[0]), self.ev(kids(n)[1])
            if op in ("+", "-", "*"):
                return {"+": a + b, "-": a - b, "*": a * b}[op]
            if op in ("==", "!=", "<", "<=", ">", ">="):
                return {"==": a == b, "!=": a != b, "<": a < b, "<=": a <= b, ">": a > b, ">=": a >= b}[op]
            if op == "&&":
                return a and b
            if op == "||":
                return a or b
        self.bad(n, "expression form")

    def run(self, s):
        k = s.get("k")
        if k == "CompoundStmt":
            for c in kids(s):
                self.run(c)
            return
        if k == "IfStmt":
            c = [y for y in kids(s) if y.get("k") != "DeclStmt"]
            cond = self.ev(c[0])
            if cond and len(c) > 1:
                self.run(c[1])
            elif not cond and len(c) > 2:
                self.run(c[2])
            return
        if k == "BinaryOperator" and s.get("op") == "=":
            l = strip(kids(s)[0])
            if l.get("k") in ("ArraySubscriptExpr", "CXXOperatorCallExpr") and len(kids(l)) >= 2:
                b = strip(kids(l)[-2])
                self.out[b["did"]] = self.ev(kids(s)[1])
                return
        if k == "CompoundAssignOperator" and s.get("op") in ("+=", "-="):
            l = strip(kids(s)[0])
            if l.get("k") in ("ArraySubscriptExpr", "CXXOperatorCallExpr") and len(kids(l)) >= 2:
                b = strip(kids(l)[-2])
                cur = self.out.get(b["did"], self.arrs.get(b["did"]))
                if cur is None:
                    self.bad(s, "update of an unknown array")
                v = self.ev(kids(s)[1])
                self.out[b["did"]] = cur + v if s["op"] == "+=" else cur - v
                return
        if k in ("NullStmt",):
            return
        self.bad(s, "statement form")


class ImageLost(AnalysisBroken):
    """a construct of a periodic builder after which the image a candidate was taken from can no longer be known; where the periodic
    decomposition is checked it is reported as a violation, anywhere else it reads as `not recognised` (analysis broken)"""
    def __init__(self, node, msg):
        AnalysisBroken.__init__(self, msg)
        self.node = node


class Builder:
    def __init__(self, facts, cls, name):
        ms = [m for m in facts.methods_of(cls) if m["name"] == name and not m.get("inst") and tbf.body(m) is not None]
        if len(ms) != 1:
            raise AnalysisBroken("%s::%s not found" % (cls, name))
        self.facts, self.fn = facts, ms[0]
        fn = self.fn
        body = tbf.body(fn)
        tbf.link_parents(body)
        self.index_p, self.level_p = fn["params"][0], fn["params"][1]
        decls = [v for v in walk(body) if v.get("k") == "VarDecl"]
        # limits 2^(level+k)
        self.limits = {}
        for v in decls:
            if kids(v):
                sh = [y for y in walk(kids(v)[0]) if y.get("k") == "BinaryOperator" and y.get("op") == "<<"]
                amt0 = None
                i0 = strip(kids(v)[0])
                if not sh and i0.get("k") in ("CallExpr", "CXXMemberCallExpr") and len(tbf.call_args(i0)) == 1 and (tbf.call_base(i0) is None or strip(tbf.call_base(i0)).get("k") == "CXXThisExpr"):
                    # the limit through a one-expression helper of the same class: `return 1 << param`
                    hs = [m for m in facts.methods_of(cls) if m["name"] == tbf.callee_name(i0) and not m.get("inst") and tbf.body(m) is not None and len(m["params"]) == 1]
                    if len(hs) == 1:
                        st = [x for x in kids(tbf.body(hs[0])) if x.get("k") != "NullStmt"]
                        if len(st) == 1 and st[0].get("k") == "ReturnStmt" and kids(st[0]):
                            hsh = [y for y in walk(kids(st[0])[0]) if y.get("k") == "BinaryOperator" and y.get("op") == "<<"]
                            if len(hsh) == 1 and strip(kids(hsh[0])[1]).get("did") == hs[0]["params"][0]["did"] and any(z.get("did") == self.level_p["did"] for z in walk(tbf.call_args(i0)[0])):
                                sh, amt0 = hsh, strip(tbf.call_args(i0)[0])
                if len(sh) == 1 and (amt0 is not None or any(z.get("did") == self.level_p["did"] for z in walk(kids(sh[0])[1]))):
                    amt = amt0 if amt0 is not None else strip(kids(sh[0])[1])
                    k_ = 0
                    while amt.get("k") == "ParenExpr":
                        amt = strip(kids(amt)[0])
                    if amt.get("k") == "BinaryOperator" and amt.get("op") in ("+", "-") and strip(kids(amt)[1]).get("k") == "IntegerLiteral":
                        k_ = int(strip(kids(amt)[1])["val"]) * (1 if amt["op"] == "+" else -1)
                    elif amt.get("k") != "DeclRefExpr":
                        raise AnalysisBroken("%s: shift amount of the grid limit not recognised: %s" % (fn["qname"], facts.ntext(amt)))
                    one = strip(kids(sh[0])[0])
                    if not any(z.get("k") == "IntegerLiteral" and z.get("val") == 1 for z in walk(one)):
                        raise AnalysisBroken("%s: grid limit is not 1 << (level + k)" % fn["qname"])
                    self.limits[v["did"]] = k_
        # positions: decode(index) / decode(parent(index))
        self.positions = {}
        alias = {self.index_p["did"]: "cell"}
        for v in decls:
            if kids(v):
                i0 = strip(kids(v)[0])
                if i0.get("k") == "DeclRefExpr" and i0.get("did") in alias:
                    alias[v["did"]] = alias[i0["did"]]
                if i0.get("k") in ("CallExpr", "CXXMemberCallExpr") and tbf.callee_name(i0) == "getParentIndex":
                    a0 = strip(tbf.call_args(i0)[0])
                    if a0.get("did") in alias and alias[a0["did"]] == "cell":
                        alias[v["did"]] = "parent"
        for v in decls:
            if kids(v):
                i0 = strip(kids(v)[0])
                if i0.get("k") in ("CallExpr", "CXXMemberCallExpr") and tbf.callee_name(i0) == "getBoxPosFromIndex":
                    a0 = strip(tbf.call_args(i0)[0])
                    if a0.get("did") in alias:
                        self.positions[v["did"]] = alias[a0["did"]]
                    elif a0.get("k") in ("CallExpr", "CXXMemberCallExpr") and tbf.callee_name(a0) == "getParentIndex" and strip(tbf.call_args(a0)[0]).get("did") in alias:
                        self.positions[v["did"]] = "parent"
        # the loop over the dimensions that fills the window
        self.dimloop = None
        for l in walk(body):
            if l.get("k") == "ForStmt" and self.dimloop is None:
                asg = [y for y in walk(kids(l)[-1]) if y.get("k") == "BinaryOperator" and y.get("op") == "=" and strip(kids(y)[1]).get("k") in ("IntegerLiteral", "UnaryOperator")]
                if len(asg) >= 4:
                    self.dimloop = l
        if self.dimloop is None:
            # candidates taken from a list of (wrapped) cell indexes produced by another list builder of the class
            for l in walk(body):
                if l.get("k") != "CXXForRangeStmt":
                    continue
                rng = strip(l["c"][1]) if len(l.get("c", [])) > 1 and l["c"][1] is not None else None
                src = None
                for y in (walk(rng) if rng is not None else []):
                    if y.get("k") in ("CallExpr", "CXXMemberCallExpr") and re.match(r"^get\w*ListFor\w+$", tbf.callee_name(y) or ""):
                        src = y
                    if y.get("k") == "DeclRefExpr":
                        dv = [v for v in decls if v.get("did") == y.get("did") and kids(v)]
                        for c_ in (walk(kids(dv[0])[0]) if dv else []):
                            if c_.get("k") in ("CallExpr", "CXXMemberCallExpr") and re.match(r"^get\w*ListFor\w+$", tbf.callee_name(c_) or ""):
                                src = c_
                if src is not None:
                    raise ImageLost(src, "%s takes its candidate cells from the index list returned by %s(): the indexes are wrapped into the box, so the image through which a candidate is reached is no longer known; "
                                    "on a periodic grid with fewer than 8 cells per side (levels 1 and 2) the same cell is reached through several images, each of which must be listed with its own relative position - "
                                    "a test on the nearest image keeps at most one of them" % (fn["name"], tbf.callee_name(src)))
            raise AnalysisBroken("%s: the loop that fills the offset window was not recognised" % fn["qname"])
        arrays = []
        for y in walk(kids(self.dimloop)[-1]):
            if y.get("k") == "BinaryOperator" and y.get("op") == "=":
                l0 = strip(kids(y)[0])
                if l0.get("k") in ("ArraySubscriptExpr", "CXXOperatorCallExpr") and len(kids(l0)) >= 2:
                    d_ = strip(kids(l0)[-2]).get("did")
                    if d_ not in arrays:
                        arrays.append(d_)
        # the running offset is the array initialised from another window array: that one is the lower limit
        self.cur = self.lo = self.hi = None
        for y in walk(kids(self.dimloop)[-1]):
            if y.get("k") == "BinaryOperator" and y.get("op") == "=":
                l0, r0 = strip(kids(y)[0]), strip(kids(y)[1])
                if r0.get("k") in ("ArraySubscriptExpr", "CXXOperatorCallExpr") and len(kids(r0)) >= 2 and strip(kids(r0)[-2]).get("did") in arrays and len(kids(l0)) >= 2:
                    self.cur, self.lo = strip(kids(l0)[-2]).get("did"), strip(kids(r0)[-2]).get("did")
        rest = [a for a in arrays if a not in (self.cur, self.lo)]
        if self.cur is None or len(rest) != 1:
            raise AnalysisBroken("%s: lower / upper window arrays not identified (%d arrays assigned in the dimension loop)" % (fn["qname"], len(arrays)))
        self.hi = rest[0]
        used = [y.get("did") for y in walk(kids(self.dimloop)[-1]) if y.get("k") == "DeclRefExpr" and y.get("did") in self.positions]
        if len(set(used)) != 1:
            raise AnalysisBroken("%s: the window is not clamped on one position (%d found)" % (fn["qname"], len(set(used))))
        self.window_on = self.positions[used[0]]
        self.window_pos = used[0]
        ul = [y.get("did") for y in walk(kids(self.dimloop)[-1]) if y.get("k") == "DeclRefExpr" and y.get("did") in self.limits]
        if len(set(ul)) != 1:
            raise AnalysisBroken("%s: the window is not clamped on one grid limit" % fn["qname"])
        self.window_limit = ul[0]

    def window(self, pos, level, periodic=False):
        """(lo, hi) offsets in one dimension for a (parent) coordinate `pos` at the builder's level argument `level`"""
        if not hasattr(self, "_memo"):
            self._memo = {}
        if periodic:
            lim = 1 << max(0, level + self.limits[self.window_limit])
            m = Mini(self.facts, self.fn, {self.window_limit: lim}, {self.window_pos: pos}, periodic=True)
            m.run(kids(self.dimloop)[-1])
            return m.out[self.lo], m.out[self.hi]
        if (pos, level) in self._memo:
            return self._memo[(pos, level)]
        lim = 1 << max(0, level + self.limits[self.window_limit]) if level + self.limits[self.window_limit] >= 0 else 0
        m = Mini(self.facts, self.fn, {self.window_limit: lim}, {self.window_pos: pos})
        m.run(kids(self.dimloop)[-1])
        if self.lo not in m.out or self.hi not in m.out:
            raise AnalysisBroken("%s: window not assigned for position %d" % (self.fn["qname"], pos))
        self._memo[(pos, level)] = (m.out[self.lo], m.out[self.hi])
        return self._memo[(pos, level)]

    def threshold(self):
        body = tbf.body(self.fn)
        ts = [x for x in walk(body) if x.get("k") == "BinaryOperator" and x.get("op") in (">", ">=", "<", "<=") and any(y.get("k") in ("CallExpr",) and tbf.callee_name(y) == "abs" for y in walk(x))]
        if len(ts) != 1:
            raise AnalysisBroken("%s: %d distance tests (1 confirmed by reading)" % (self.fn["qname"], len(ts)))
        t = ts[0]
        a, b = strip(kids(t)[0]), strip(kids(t)[1])
        op = t["op"]
        if b.get("k") != "IntegerLiteral":
            if a.get("k") == "IntegerLiteral":
                a, b = b, a
                op = {">": "<", "<": ">", ">=": "<=", "<=": ">="}[op]
            else:
                raise AnalysisBroken("%s: distance test not against a literal" % self.fn["qname"])
        c = int(b["val"])
        # far in this dimension iff |d| > T
        if op == ">":
            T = c
        elif op == ">=":
            T = c - 1
        else:
            raise AnalysisBroken("%s: distance test `%s` not of the form |d| > T" % (self.fn["qname"], self.facts.ntext(t)[:60]))
        # the statement it guards clears the too-close flag, and the append is guarded by flag == false
        st = t.get("_p")
        while st is not None and st.get("k") != "IfStmt":
            st = st.get("_p")
        clears = [y for y in walk(st) if y.get("k") == "BinaryOperator" and y.get("op") == "=" and strip(kids(y)[1]).get("k") == "CXXBoolLiteralExpr" and not strip(kids(y)[1]).get("val")] if st is not None else []
        if len(clears) != 1:
            raise AnalysisBroken("%s: the distance test does not clear a too-close flag" % self.fn["qname"])
        flag = strip(kids(clears[0])[0]).get("did")
        pushes = [c_ for c_ in walk(body) if c_.get("k") in ("CallExpr", "CXXMemberCallExpr") and tbf.callee_name(c_) == "push_back"]
        ok = False
        for p_ in pushes:
            for a_ in tbf.ancestors(p_):
                if a_.get("k") == "IfStmt":
                    c0 = strip([y for y in kids(a_) if y.get("k") != "DeclStmt"][0])
                    if c0.get("k") == "BinaryOperator" and c0.get("op") == "==" and strip(kids(c0)[0]).get("did") == flag and strip(kids(c0)[1]).get("k") == "CXXBoolLiteralExpr" and not strip(kids(c0)[1]).get("val"):
                        ok = True
        if not ok:
            raise AnalysisBroken("%s: the append is not guarded by `too close == false`" % self.fn["qname"])
        # the flag starts true and the scan stops at the first far dimension: far iff SOME dimension is far
        fd = [v for v in walk(body) if v.get("k") == "VarDecl" and v.get("did") == flag]
        if not fd or not kids(fd[0]) or not strip(kids(fd[0])[0]).get("val"):
            raise AnalysisBroken("%s: the too-close flag does not start true" % self.fn["qname"])
        return T

    def wrap(self, ppos, level):
        """periodic interaction list: (wrapped parent coordinate, shift added to the children's coordinates) for an unwrapped candidate parent"""
        body = tbf.body(self.fn)
        if not hasattr(self, "_wraploop"):
            loops = [l for l in walk(body) if l.get("k") == "ForStmt" and any(y.get("k") == "CompoundAssignOperator" and y.get("op") in ("+=", "-=") and strip(kids(y)[0]).get("k") in ("ArraySubscriptExpr", "CXXOperatorCallExpr")
                                                                       and any(z.get("did") in self.limits for z in walk(kids(y)[1])) for y in walk(kids(l)[-1]))]
            if len(loops) != 1:
                # the modulo form `p[d] = (p[d] + limit) % limit` wraps the coordinate but forgets WHICH image it came from
                mods = [y for y in walk(body) if y.get("k") == "BinaryOperator" and y.get("op") == "=" and strip(kids(y)[0]).get("k") in ("ArraySubscriptExpr", "CXXOperatorCallExpr")
                        and any(z.get("k") == "BinaryOperator" and z.get("op") == "%" and any(w.get("did") in self.limits for w in walk(kids(z)[1])) for z in walk(kids(y)[1]))]
                if mods and not loops:
                    lp = [a for a in tbf.ancestors(mods[0]) if a.get("k") == "ForStmt"]
                    scope = lp[0] if lp else body
                    shifts = [y for y in walk(scope) if y.get("k") == "BinaryOperator" and y.get("op") == "=" and y is not mods[0] and strip(kids(y)[0]).get("k") in ("ArraySubscriptExpr", "CXXOperatorCallExpr")
                              and any(w.get("did") in self.limits for w in walk(kids(y)[1]))]
                    if not shifts:
                        raise ImageLost(mods[0], "the candidate parent is wrapped by `%s` and nothing records the shift (which image of the box it was taken from): the children's relative position can then only be reconstructed as the nearest image, "
                                        "which lists a cell once where the periodic interaction list needs it once per image - at the levels with few cells per dimension the same cell is a far neighbour through several images" % self.facts.ntext(mods[0])[:70])
                raise AnalysisBroken("%s: the periodic wrap of the candidate parent was not recognised (%d loops)" % (self.fn["qname"], len(loops)))
            self._wraploop = loops[0]
            upd = [strip(kids(strip(kids(y)[0]))[-2]).get("did") for y in walk(kids(loops[0])[-1]) if y.get("k") == "CompoundAssignOperator" and y.get("op") in ("+=", "-=")]
            sets = [strip(kids(strip(kids(y)[0]))[-2]).get("did") for y in walk(kids(loops[0])[-1]) if y.get("k") == "BinaryOperator" and y.get("op") == "=" and strip(kids(y)[0]).get("k") in ("ArraySubscriptExpr", "CXXOperatorCallExpr")]
            if len(set(upd)) != 1 or len(set(sets)) != 1:
                raise AnalysisBroken("%s: wrapped position / shift arrays not identified" % self.fn["qname"])
            self._wrap_pos, self._wrap_shift = upd[0], sets[0]
        scal = {d: (1 << max(0, level + k_)) for d, k_ in self.limits.items()}
        m = Mini(self.facts, self.fn, scal, {self._wrap_pos: ppos, self._wrap_shift: 0}, periodic=True)
        m.run(kids(self._wraploop)[-1])
        return m.out.get(self._wrap_pos, ppos), m.out.get(self._wrap_shift, 0)

    def empty_below(self, periodic=False):
        body = tbf.body(self.fn)
        for i in walk(body):
            if i.get("k") == "IfStmt":
                c = [y for y in kids(i) if y.get("k") != "DeclStmt"]
                c0 = strip(c[0])
                if c0.get("k") == "BinaryOperator" and c0.get("op") == "<" and strip(kids(c0)[0]).get("did") == self.level_p["did"] and strip(kids(c0)[1]).get("k") == "IntegerLiteral" \
                        and len(c) > 1 and any(y.get("k") == "ReturnStmt" for y in walk(c[1])):
                    per = [a_ for a_ in tbf.ancestors(i) if a_.get("k") == "IfStmt" and "IsPeriodic" in self.facts.ntext([y for y in kids(a_) if y.get("k") != "DeclStmt"][0])]
                    if per:
                        pc = [y for y in kids(per[0]) if y.get("k") != "DeclStmt"]
                        in_then = any(x is i for x in walk(pc[1]))
                        nonper_is_then = "false" in self.facts.ntext(pc[0]) or "!" in self.facts.ntext(pc[0])
                        if (in_then != nonper_is_then) != periodic:
                            continue
                    return int(strip(kids(c0)[1])["val"])
        return 0


def neighbour_filters(facts, b):
    """self exclusion and upper-half filter of the neighbour builder: returns (excludes_self, base, offset, filter_is_strict_upper_half)"""
    fn = b.fn
    body = tbf.body(fn)
    t = facts.ntext(body)
    # the offset seen through a local lambda: its parameter stands for the offset array at every call that passes it
    lambdas = {v["did"]: strip(kids(v)[0]) for v in walk(body) if v.get("k") == "VarDecl" and kids(v) and strip(kids(v)[0]).get("k") == "LambdaExpr"}
    curs = {b.cur}
    for c_ in walk(body):
        if c_.get("k") in ("CallExpr", "CXXOperatorCallExpr") and kids(c_) and strip(kids(c_)[0]).get("did") in lambdas:
            lam = lambdas[strip(kids(c_)[0])["did"]]
            for i, a_ in enumerate(kids(c_)[1:]):
                if strip(a_).get("did") == b.cur and i < len(lam.get("params") or []):
                    curs.add(lam["params"][i].get("did"))
    ne = [x for x in walk(body) if x.get("k") == "BinaryOperator" and x.get("op") == "!=" and strip(kids(x)[1]).get("k") == "IntegerLiteral" and strip(kids(x)[1]).get("val") == 0
          and len(kids(strip(kids(x)[0]))) >= 2 and strip(kids(strip(kids(x)[0]))[-2]).get("did") in curs]
    selfx = "offset" if len(ne) == 1 else None
    if selfx is None:
        # self exclusion by comparing the (wrapped) index of the candidate with the cell's own index
        pushes = [c_ for c_ in walk(body) if c_.get("k") in ("CallExpr", "CXXMemberCallExpr") and tbf.callee_name(c_) == "push_back"]
        decls = {v["did"]: v for v in walk(body) if v.get("k") == "VarDecl"}
        for p_ in pushes:
            for a_ in tbf.ancestors(p_):
                if a_.get("k") == "IfStmt":
                    c0 = [y for y in kids(a_) if y.get("k") != "DeclStmt"][0]
                    for y in walk(c0):
                        if y.get("k") == "BinaryOperator" and y.get("op") == "!=":
                            l0, r0 = strip(kids(y)[0]), strip(kids(y)[1])
                            ids = {l0.get("did"), r0.get("did")}
                            other = [d_ for d_ in ids if d_ in decls and kids(decls[d_]) and tbf.callee_name(strip(kids(decls[d_])[0])) == "getIndexFromBoxPos"]
                            if fn["params"][0]["did"] in ids and len(other) == 1:
                                selfx = "index"
    base = off = None
    for x in walk(body):
        if x.get("k") == "CompoundAssignOperator" and x.get("op") == "*=" and strip(kids(x)[1]).get("k") == "IntegerLiteral":
            base = int(strip(kids(x)[1])["val"])
        if x.get("k") == "CompoundAssignOperator" and x.get("op") == "+=":
            lits = [y for y in walk(kids(x)[1]) if y.get("k") == "IntegerLiteral"]
            if len(lits) == 1 and base is not None and off is None:
                off = int(lits[0]["val"])
    flt = [x for x in walk(body) if x.get("k") == "BinaryOperator" and x.get("op") == "||" and any(y.get("did") == fn["params"][2]["did"] for y in walk(x))] if len(fn["params"]) > 2 else []
    strict = False
    if len(flt) == 1:
        r = strip(kids(flt[0])[1])
        lhs = strip(kids(r)[0]) if r.get("k") == "BinaryOperator" else None
        if lhs is not None and lhs.get("k") == "DeclRefExpr":
            # the middle code hoisted into a const local
            dv = [v for v in walk(body) if v.get("k") == "VarDecl" and v.get("did") == lhs.get("did") and kids(v) and "const" in (v.get("t") or "")]
            if len(dv) == 1:
                lhs = strip(kids(dv[0])[0])
        strict = r.get("k") == "BinaryOperator" and r.get("op") == "<" and "lipow" in facts.ntext(lhs) and "/2" in facts.ntext(lhs).replace(" ", "")
    return selfx, base, off, strict, (flt[0] if flt else None)


def check(facts, res, R, cls, U, thorough=False):
    try:
        far = Builder(facts, cls, "getInteractionListForIndex")
    except ImageLost as e_:
        res.violation(R, tbf.rel(facts.path_of(e_.node)), cls + "::getInteractionListForIndex", "image-lost", e_.node["l"][1], str(e_))
        return 0
    near = Builder(facts, cls, "getNeighborListForIndex")
    f = tbf.rel(facts.path_of(far.fn))
    T = far.threshold()
    G = far.empty_below()
    if far.window_on != "parent" or far.limits[far.window_limit] != -1:
        res.violation(R, f, far.fn["qname"], "window-anchor", far.dimloop["l"][1], "the candidate window of the interaction list is clamped on the %s cell's coordinates against 2^(level%+d): candidates are the children of the PARENT's neighbours, clamped against the parent level's grid 2^(level-1)" % (far.window_on, far.limits[far.window_limit]))
        return 0
    if near.window_on != "cell" or near.limits[near.window_limit] != 0:
        res.violation(R, tbf.rel(facts.path_of(near.fn)), near.fn["qname"], "window-anchor", near.dimloop["l"][1], "the neighbour window is clamped on the %s cell's coordinates against 2^(level%+d), not on the cell itself against 2^level" % (near.window_on, near.limits[near.window_limit]))
        return 0
    selfx, base, off, strict, fnode = neighbour_filters(facts, near)
    if not selfx or base is None or off is None or fnode is None:
        raise AnalysisBroken("%s: self exclusion / offset code / upper-half filter of the neighbour list not recognised" % near.fn["qname"])
    # sample windows for the instance line
    res.instance(R, "%s constants" % cls, facts.loc(far.fn), "interaction list: window on the parent %s at the border / %s inside, far iff some |d| > %d, empty below level %d; neighbour list: window %s / %s, self excluded, code base %d offset %d, upper half %s; transfers from level U = %d"
                 % (far.window(0, 3), far.window(1, 3), T, G, near.window(0, 3), near.window(1, 3), base, off, "strict" if strict else "NOT the strict upper half", U))
    n = 0
    for D, heights in ((1, range(2, 8)), (2, range(2, 6))) + (((3, range(2, 5)),) if thorough else ()):
        for H in heights:
            L = H - 1
            side = 1 << L
            cells = list(itertools.product(range(side), repeat=D))
            mid = (base ** D) // 2
            for x in cells:
                nw = [near.window(x[d], L) for d in range(D)]
                for y in cells:
                    if x == y:
                        continue
                    n += 1
                    dlt = [y[d] - x[d] for d in range(D)]
                    is_near = all(nw[d][0] <= dlt[d] <= nw[d][1] for d in range(D))
                    cnt = 1 if is_near else 0
                    where = ["near field"] if is_near else []
                    for l in range(max(U, 0), H):
                        if l < G:
                            continue
                        xs = [x[d] >> (L - l) for d in range(D)]
                        ys = [y[d] >> (L - l) for d in range(D)]
                        if xs == ys:
                            continue
                        pw = [far.window(xs[d] >> 1, l) for d in range(D)]
                        if all(pw[d][0] <= (ys[d] >> 1) - (xs[d] >> 1) <= pw[d][1] for d in range(D)) and any(abs(ys[d] - xs[d]) > T for d in range(D)):
                            cnt += 1
                            where.append("transfer at level %d" % l)
                    if cnt != 1:
                        res.violation(R, f, cls, "decomposition:%s" % ("missed" if cnt == 0 else "repeated"), far.fn["l"][1],
                                      "with the constants read from the list builders (interaction list: parent window %s..%s clamped at the border, far iff some |d| > %d, empty below level %d; neighbour window %s; transfers from level %d) the source leaf cell %s reaches the target leaf cell %s of a %d-D tree of height %d %d times (%s): every pair of particles in these two leaves interacts %s"
                                      % (far.window(1, 3)[0], far.window(1, 3)[1], T, G, near.window(1, 3), U, y, x, D, H, cnt, ", ".join(where) or "through nothing", "not at all" if cnt == 0 else "%d times" % cnt))
                        return n
                    if is_near:
                        # single-tree executors use the half list with a mutual operator: exactly one of the two cells lists the other
                        def code(dd):
                            c = 0
                            for v in dd:
                                c = c * base + (v + off)
                            return c
                        a, b_ = code(dlt) > mid, code([-v for v in dlt]) > mid
                        if strict and a == b_:
                            res.violation(R, tbf.rel(facts.path_of(near.fn)), near.fn["qname"], "half-list", fnode["l"][1],
                                          "with the upper-half filter read from the neighbour builder (code base %d offset %d, kept iff code > %d) the adjacent leaf cells %s and %s are listed %s: the mutual near-field operator is applied %s" % (base, off, mid, x, y, "by both" if a else "by neither", "twice" if a else "never"))
                            return n
    if not strict:
        res.violation(R, tbf.rel(facts.path_of(near.fn)), near.fn["qname"], "half-list", fnode["l"][1], "the filter of the half neighbour list is not `floor(3^Dim / 2) < code`: `%s`" % facts.ntext(fnode)[:100])
    return n


def check_periodic(facts, res, R, cls, U, thorough=False):
    """the periodic real tree alone: with the constants read from the builders (periodic side of their constexpr branches: window without
    clamps, wrap of the candidate parent and the shift added to its children's coordinates, empty-below level) and transfers from level U,
    every UNWRAPPED leaf cell z of the images -1 .. 1 other than the target x itself reaches x exactly once, and no cell outside that cube
    reaches it at all.  This is the premise of the tiling of the virtual levels (C10.6: the real tree covers [-1, 1])."""
    try:
        far = Builder(facts, cls, "getInteractionListForIndex")
    except ImageLost as e_:
        res.violation(R, tbf.rel(facts.path_of(e_.node)), cls + "::getInteractionListForIndex", "image-lost", e_.node["l"][1], str(e_))
        return 0
    near = Builder(facts, cls, "getNeighborListForIndex")
    f = tbf.rel(facts.path_of(far.fn))
    T = far.threshold()
    G = far.empty_below(periodic=True)
    selfx = neighbour_filters(facts, near)[0]
    if selfx is None:
        raise AnalysisBroken("%s: self exclusion of the neighbour list not recognised" % near.fn["qname"])
    try:
        far.wrap(-1, 3)
    except ImageLost as e_:
        res.violation(R, f, far.fn["qname"], "image-lost", e_.node["l"][1], str(e_))
        return 1
    res.instance(R, "%s periodic constants" % cls, facts.loc(far.fn), "interaction list: window %s (no clamp), wrap of parent -1 at level 3 -> %s, of parent 4 -> %s, far iff some |d| > %d, empty below level %d; neighbour window %s; transfers from level U = %d"
                 % (far.window(0, 3, True), far.wrap(-1, 3), far.wrap(4, 3), T, G, near.window(0, 3, True), U))
    n = 0
    for D, heights in ((1, range(1, 7)), (2, range(1, 5))) + (((3, range(1, 4)),) if thorough else ()):
        for H in heights:
            L = H - 1
            side = 1 << L
            # wrap obligations: wrapped parent = parent mod (grid of the parent level), shift = 2 x (what was subtracted)
            for l in range(max(U, G, 1), H):
                ps = 1 << (l - 1)
                for P in (-1, 0, ps - 1, ps):
                    Pw, sh = far.wrap(P, l)
                    if Pw != P % ps or sh != 2 * (P - Pw):
                        res.violation(R, f, far.fn["qname"], "wrap", far.fn["l"][1], "at level %d a candidate parent at coordinate %d is wrapped to %d with the children's coordinates shifted by %d; it must be wrapped to %d and its children shifted by %d (twice what was subtracted): the relative position handed to the kernel is not the image's" % (l, P, Pw, sh, P % ps, 2 * (P - (P % ps))))
                        return n
            for x in itertools.product(range(side), repeat=D):
                cover = {}
                nw = [near.window(x[d], L, True) for d in range(D)]
                for dl in itertools.product(*[range(nw[d][0], nw[d][1] + 1) for d in range(D)]):
                    z = tuple(x[d] + dl[d] for d in range(D))
                    is_self = not any(dl) if selfx == "offset" else tuple(v % side for v in z) == x
                    if not is_self:
                        cover[z] = cover.get(z, 0) + 1
                for l in range(max(U, 0), H):
                    if l < G:
                        continue
                    xs = [x[d] >> (L - l) for d in range(D)]
                    pw = [far.window(xs[d] >> 1, l, True) for d in range(D)]
                    w = 1 << (L - l)
                    for dp in itertools.product(*[range(pw[d][0], pw[d][1] + 1) for d in range(D)]):
                        for c in itertools.product((0, 1), repeat=D):
                            zs = [2 * ((xs[d] >> 1) + dp[d]) + c[d] for d in range(D)]
                            if any(abs(zs[d] - xs[d]) > T for d in range(D)):
                                # every leaf cell under this level-l cell
                                for sub in itertools.product(range(w), repeat=D):
                                    z = tuple(zs[d] * w + sub[d] for d in range(D))
                                    cover[z] = cover.get(z, 0) + 1
                for z in itertools.product(range(-2 * side, 3 * side), repeat=D):
                    n += 1
                    want = 1 if all(-side <= z[d] < 2 * side for d in range(D)) and z != x else 0
                    got = cover.get(z, 0)
                    if got != want:
                        res.violation(R, f, cls, "periodic-decomposition:%s" % ("missed" if got < want else "repeated"), far.fn["l"][1],
                                      "with the periodic constants read from the list builders (window %s, self recognised by %s, far iff some |d| > %d, empty below level %d, transfers from level %d) the unwrapped source leaf cell %s (grid side %d, %d-D, height %d) reaches the target leaf cell %s %d time(s), expected %d: the real periodic tree does not cover the images -1 .. 1 exactly once"
                                      % (far.window(0, 3, True), "a non-zero offset" if selfx == "offset" else "comparing wrapped indices (an image of the cell itself is then taken for the cell)", T, G, U, z, side, D, H, x, got, want))
                        return n
    return n


def size_assertions(facts_a, facts, res, R, cls):
    """internal assertions of the per-cell list builders that mention the size of the returned list: evaluated against the model's list size
    (periodic side, every value of the filter parameter, Dim 1..3).  `facts_a` is the scan with assertions compiled in."""
    import bitdep
    n = 0
    for name, with_filter in (("getInteractionListForIndex", False), ("getNeighborListForIndex", True)):
        ms = [m for m in facts_a.methods_of(cls) if m["name"] == name and not m.get("inst") and tbf.body(m) is not None]
        if len(ms) != 1:
            raise AnalysisBroken("%s::%s not found in the assertion-enabled scan" % (cls, name))
        fn = ms[0]
        body = tbf.body(fn)
        tbf.link_parents(body)
        fails = [c for c in walk(body) if c.get("k") == "CallExpr" and tbf.callee_name(c) in ("__assert_fail", "__assert")]
        b = Builder(facts, cls, name)
        fpar = fn["params"][2]["did"] if with_filter and len(fn["params"]) > 2 else None
        if with_filter:
            selfx, base, off, strict, fnode = neighbour_filters(facts, b)
        for fc in fails:
            co = None
            for a in tbf.ancestors(fc):
                if a.get("k") == "ConditionalOperator":
                    co = a
                    break
            if co is None:
                continue
            cond = kids(co)[0]
            if not any(y.get("k") in ("CallExpr", "CXXMemberCallExpr") and tbf.callee_name(y) == "size" for y in walk(cond)):
                continue
            per = [a for a in tbf.ancestors(co) if a.get("k") == "IfStmt" and "IsPeriodic" in facts_a.ntext([y for y in kids(a) if y.get("k") != "DeclStmt"][0])]
            if not per:
                continue          # the model below is the periodic one (every cell has the same list size)
            n += 1

            def aev(x, cnt, flt, D):
                x = strip(x)
                k = x.get("k")
                if k in ("CXXStaticCastExpr", "ImplicitCastExpr", "ParenExpr", "CXXFunctionalCastExpr", "CStyleCastExpr") and kids(x):
                    return aev(kids(x)[-1], cnt, flt, D)
                if k == "IntegerLiteral":
                    return int(x["val"])
                if k == "CXXBoolLiteralExpr":
                    return bool(x.get("val"))
                if k == "DeclRefExpr":
                    if x.get("did") == fpar:
                        return flt
                    if x.get("name") == "Dim":
                        return D
                if k in ("CallExpr", "CXXMemberCallExpr"):
                    nm = tbf.callee_name(x)
                    if nm == "size":
                        return cnt
                    fm = [m for m in facts.methods_of(cls) if m["name"] == nm and not m.get("inst") and tbf.body(m) is not None and not m["params"]]
                    if len(fm) == 1 and not tbf.call_args(x):
                        v = bitdep.Interp(facts, {"Dim": D}, cls=cls).call(fm[0], [])
                        if isinstance(v, int):
                            return v
                    if nm == "lipow" and len(tbf.call_args(x)) == 2:
                        return aev(tbf.call_args(x)[0], cnt, flt, D) ** aev(tbf.call_args(x)[1], cnt, flt, D)
                if k == "UnaryOperator" and x.get("op") == "!":
                    return not aev(kids(x)[0], cnt, flt, D)
                if k == "ConditionalOperator":
                    return aev(kids(x)[1], cnt, flt, D) if aev(kids(x)[0], cnt, flt, D) else aev(kids(x)[2], cnt, flt, D)
                if k == "BinaryOperator":
                    op = x.get("op")
                    if op == "||":
                        return bool(aev(kids(x)[0], cnt, flt, D)) or bool(aev(kids(x)[1], cnt, flt, D))
                    if op == "&&":
                        return bool(aev(kids(x)[0], cnt, flt, D)) and bool(aev(kids(x)[1], cnt, flt, D))
                    a_, b_ = aev(kids(x)[0], cnt, flt, D), aev(kids(x)[1], cnt, flt, D)
                    if op in ("==", "!=", "<", "<=", ">", ">="):
                        return {"==": a_ == b_, "!=": a_ != b_, "<": a_ < b_, "<=": a_ <= b_, ">": a_ > b_, ">=": a_ >= b_}[op]
                    if op in ("+", "-", "*", "/"):
                        return {"+": a_ + b_, "-": a_ - b_, "*": a_ * b_, "/": (a_ // b_ if b_ else 0)}[op]
                raise AnalysisBroken("%s::%s: assertion `%s` not evaluable on the model (%s)" % (cls, name, facts_a.ntext(cond)[:80], k))
            bad = None
            for D in (1, 2, 3):
                for flt in ((False, True) if with_filter else (False,)):
                    if with_filter:
                        lo, hi = b.window(0, 2, True)
                        mid = (base ** D) // 2
                        cnt = 0
                        for dl in itertools.product(range(lo, hi + 1), repeat=D):
                            if not any(dl):
                                continue
                            code = 0
                            for v in dl:
                                code = code * base + (v + off)
                            if (not flt) or code > mid:
                                cnt += 1
                    else:
                        T = b.threshold()
                        lo, hi = b.window(1, 3, True)
                        cnt = 0
                        for dp in itertools.product(range(lo, hi + 1), repeat=D):
                            for c in itertools.product((0, 1), repeat=D):
                                z = [2 * dp[d] + c[d] for d in range(D)]       # the target is child (0,..,0) of its parent
                                if any(abs(z[d]) > T for d in range(D)):
                                    cnt += 1
                    ok = bool(aev(cond, cnt, flt, D))
                    if not ok and bad is None:
                        bad = (D, flt, cnt)
            res.instance(R, "%s::%s `%s`" % (cls, name, facts_a.ntext(cond)[:70]), facts_a.loc(fc), "evaluated on the periodic model for Dim 1..3%s: %s" % (" and both values of the filter argument" if with_filter else "", "holds" if bad is None else "fails (Dim %d, filter %s, %d entries)" % bad))
            if bad is not None:
                D, flt, cnt = bad
                res.violation(R, tbf.rel(facts_a.path_of(fc)), fn["qname"], "size-assertion:%s" % name + (":filter" if flt else ""), co["l"][1],
                              "the internal assertion `%s` fails for valid arguments: with Dim = %d, the periodic ordering%s the list holds %d entries - a build with assertions enabled aborts in a plain query" % (
                                  facts_a.ntext(cond)[:90], D, " and the upper-half filter requested (third argument true)" if flt else "", cnt))
    return n
