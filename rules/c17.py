"""C17 — bulk export returns every particle's data and results under its original index."""
import tbf
import idxdomain
import witness

LEVEL = "other"
TECHNIQUE = "index-domain analysis (extent vs subscript domain per dimension) of the export functions over the clang AST + must-compile arity witnesses"

ARITY_TU = witness.HEADERS + """
template <class Real, class Data, long int NbData, long int NbRhs>
long int one(){
    constexpr long int Dim = 3;
    const TbfSpacialConfiguration<Real, Dim> configuration(3, {{1,1,1}}, {{Real(0.5),Real(0.5),Real(0.5)}});
    std::vector<std::array<Data, NbData>> pos(7);
    TbfTree<Real, Data, NbData, double, NbRhs, std::array<long int,1>, std::array<long int,1>> tree(configuration, pos, 4, false);
    auto d = tree.getAllParticlesData();
    auto r = tree.getAllParticlesRhs();
    static_assert(std::is_same<typename std::remove_reference<decltype(d[0][0])>::type, Data>::value, "exported data values must have the tree's data type");
    static_assert(std::is_same<typename std::remove_reference<decltype(r[0])>::type, std::array<double, NbRhs>>::value, "exported result tuple");
    TbfTreeTsm<Real, Data, NbData, double, NbRhs, std::array<long int,1>, std::array<long int,1>> tsm(configuration, pos, pos, 4, false);
    auto ds = tsm.getAllParticlesDataSource(); auto dt = tsm.getAllParticlesDataTarget(); auto rt = tsm.getAllParticlesRhsTarget();
    return (d ? 1 : 0) + (r ? 1 : 0) + (ds ? 1 : 0) + (dt ? 1 : 0) + (rt ? 1 : 0);
}
long int witness(){
    return one<double,double,3,0>() + one<double,double,3,1>() + one<double,double,4,2>() + one<double,double,5,3>() + one<double,double,6,4>()
         + one<float,double,3,1>() + one<double,float,4,1>() + one<float,float,6,0>();
}
"""


def run(res, tier):
    facts = tbf.scan("core")
    res.units.append("umbrella TU 'core': TbfTree::getAllParticlesData, ::getAllParticlesRhs (+ rebuild's gather/scatter lambdas as sibling reference)")
    res.rule("C17.index-domain: out[original(p)][v] = in[v][p] - every subscripted dimension is indexed by an expression of the domain its extent is declared with; the per-particle tuple has the tree's value type")
    n = 0
    # the exports read the tree as it is now: nothing they rely on may be left over from before a rebuild (rule of C13.5)
    import c13
    res.rule("C17.derived-state: every member the tree fills from its groups outside construction (a table of particle slots, ...) is reset by rebuild()")
    before = len(res.violations)
    c13.derived_state(facts, res, R="C17.derived-state")
    stale = len(res.violations) > before
    for q in ("TbfTree::getAllParticlesData", "TbfTree::getAllParticlesRhs"):
        fn = facts.fn(q)
        try:
            k = idxdomain.check_function(facts, fn, res, "C17.index-domain")
        except tbf.AnalysisBroken:
            if not stale:
                raise
            k = 1       # the export goes through the remembered table reported above
        if k < 1 and not stale:
            raise tbf.AnalysisBroken("%s: no copy statement recognised in its leaf visitor" % q)
        n += max(k, 1 if stale else 0)
    res.floor("C17.index-domain", n, 2, "copy statements")
    # the rows the exports' leaf visitors are handed are the rows the kernels wrote (rule of C06.10 on the particle container's accessors)
    import c06
    res.rule("C17.rows-read: the row pointers applyToAllLeaves / getParticleData / getParticleRhs hand out are the viewer's own address of an item of that row (or row 0 + r x the SAME viewer's row length) moved along the row only - what the export reads under (value v, position p) is what getItem(p, v) holds")
    sub = tbf.Result("C06")
    nrows = c06.row_addressing(facts, sub)
    for i in sub.instances:
        res.instance("C17.rows-read", i["key"], i["at"], i["detail"])
    for v in sub.violations:
        res.violation("C17.rows-read", v["file"], v["function"], v["key"], v["line"], v["msg"] + " - getAllParticlesData / getAllParticlesRhs and rebuild() read the leaves through these pointers")
    res.rule("C17.preserved-results: what the exports return after a rebuild is what rebuild() gathered and scattered back - per-particle arrays by original index then value, per-leaf rows by value then position, results scattered from the gathered array (rule C13.2)")
    import c13 as _c13
    _sub13 = tbf.Result("C13")
    tbf.donor_run(res, _c13, _sub13)
    tbf.reexport(res, _sub13, ("C13.2", "C13.6"), "C17.preserved-results", min_instances=2)
    # the target/source tree only forwards
    for q, want in (("TbfTreeTsm::getAllParticlesDataSource", "treeSource.getAllParticlesData"), ("TbfTreeTsm::getAllParticlesDataTarget", "treeTarget.getAllParticlesData"),
                    ("TbfTreeTsm::getAllParticlesRhsTarget", "treeTarget.getAllParticlesRhs")):
        fn = facts.fn(q)
        txt = facts.ntext(tbf.body(fn))
        res.instance("C17.tsm-forward", q, facts.loc(fn), txt)
        if want + "()" not in txt:
            res.violation("C17.tsm-forward", tbf.rel(facts.path_of(fn)), q, "forward", fn["l"][1], "does not forward to %s()" % want)
    # arity witnesses
    for comp in (("g++",) if tier == "quick" else ("g++", "clang++")):
        rc, err = tbf.compile_witness(ARITY_TU, compiler=comp, name="c17_arity.cpp", max_errors=5)
        res.instance("C17.arity-witness", comp, "witness:c17_arity", "1-6 data values, 0-4 result values, data type != real type, target/source trees")
        if rc != 0:
            f, line, msg = tbf.first_repo_diag(err)
            res.violation("C17.arity-witness", f, "<witness c17_arity>", comp, line, "export functions do not instantiate / have the wrong element type: " + msg[:300])
