"""C15 — no out-of-bounds, use-after-lifetime or undefined behaviour on any valid input.

Sanitizer territory as a whole.  Decided here only where the shape of the code settles it:
 1 pairing on all paths: every TbfUtils::CreateNew result is handed (firstprivate) to exactly one
   task which deletes it exactly once, unconditionally, after its last use, and the creator never
   touches it again; every DuplicatePositionsAndApplyShift result reaches FreePositions at the end
   of its block with no exit in between; inside the shifter every slot is allocated with new[] and
   released with delete[]
 2 ownership typestate of TbfMemoryBlock: destructor / move-assignment free iff the object owns;
   ownership is set exactly where the allocation happens; the moved-from object ends null and
   non-owning; raw-memory views never own; copying is deleted
 3 capture lifetimes of the OpenMP tasks (C03.c rule) and position slots handed to kernels are
   written (C02.3 rule)
Out-of-bounds, overflow, invalid shifts and assertion failures on arbitrary inputs are NOT decided.
"""
import os
import re

import tbf
import omp
import effects
import coherence
import c02
from tbf import walk, kids, strip, AnalysisBroken

LEVEL = "other"
TECHNIQUE = "acquire/release pairing, ownership typestate and lifetime rules over the clang AST (structured control flow)"

OMP_CLASSES = ["TbfOpenmpAlgorithm", "TbfOpenmpAlgorithmTsm"]
KERNELS = ["FRotationKernel", "FUnifKernel"]


def stmt_of(n, block):
    cur = n
    while cur.get("_p") is not None and cur.get("_p") is not block:
        cur = cur["_p"]
    return cur if cur.get("_p") is block else None


def create_new_pairing(facts, res):
    R = "C15.1.create-new-pairing"
    n = 0
    for cls in OMP_CLASSES:
        for fn in facts.methods_of(cls):
            b = tbf.body(fn)
            if b is None:
                continue
            tbf.link_parents(b)
            for v in walk(b):
                if v.get("k") != "VarDecl" or not kids(v):
                    continue
                init = strip(kids(v)[0])
                if not (init.get("k") == "CallExpr" and tbf.callee_name(init) == "CreateNew"):
                    continue
                n += 1
                did = v["did"]
                f = tbf.rel(facts.path_of(v))
                key = "%s:%s@%d" % (fn["name"], v["name"], v["l"][1])
                tasks = [t for t in walk(b) if t.get("k") == "OMPTaskDirective"]
                owners = [t for t in tasks if did in omp.clause_vars(t, "firstprivate")]
                uses = [x for x in walk(b) if x.get("k") == "DeclRefExpr" and x.get("did") == did]
                res.instance(R, "%s::%s" % (cls, key), facts.loc(v), "handed to %d task(s), %d uses" % (len(owners), len(uses)))
                if len(owners) != 1:
                    res.violation(R, f, fn["qname"], key + ":owner", v["l"][1], "heap object '%s' is handed (firstprivate) to %d tasks; exactly one must own and delete it" % (v["name"], len(owners)))
                    continue
                t = owners[0]
                tb = kids(t)[0]
                # the owner must be created on every path that created the object: a task under a condition the allocation is not under
                # leaves the object without an owner when the condition is false
                cond_t = [a for a in tbf.ancestors(t) if a.get("k") in ("IfStmt", "SwitchStmt", "ConditionalOperator")]
                cond_v = set(id(a) for a in tbf.ancestors(v))
                extra = [a for a in cond_t if id(a) not in cond_v]
                if extra:
                    c0 = [y for y in kids(extra[0]) if y.get("k") != "DeclStmt"][0]
                    res.violation(R, f, fn["qname"], key + ":conditional-owner", extra[0]["l"][1], "'%s' is allocated unconditionally but the only task that deletes it is created under `%s`: when that is false nothing releases the object (leak, once per group, level and execution)" % (v["name"], facts.ntext(c0)[:80]))
                inside = set(id(x) for x in walk(t))
                outside = [x for x in uses if id(x) not in inside]
                # before the task exists the object is still the creator's alone; from the task directive on it may be deleted at any time
                outside = [x for x in outside if (x["l"][1], x.get("b", 0)) > (t["l"][1], t.get("b", 0))]
                if outside:
                    res.violation(R, f, fn["qname"], key + ":creator-use", outside[0]["l"][1], "the creating thread uses '%s' after the task that owns and deletes it has been created" % v["name"])
                dels = [x for x in walk(tb) if x.get("k") == "CXXDeleteExpr" and strip(kids(x)[0]).get("did") == did]
                if len(dels) != 1:
                    res.violation(R, f, fn["qname"], key + ":delete-count", t["l"][1], "task deletes '%s' %d times (exactly once expected): %s" % (v["name"], len(dels), "leak" if not dels else "double free"))
                    continue
                d = dels[0]
                if d.get("array"):
                    res.violation(R, f, fn["qname"], key + ":delete-form", d["l"][1], "'%s' was allocated with new (CreateNew) but is released with delete[]" % v["name"])
                st = stmt_of(d, tb)
                if st is not d or tb.get("k") != "CompoundStmt":
                    res.violation(R, f, fn["qname"], key + ":conditional-delete", d["l"][1], "delete of '%s' is not an unconditional statement of the task body: some path leaks it" % v["name"])
                    continue
                later = [x for x in walk(tb) if x.get("k") == "DeclRefExpr" and x.get("did") == did and x["l"][1] > d["l"][1]]
                if later:
                    res.violation(R, f, fn["qname"], key + ":use-after-delete", later[0]["l"][1], "'%s' is used after it has been deleted" % v["name"])
                if any(x.get("k") == "ReturnStmt" for x in walk(tb)):
                    res.violation(R, f, fn["qname"], key + ":early-exit", t["l"][1], "task body has an early return before the delete of '%s'" % v["name"])
    res.floor(R, n, 6, "CreateNew sites in the OpenMP executors")
    # CreateNew itself: plain new
    cn = [f for f in facts.functions if f["name"] == "CreateNew" and not f.get("inst")]
    if len(cn) != 1:
        raise AnalysisBroken("TbfUtils::CreateNew not found")
    news = [x for x in walk(tbf.body(cn[0])) if x.get("k") == "CXXNewExpr"]
    if len(news) != 1 or news[0].get("array"):
        res.violation(R, tbf.rel(facts.path_of(cn[0])), cn[0]["qname"], "new-form", cn[0]["l"][1], "CreateNew does not allocate with a single non-array new")


def shifted_positions_pairing(facts, res):
    R = "C15.1.shifted-positions-pairing"
    n = 0
    # the acquire/release pair must exist before its call sites can be judged: without the release routine the
    # ownership idiom has changed and every "released 0 times" report would be about a rule that no longer applies
    if len([f for f in facts.functions if f["name"] == "DuplicatePositionsAndApplyShift" and not f.get("inst")]) != 1 or \
       len([f for f in facts.functions if f["name"] == "FreePositions" and not f.get("inst")]) != 1:
        raise AnalysisBroken("TbfPeriodicShifter::Neighbor::{DuplicatePositionsAndApplyShift,FreePositions} not found")
    for cls in KERNELS:
        for fn in facts.methods_of(cls):
            b = tbf.body(fn)
            if b is None:
                continue
            tbf.link_parents(b)
            for v in walk(b):
                if v.get("k") != "VarDecl" or not kids(v):
                    continue
                init = strip(kids(v)[0])
                if not (init.get("k") in ("CallExpr", "CXXMemberCallExpr") and tbf.callee_name(init) == "DuplicatePositionsAndApplyShift"):
                    continue
                n += 1
                did = v["did"]
                f = tbf.rel(facts.path_of(v))
                key = "%s:%s@%d" % (fn["name"], v["name"], v["l"][1])
                blk = v.get("_p")
                while blk is not None and blk.get("k") != "CompoundStmt":
                    blk = blk.get("_p")
                frees = [x for x in walk(b) if x.get("k") in ("CallExpr", "CXXMemberCallExpr") and tbf.callee_name(x) == "FreePositions"
                         and any(strip(a).get("did") == did for a in tbf.call_args(x))]
                res.instance(R, "%s::%s" % (cls, key), facts.loc(v), "%d FreePositions call(s)" % len(frees))
                if len(frees) != 1:
                    res.violation(R, f, fn["qname"], key + ":free-count", v["l"][1], "shifted copy '%s' is released %d times (exactly once expected): %s" % (v["name"], len(frees), "leak" if not frees else "double free"))
                    continue
                fr = frees[0]
                st = stmt_of(fr, blk)
                sibs = kids(blk)
                # last statement of the acquiring block, or followed by nothing but a bare `return;` (leaving right after the release)
                tail = sibs[sibs.index(st) + 1:] if st is not None and any(x is st for x in sibs) else None
                if st is None or tail is None or not all(x.get("k") == "ReturnStmt" and not kids(x) for x in tail) or len(tail) > 1:
                    res.violation(R, f, fn["qname"], key + ":free-position", fr["l"][1], "FreePositions(%s) is not the last unconditional statement of the block that acquired it" % v["name"])
                if any(x.get("k") in ("ReturnStmt", "CXXThrowExpr", "BreakStmt", "ContinueStmt", "GotoStmt") and (x["l"][1], x.get("b", 0)) < (fr["l"][1], fr.get("b", 0)) and (x["l"][1], x.get("b", 0)) > (v["l"][1], v.get("b", 0)) for x in walk(blk)):
                    res.violation(R, f, fn["qname"], key + ":early-exit", v["l"][1], "an exit statement between the acquisition and the release of '%s' leaks it" % v["name"])
                later = [x for x in walk(blk) if x.get("k") == "DeclRefExpr" and x.get("did") == did and (x["l"][1], x.get("b", 0)) > (fr["l"][1], fr.get("e", 0))]
                if later:
                    res.violation(R, f, fn["qname"], key + ":use-after-free", later[0]["l"][1], "'%s' is used after FreePositions" % v["name"])
    res.floor(R, n, 4, "DuplicatePositionsAndApplyShift sites")
    # inside the shifter: slots allocated with new[] over [0,Dim) and [Dim,NbValues), released with delete[] over [0,NbValues)
    dup = [f for f in facts.functions if f["name"] == "DuplicatePositionsAndApplyShift" and not f.get("inst")]
    fre = [f for f in facts.functions if f["name"] == "FreePositions" and not f.get("inst")]
    if len(dup) != 1 or len(fre) != 1:
        raise AnalysisBroken("TbfPeriodicShifter::Neighbor::{DuplicatePositionsAndApplyShift,FreePositions} not found")
    news = [x for x in walk(tbf.body(dup[0])) if x.get("k") == "CXXNewExpr"]
    dels = [x for x in walk(tbf.body(fre[0])) if x.get("k") == "CXXDeleteExpr"]
    loops = [facts.ntext(l["c"][0]) + ";" + facts.ntext(l["c"][1]) for l in walk(tbf.body(dup[0])) if l.get("k") == "ForStmt" and any(x.get("k") == "CXXNewExpr" for x in walk(l))]
    floops = [facts.ntext(l["c"][0]) + ";" + facts.ntext(l["c"][1]) for l in walk(tbf.body(fre[0])) if l.get("k") == "ForStmt"]
    res.instance(R, "shifter alloc/free", facts.loc(dup[0]), "alloc loops %s (new[]: %s) ; free loops %s (delete[]: %s)" % (loops, [x.get("array") for x in news], floops, [x.get("array") for x in dels]))
    f = tbf.rel(facts.path_of(dup[0]))
    if not news or not all(x.get("array") for x in news) or not dels or not all(x.get("array") for x in dels):
        res.violation(R, f, dup[0]["qname"], "array-form", dup[0]["l"][1], "shifted copies must be allocated with new[] and released with delete[] (found new[]: %s, delete[]: %s)" % ([x.get("array") for x in news], [x.get("array") for x in dels]))
    okcover = len(loops) == 2 and "=0;" in loops[0].replace("longintidxDim", "").replace(" ", "") and loops[0].endswith("<Dim") and "=Dim;" in loops[1] and loops[1].endswith("<NbValues")
    if not okcover or len(floops) != 1 or not floops[0].endswith("<NbValues") or "=0;" not in floops[0]:
        res.violation(R, f, dup[0]["qname"], "slot-coverage", dup[0]["l"][1], "allocation loops %s do not cover exactly the slots [0,NbValues) released by %s" % (loops, floops))


def memoryblock_typestate(facts, res):
    R = "C15.2.memoryblock-ownership"
    cls = facts.cls("TbfMemoryBlock")
    f = tbf.rel(facts.path_of(cls))
    ms = {}
    for m in cls["methods"]:
        ms.setdefault(m["name"], []).append(m)

    def fnq(name, pred=lambda m: True):
        c = [m for m in facts.methods_of("TbfMemoryBlock") if m["name"] == name and pred(m)]
        return c
    # copy deleted
    cp = [m for m in cls["methods"] if m.get("copyctor") or m.get("copyassign")]
    res.instance(R, "copy", f, "copy ctor/assign: %s" % [(m["name"], m["deleted"]) for m in cp])
    if len(cp) != 2 or not all(m["deleted"] for m in cp):
        res.violation(R, f, "TbfMemoryBlock", "copy-not-deleted", cls["l"][1], "an owning raw buffer must not be copyable: copy constructor and copy assignment must be deleted")
    # guarded free helper
    def guarded_free(fn, key):
        b = tbf.body(fn)
        tbf.link_parents(b)
        dels = [x for x in walk(b) if x.get("k") == "CXXDeleteExpr"]
        okall = True
        for d in dels:
            target = strip(kids(d)[0]).get("name")
            g = None
            for a in tbf.ancestors(d):
                if a.get("k") == "IfStmt" and "objectOwnData" in facts.ntext(a["c"][0]) and any(x is d for x in walk(a["c"][1])):
                    g = a
            if target != "rawMemoryPtr" or not d.get("array") or g is None:
                okall = False
                res.violation(R, tbf.rel(facts.path_of(d)), fn["qname"], key + ":unguarded-free", d["l"][1], "buffer released without testing ownership (or not with delete[] rawMemoryPtr): a non-owning view would free memory it does not own")
        return dels, okall
    # destructor
    dt = [m for m in facts.methods_of("TbfMemoryBlock") if m["kind"] == "CXXDestructor"]
    if len(dt) != 1:
        raise AnalysisBroken("TbfMemoryBlock destructor not found")
    dels, _ = guarded_free(dt[0], "dtor")
    res.instance(R, "destructor", facts.loc(dt[0]), "%d guarded delete[]" % len(dels))
    if len(dels) != 1:
        res.violation(R, f, dt[0]["qname"], "dtor:free-count", dt[0]["l"][1], "destructor releases the buffer %d times" % len(dels))
    # move assignment
    mv = [m for m in facts.methods_of("TbfMemoryBlock") if m["name"] == "operator=" and tbf.body(m) is not None]
    if len(mv) != 1:
        raise AnalysisBroken("TbfMemoryBlock move assignment not found")
    dels, _ = guarded_free(mv[0], "move")
    t = facts.ntext(tbf.body(mv[0]))
    o = mv[0]["params"][0]["name"]
    fieldnames = {fl["name"] for fl in cls["fields"]}
    for anchor in ("rawMemoryPtr", "objectOwnData"):
        if anchor not in fieldnames:
            raise AnalysisBroken("TbfMemoryBlock has no member '%s' any more: the ownership rules must be re-read" % anchor)
    res.instance(R, "move-assignment", facts.loc(mv[0]), "%d guarded delete[]; steals and nulls" % len(dels))
    for need, why in (("rawMemoryPtr=%s.rawMemoryPtr;" % o, "does not take the buffer"), ("objectOwnData=%s.objectOwnData;" % o, "does not take the ownership flag"),
                      ("%s.rawMemoryPtr=nullptr;" % o, "leaves the moved-from object pointing at the buffer (double free)"), ("%s.objectOwnData=false;" % o, "leaves the moved-from object owning (double free)")):
        if need not in t:
            res.violation(R, f, mv[0]["qname"], "move:" + need.split("=")[0], mv[0]["l"][1], "move assignment " + why)
    if len(dels) != 1:
        res.violation(R, f, mv[0]["qname"], "move:free-count", mv[0]["l"][1], "move assignment must release the destination's own buffer exactly once when it owns one (found %d)" % len(dels))
    # every data member travels with the buffer: a member the move leaves behind (a capacity, a count, a table pointer) describes the
    # destination's OLD buffer afterwards
    taken = set()
    od = mv[0]["params"][0]["did"]
    for x in walk(tbf.body(mv[0])):
        if x.get("k") in ("BinaryOperator", "CXXOperatorCallExpr") and x.get("op") == "=" and kids(x):
            l0 = strip(kids(x)[0] if x.get("k") == "BinaryOperator" else kids(x)[1])
            r0 = kids(x)[1] if x.get("k") == "BinaryOperator" else kids(x)[-1]
            while l0.get("k") == "ArraySubscriptExpr" and kids(l0):
                l0 = strip(kids(l0)[0])
            if l0.get("k") in ("MemberExpr", "CXXDependentScopeMemberExpr") and l0.get("name") in fieldnames and (not kids(l0) or strip(kids(l0)[0]).get("k") == "CXXThisExpr"):
                if any(y.get("k") in ("MemberExpr", "CXXDependentScopeMemberExpr") and y.get("name") == l0["name"] and kids(y) and strip(kids(y)[0]).get("did") == od for y in walk(r0)):
                    taken.add(l0["name"])
        if x.get("k") in ("CallExpr",) and tbf.callee_name(x) == "swap" and len(tbf.call_args(x)) == 2:
            nm = [y.get("name") for a_ in tbf.call_args(x) for y in walk(a_) if y.get("k") in ("MemberExpr", "CXXDependentScopeMemberExpr") and y.get("name") in fieldnames]
            if len(nm) == 2 and nm[0] == nm[1]:
                taken.add(nm[0])
    left = sorted(fieldnames - taken)
    res.instance(R, "move-assignment members", facts.loc(mv[0]), "takes %s from its argument; left behind: %s" % (sorted(taken), left or "none"))
    for nm in left:
        res.violation(R, f, mv[0]["qname"], "move:left-behind:" + nm, mv[0]["l"][1],
                      "move assignment does not take the member '%s' from its argument: after `a = std::move(b)` it still describes a's old buffer (a capacity or count of the old buffer makes the next reset / access run past the end of the new one)" % nm)
    # move constructor delegates to default ctor + move assignment
    mc = [m for m in facts.methods_of("TbfMemoryBlock") if m["kind"] == "CXXConstructor" and len(m["params"]) == 1 and m["params"][0]["t"].endswith("&&") and "TbfMemoryBlock" in m["params"][0]["t"]]
    if len(mc) == 1:
        t2 = facts.ntext(tbf.body(mc[0]))
        res.instance(R, "move-constructor", facts.loc(mc[0]), t2)
        if ("std::move(%s)" % mc[0]["params"][0]["name"]) not in t2:
            res.violation(R, f, mc[0]["qname"], "movector", mc[0]["l"][1], "move constructor does not move-assign from its argument")
    # ownership set exactly where allocated
    rs = facts.fn("TbfMemoryBlock::resetBlocksFromSizes")
    b = tbf.body(rs)
    tbf.link_parents(b)
    news = [x for x in walk(b) if x.get("k") == "CXXNewExpr" and x.get("array")]
    sets = [x for x in walk(b) if x.get("k") == "BinaryOperator" and x.get("op") == "=" and strip(kids(x)[0]).get("name") == "objectOwnData"]
    same = len(news) == 1 and len(sets) == 1 and facts.ntext(kids(sets[0])[1]) == "true"
    if same:
        blk_n = news[0]
        while blk_n.get("k") != "CompoundStmt":
            blk_n = blk_n["_p"]
        blk_s = sets[0]
        while blk_s.get("k") != "CompoundStmt":
            blk_s = blk_s["_p"]
        same = blk_n is blk_s
    res.instance(R, "ownership-set-at-allocation", facts.loc(rs), "new[] and objectOwnData=true in the same block: %s" % same)
    if not same:
        res.violation(R, f, rs["qname"], "own-flag", rs["l"][1], "objectOwnData = true is not set exactly where the buffer is allocated")
    dels, _ = guarded_free(rs, "reset")
    # raw-memory view constructor never owns; default ctor does not own
    for m in facts.methods_of("TbfMemoryBlock"):
        if m["kind"] != "CXXConstructor":
            continue
        inits = {i.get("member"): i for i in m.get("inits", []) if i.get("member")}
        if "objectOwnData" in inits:
            val = "".join(facts.ntext(c) for c in inits["objectOwnData"]["c"])
            res.instance(R, "ctor@%d owns" % m["l"][1], facts.loc(m), val)
            if val != "false":
                res.violation(R, f, m["qname"], "ctor-owns@%d" % m["l"][1], m["l"][1], "a constructor that does not allocate initialises objectOwnData to '%s'" % val)


# --------------------------------------------------------------------------- C15.4 shift width

# code that exists only for three dimensions: a level is at most 21 there (3 * level <= 63), far below 31
THREE_D_ONLY = {"src/kernels/rotationkernel/": "FRotationKernel static_asserts Dim == 3",
                "src/kernels/unifkernel/": "the uniform kernel's tensors, M2L tables and interpolators are written for 3 dimensions",
                "src/kernels/P2P/": "x,y,z routines"}
NARROW = re.compile(r"^(const )?(unsigned |signed )?(int|short|char|bool|unsigned|short int)$")


def _runtime_amount(m, n):
    """why the shift amount is a run-time quantity (None when it is fixed at compile time or bounded by a
    loop whose bounds are): parameters, members, calls and non-constant locals are run-time"""
    for x in walk(n):
        k = x.get("k")
        if k in ("MemberExpr", "CXXDependentScopeMemberExpr", "CallExpr", "CXXMemberCallExpr", "CXXThisExpr"):
            return m.facts.ntext(x)[:40]
        if k == "DeclRefExpr" and x.get("dk") in ("Var", "ParmVar"):
            did = x.get("did")
            if x.get("staticmember") and (x.get("t") or "").startswith("const "):
                continue      # static const integral member: a constant expression
            if x.get("dk") == "ParmVar":
                return x.get("name")
            if did in m.loop_vars:
                f = m.loop_vars[did]
                bound = [y for y in (kids(f)[1:2] or [])]
                d = m.decls.get(did)
                parts = (kids(d) if d is not None else []) + bound
                inner = None
                for p in parts:
                    for y in walk(p):
                        if y.get("k") == "DeclRefExpr" and y.get("did") == did:
                            continue
                        if y.get("k") in ("MemberExpr", "CXXDependentScopeMemberExpr", "CallExpr", "CXXMemberCallExpr") or \
                                (y.get("k") == "DeclRefExpr" and y.get("dk") in ("Var", "ParmVar") and not (m.decls.get(y.get("did")) or {}).get("constexpr")):
                            inner = m.facts.ntext(y)[:40]
                if inner:
                    return "%s (loop bounded by %s)" % (x.get("name"), inner)
                continue
            d = m.decls.get(did)
            if d is not None and d.get("constexpr"):
                continue
            if d is not None and kids(d) and "const" in d.get("t", ""):
                r = _runtime_amount(m, kids(d)[0])
                if r is None:
                    continue
                return r
            return x.get("name")
    return None


def _level_like(m, n, depth=0):
    """the amount is a level-sized quantity: sums / differences of run-time leaves and constants (through const locals); a product
    of run-time quantities (levels x order, ...) is not bounded by the number of levels"""
    n = strip(n)
    if n is None or depth > 8:
        return False
    k = n.get("k")
    if k in ("IntegerLiteral",):
        return True
    if k in ("CXXStaticCastExpr", "CStyleCastExpr", "CXXFunctionalCastExpr") and kids(n):
        return _level_like(m, kids(n)[0], depth + 1)
    if k == "UnaryOperator" and n.get("op") in ("-", "+"):
        return _level_like(m, kids(n)[0], depth + 1)
    if k == "BinaryOperator" and n.get("op") in ("+", "-"):
        return all(_level_like(m, c, depth + 1) for c in kids(n))
    if k == "BinaryOperator":
        return False
    if k == "DeclRefExpr" and n.get("dk") == "Var":
        d = m.decls.get(n.get("did"))
        if d is not None and kids(d) and "const" in d.get("t", "") and n.get("did") not in m.loop_vars:
            return _level_like(m, kids(d)[0], depth + 1)
        return True
    if k in ("DeclRefExpr", "MemberExpr", "CXXDependentScopeMemberExpr", "CallExpr", "CXXMemberCallExpr"):
        return True
    return False


def shift_width(facts, res, R="C15.4.shift-width", roots_only=False):
    """A tree level is valid up to 63/Dim (Dim 1: 63, Dim 2: 31), a tree height up to one more, and the number of
    periodic levels above the root is a free run-time argument.  `a << n` is evaluated in the promoted type of a:
    when that type has 32 bits and n is a run-time quantity the shift overflows (n == 31) or is undefined (n >= 32)
    on valid deep trees.  Reported: every such shift outside the 3-D-only kernels."""
    import stages
    n_seen = n_wide = hits = 0
    field_types = None
    for fn in facts.functions:
        if fn.get("inst"):
            continue
        path = tbf.rel(facts.path_of(fn)) if fn.get("l") else "?"
        if not roots_only and not path.startswith("src/"):
            continue
        skip = [why for d, why in THREE_D_ONLY.items() if path.startswith(d)]
        roots = [tbf.body(fn)] + [c for i in fn.get("inits", []) for c in i.get("c", [])]
        shifts = []
        for r in roots:
            if r is None:
                continue
            for x in walk(r):
                if x.get("k") in ("BinaryOperator", "CompoundAssignOperator") and x.get("op") in ("<<", "<<="):
                    shifts.append(x)
        if not shifts:
            continue
        m = None
        for x in shifts:
            a, b = kids(x)
            lt = (a.get("t") or "").strip()
            a0 = strip(a)
            if lt in ("<dependent type>", "") and a0 is not None and a0.get("k") in ("CXXDependentScopeMemberExpr", "MemberExpr") and a0.get("name"):
                # member of an object whose type is deduced in the template pattern (`const auto& e = table[i][j]; e.field << n`):
                # the declared type of every field of that name in the library decides
                if field_types is None:
                    field_types = {}
                    for c_ in facts.classes:
                        for fl_ in c_.get("fields", []):
                            field_types.setdefault(fl_["name"], set()).add((fl_.get("t") or "").strip())
                ts = field_types.get(a0["name"], set())
                if ts and all(NARROW.match(t_) for t_ in ts):
                    lt = sorted(ts)[0]
            if lt in ("<dependent type>", "") or not re.match(r"^(const )?(unsigned |signed )?(int|short|char|bool|unsigned|short int|long|long int|long long|unsigned long|long unsigned int|IndexType)\b", lt):
                continue    # stream insertion / dependent operand
            n_seen += 1
            if not NARROW.match(lt):
                n_wide += 1
                # a 64-bit shift is wide enough for a level (x Dim): not for a level multiplied by another quantity that varies
                if m is None and tbf.body(fn) is not None:
                    m = stages.FnModel(facts, fn)
                if m is not None:
                    amt = strip(b)
                    for _ in range(4):
                        d_ = m.decls.get(amt.get("did")) if amt.get("k") == "DeclRefExpr" else None
                        if d_ is not None and kids(d_) and "const" in d_.get("t", "") and amt.get("did") not in m.loop_vars:
                            amt = strip(kids(d_)[0])
                        else:
                            break

                    def varies(e):
                        for z in walk(e):
                            if z.get("k") in ("MemberExpr", "CXXDependentScopeMemberExpr", "CallExpr", "CXXMemberCallExpr"):
                                return True
                            if z.get("k") == "DeclRefExpr" and z.get("dk") in ("Var", "ParmVar") and not (z.get("staticmember") and (z.get("t") or "").startswith("const ")) \
                                    and not (m.decls.get(z.get("did")) or {}).get("constexpr"):
                                return True
                        return False
                    for z in walk(amt):
                        if z.get("k") == "BinaryOperator" and z.get("op") == "*":
                            l_, r_ = kids(z)
                            for p_, q_ in ((l_, r_), (r_, l_)):
                                why_ = _runtime_amount(m, p_)
                                if why_ is not None and varies(q_):
                                    hits += 1
                                    res.violation(R, path, fn["qname"], "%s:%s" % (fn["name"], facts.ntext(x)), x["l"][1],
                                                  "the amount of `%s` is the product of the run-time quantity `%s` and `%s`, which varies too: a level (times the dimension) stays below 64, a level times another varying quantity does not - the shift is undefined from amount 64 on (and wraps on x86)" % (facts.ntext(x), why_, facts.ntext(q_)[:40]))
                                    break
                            else:
                                continue
                            break
                continue
            if m is None:
                if tbf.body(fn) is not None:
                    m = stages.FnModel(facts, fn)
                else:
                    continue
            why = _runtime_amount(m, b)
            if why is None:
                continue
            key = "%s:%s" % (fn["name"], facts.ntext(x))
            if skip and _level_like(m, b):
                res.instance(R, key, facts.loc(x), "32-bit shift by a run-time amount in 3-D-only code (%s): level <= 21" % skip[0], nontrivial=False)
                continue
            hits += 1
            res.violation(R, path, fn["qname"], key, x["l"][1],
                          ("`%s` is evaluated in the 32-bit type '%s' but the amount depends on the run-time quantity `%s`: " % (facts.ntext(x), lt, why)) +
                          ("the amount is a product of run-time quantities, not a level, and is not bounded by 31 (a few levels times the expansion order already exceed it)" if skip else
                           "tree levels up to 63/Dim are valid (Dim 1: 63, Dim 2: 31), so the shift overflows or is undefined on a valid deep tree") + "; shift a 64-bit value")
    return n_seen, n_wide, hits


# --------------------------------------------------------------------------- C15.5 pointer members into owned containers
RESETTERS = {"assign", "clear", "fill", "resize"}


def member_pointers_into_containers(facts, res, R="C15.5.member-pointer-lifetime"):
    """A data member that stores the ADDRESS of an element of a container member of the same object (a `last hit` cache, a
    back pointer) dangles as soon as that container is cleared, refilled or reallocated.  For every such (pointer member P,
    container member G) pair: every member function that structurally modifies G must also reset P.  Decided per class from
    the assignments `P = &element-of-G` / `P[i] = &element-of-G` found in its methods."""
    import c16
    n = 0
    seen_classes = 0
    for cls in sorted(set(c["name"] for c in facts.classes)):
        crecs = [c for c in facts.classes if c["name"] == cls]
        path = tbf.rel(facts.path_of(crecs[0])) if crecs[0].get("l") else ""
        if not path.startswith("src/core/") and not path.startswith("src/algorithms/") and not path.startswith("verif:fixtures"):
            continue
        fields = {}
        for c in crecs:
            for fl in c.get("fields", []):
                fields[fl["name"]] = fl
        ptr_fields = {nm for nm, fl in fields.items() if re.search(r"\*\s*(const)?\s*>*$", fl.get("t", "").strip()) or re.search(r"\*\s*>", fl.get("t", ""))}
        if not ptr_fields:
            continue
        seen_classes += 1
        pairs = {}     # (P, G) -> assignment node
        methods = [m for m in facts.methods_of(cls) if tbf.body(m) is not None]
        for m in methods:
            lk = c16._Look(facts, m)
            for x in walk(lk.fm.body):
                if x.get("k") == "BinaryOperator" and x.get("op") == "=":
                    l = strip(kids(x)[0])
                    base = l
                    while base.get("k") in ("ArraySubscriptExpr", "CXXOperatorCallExpr") and len(kids(base)) >= 2:
                        base = strip(kids(base)[-2])
                    if base.get("k") in ("MemberExpr", "CXXDependentScopeMemberExpr") and base.get("name") in ptr_fields and (not kids(base) or strip(kids(base)[0]).get("k") == "CXXThisExpr"):
                        r = strip(kids(x)[1])
                        if r.get("k") == "UnaryOperator" and r.get("op") == "&":
                            d = lk.desc(kids(r)[0])
                            g = re.search(r"C:(\w+)", d)
                            if g and g.group(1) in fields and g.group(1) != base["name"]:
                                pairs.setdefault((base["name"], g.group(1)), (m, x))
        for (P, G), (m0, x0) in sorted(pairs.items()):
            n += 1
            res.instance(R, "%s::%s -> element of %s" % (cls, P, G), facts.loc(x0), "set in %s" % m0["name"])
            for m in methods:
                if m.get("kind") in ("CXXConstructor", "CXXDestructor"):
                    continue
                lk = c16._Look(facts, m)
                muts = [c for c in walk(lk.fm.body) if c.get("k") in ("CallExpr", "CXXMemberCallExpr") and tbf.callee_name(c) in c16.MUTATORS | {"reserve", "shrink_to_fit"} and tbf.call_base(c) is not None
                        and (lk.container(tbf.call_base(c)) or "").split("[")[0] == G]
                if not muts:
                    continue
                resets = []
                for c in walk(lk.fm.body):
                    if c.get("k") in ("CallExpr", "CXXMemberCallExpr") and tbf.callee_name(c) in RESETTERS and tbf.call_base(c) is not None and (lk.container(tbf.call_base(c)) or "").split("[")[0] == P:
                        resets.append(c)
                    if c.get("k") in ("CallExpr",) and tbf.callee_name(c) in ("fill", "fill_n") and any((lk.container(a) or lk.desc(a)).find(P) >= 0 for a in tbf.call_args(c)):
                        resets.append(c)
                    if c.get("k") == "BinaryOperator" and c.get("op") == "=":
                        l = strip(kids(c)[0])
                        if l.get("k") in ("MemberExpr", "CXXDependentScopeMemberExpr") and l.get("name") == P and strip(kids(c)[1]).get("k") in ("CXXNullPtrLiteralExpr", "GNUNullExpr", "IntegerLiteral", "ImplicitValueInitExpr"):
                            resets.append(c)
                res.instance(R, "%s::%s modifies %s" % (cls, m["name"], G), facts.loc(muts[0]), "%d modification(s) of %s, %d reset(s) of %s" % (len(muts), G, len(resets), P))
                if not resets:
                    res.violation(R, tbf.rel(facts.path_of(m)), m["qname"], "dangling:%s:%s" % (P, m["name"]), muts[0]["l"][1],
                                  "%s() clears / refills / reallocates '%s' but never resets the member '%s', which holds the address of one of its elements (set at %s): "
                                  "the next use of '%s' reads freed or destroyed memory" % (m["name"], G, P, facts.loc(x0), P))
    return n, seen_classes


# --------------------------------------------------------------------------- C15.6 copied owners
COPIED_ROOTS = ["FRotationKernel", "FUnifKernel", "TbfTestKernel", "TbfInteractionCounter", "TbfInteractionTimer", "TbfInteractionPrinter"]


def copied_owners(facts, res, R="C15.6.copied-owner"):
    """The executors copy kernel objects (one per worker, and again whenever the per-worker vector grows).  A kernel class - or a
    class it holds by value - whose destructor releases a raw pointer member must not be copied member-wise: it needs a
    user-provided copy constructor that gives the copy its own storage (or a deleted one), otherwise two objects release the
    same block and the survivors keep using it."""
    import kstate
    ks = kstate.KState(facts)
    n = 0
    todo = [c for c in COPIED_ROOTS if c in ks.classes]
    seen = set()
    while todo:
        c = todo.pop()
        if c in seen:
            continue
        seen.add(c)
        for h in ks.holders(c):
            if h.cls == c and h.kind == "value":
                todo.append(h.target)
        for b in ks.bases(c):
            todo.append(b)
        ptrs = {fl["name"] for _cn, fl in ks.fields(c, with_bases=False) if re.search(r"\*\s*(const)?\s*$", fl.get("t", "").strip())}
        if not ptrs:
            continue
        dtors = [m for m in ks.methods(c, with_bases=False) if m["kind"] == "CXXDestructor"]
        freed = set()
        for d in dtors:
            stack = [d]
            seen_m = set()
            while stack:
                m = stack.pop()
                if id(m) in seen_m:
                    continue
                seen_m.add(id(m))
                for x in walk(tbf.body(m)):
                    if x.get("k") == "CXXDeleteExpr":
                        r = ks.field_ref(kids(x)[0], ptrs)
                        if r:
                            freed.add(r)
                    if x.get("k") in ("CallExpr", "CXXMemberCallExpr"):
                        nm = tbf.callee_name(x) or ""
                        if "free" in nm.lower() and tbf.call_args(x):
                            r = ks.field_ref(tbf.call_args(x)[0], ptrs)
                            if r:
                                freed.add(r)
                        if tbf.call_base(x) is None or strip(tbf.call_base(x)).get("k") == "CXXThisExpr":
                            stack += [g for g in ks.methods(c, nm, with_bases=False) if g["kind"] == "CXXMethod"]
        if not freed:
            continue
        n += 1
        decl = [mm for cl in ks.classes.get(c, []) for mm in cl.get("methods", []) if mm.get("copyctor")]
        state = "implicit" if not decl else ("deleted" if all(mm.get("deleted") for mm in decl) else ("defaulted" if any(mm.get("defaulted") for mm in decl) else "user-provided"))
        res.instance(R, c, tbf.rel(facts.path_of(dtors[0])) + ":%d" % dtors[0]["l"][1], "destructor releases %s; copy constructor: %s" % (sorted(freed), state))
        if state in ("implicit", "defaulted"):
            res.violation(R, tbf.rel(facts.path_of(dtors[0])), c, "member-wise-copy:%s" % c, dtors[0]["l"][1],
                          "%s releases %s in its destructor but is copied member-wise (%s copy constructor), and the executors copy kernels: two objects release the same block "
                          "(double free) and the survivor keeps using freed memory" % (c, sorted(freed), state))
    return n


def probe_bounds(facts, res):
    """C15.10: in the in-group lookups a header record is read at a position that is known to be inside the group: the result of the
    binary search over [0, count) after the `== count` exit, or - for a position computed from the query (a direct-offset fast path) -
    under both a lower-bound and an upper-bound test on the same path.  `p < count` alone lets a query below the group's first index
    read before the block."""
    import c16
    R = "C15.10.probe-bounds"
    n = 0
    for cls, name, cnt in c16.INGROUP:
        ms = [m for m in facts.methods_of(cls) if m["name"] == name and tbf.body(m) is not None and not m.get("inst")]
        if len(ms) != 1:
            raise AnalysisBroken("%s::%s not found" % (cls, name))
        fn = ms[0]
        b = tbf.body(fn)
        tbf.link_parents(b)
        lk = c16._Look(facts, fn)
        f = tbf.rel(facts.path_of(fn))
        for call in walk(b, into_lambdas=False):
            if call.get("k") not in ("CallExpr", "CXXMemberCallExpr") or tbf.callee_name(call) != "getItem" or len(tbf.call_args(call)) != 1:
                continue
            arg = strip(tbf.call_args(call)[0])
            init = lk.local_init(arg) if arg.get("k") == "DeclRefExpr" else None
            i0 = strip(init) if init is not None else None
            n += 1
            if i0 is not None and i0.get("k") in ("CallExpr", "CXXMemberCallExpr") and tbf.callee_name(i0) == "lower_bound_indexes":
                res.instance(R, "%s::%s getItem(%s)@%d" % (cls, name, arg.get("name"), call["l"][1]), facts.loc(call), "position = result of the binary search")
                continue          # C16.1 requires the `== count` exit before it is used, C16.4 that the search stays inside its range
            pd = lk.desc(arg)
            fx = list(c16._path_facts(lk, call))
            # earlier conjuncts of the condition the probe sits in
            cond = None
            for a in tbf.ancestors(call):
                if a.get("k") in ("IfStmt", "WhileStmt"):
                    c0 = a["c"][0]
                    if any(y is call for y in walk(c0)):
                        cond = c0
                    break
            if cond is not None:
                for part in c16._conjuncts(cond):
                    if any(y is call for y in walk(part)):
                        break
                    fx += c16._facts_of(lk, part)
            upper = any(r[0] == "lt" and r[1] == pd for r in fx) or any(r[0] == "ne" and pd in r[1:] and any(cnt in x for x in r[1:]) for r in fx)
            lower = any(r[0] == "le" and r[1] in ("0",) and r[2] == pd for r in fx) or any(r[0] == "lt" and r[1] in ("-1",) and r[2] == pd for r in fx)
            m = re.match(r"^\((.+)-(.+)\)$", pd)
            if m and not lower:
                lower = ("le", m.group(2), m.group(1)) in fx or ("lt", m.group(2), m.group(1)) in fx
            res.instance(R, "%s::%s getItem(%s)@%d" % (cls, name, facts.ntext(arg)[:30], call["l"][1]), facts.loc(call), "computed position `%s`: lower bound tested %s, upper bound tested %s" % (pd[:60], lower, upper))
            if not lower or not upper:
                res.violation(R, f, fn["qname"], "probe:%s@%d" % (facts.ntext(arg)[:30], call["l"][1]), call["l"][1],
                              "the header record at the computed position `%s` is read %s: %s" % (
                                  pd[:80], "without a lower-bound test" if not lower else "without an upper-bound test",
                                  "a query below the group's first index gives a negative position and the read leaves the block (out-of-bounds read; a chance match returns a negative position)" if not lower else "a query beyond the group reads past its last record"))
    res.floor(R, n, 3, "header reads in the in-group lookups")



NORETURN_CALLS = {"abort", "exit", "terminate", "_Exit", "quick_exit", "__builtin_unreachable", "longjmp", "rethrow_exception", "__assert_fail"}


def _completes(s):
    """can control reach the end of statement s?  (structural: conditions are not evaluated, a loop without a constant-true
    condition may end, `if` without `else` may be skipped)"""
    if s is None:
        return True
    k = s.get("k")
    if k == "CompoundStmt":
        return all(_completes(c) for c in kids(s))
    if k in ("ReturnStmt", "CXXThrowExpr"):
        return False
    if k == "IfStmt":
        c = s["c"]
        then, els = (c[-2], c[-1]) if len(c) >= 3 else (c[1], None)
        if els is None:
            return True
        return _completes(then) or _completes(els)
    if k in ("WhileStmt", "ForStmt"):
        cond = s["c"][-2] if k == "WhileStmt" else s["c"][1]
        c0 = strip(cond) if cond is not None else None
        inf = cond is None or (c0.get("k") == "CXXBoolLiteralExpr" and c0.get("val")) or (c0.get("k") == "IntegerLiteral" and c0.get("val") == 1)
        return not (inf and not any(x.get("k") == "BreakStmt" for x in walk(s)))
    if k in ("CXXTryStmt",):
        return any(_completes(c) for c in kids(s))
    e = strip(s)
    if e is not None and e.get("k") == "ExprWithCleanups" and kids(e):
        e = strip(kids(e)[0])
    if e is not None and e.get("k") == "CXXThrowExpr":
        return False
    if e is not None and e.get("k") == "CallExpr" and tbf.callee_name(e) in NORETURN_CALLS:
        return False
    return True


def returns_on_every_path(facts, res, R="C15.11.value-returned", prefix=("src/",)):
    """flowing off the end of a value-returning function is undefined behaviour (the optimiser may drop everything after the last
    statement: the caller runs into whatever follows).  Every function of the library with a non-void declared return type and a body
    must not be able to reach its closing brace."""
    n = 0
    for f in facts.functions:
        if f.get("inst") or tbf.body(f) is None or f["kind"] in ("CXXConstructor", "CXXDestructor", "CXXConversion"):
            continue
        path = tbf.rel(facts.path_of(f))
        if not path.startswith(prefix):
            continue
        r = (f.get("ret") or "").strip()
        if r in ("void", "") or r.startswith("auto") or r.startswith("decltype(auto)"):
            continue
        if re.search(r"enable_if(_t)?<", r) and (re.search(r",\s*void\s*>", r) or not re.search(r"enable_if(_t)?<.*,", r)):
            continue        # enable_if<cond, void>::type / enable_if<cond>::type: void
        n += 1
        if _completes(tbf.body(f)):
            res.violation(R, path, f["qname"], "falls-off:%s@%d" % (f["name"], f["l"][1]), f["l"][1],
                          "%s is declared to return `%s` but control can reach the end of its body without a return statement: undefined behaviour when it is called (an optimised build runs past the function)" % (f["qname"], r[:60]))
    return n


_SCALAR = re.compile(r"^(const )?(unsigned |signed )?(long long|long|int|short|char|bool|float|double|size_t|std::size_t|ptrdiff_t|std::ptrdiff_t)( int)?$")


def members_set_before_use(facts, res, R="C15.12.member-set-before-use", prefix=("src/",)):
    """in a constructor a scalar / pointer member (no initialiser in the class, none in the constructor's list) holds an indeterminate value
    until the body assigns it: the first thing the body does with it must be to give it a value (assignment, stream extraction, its
    address handed out).  A pointer member handed to memcpy / dereferenced first is a write through a wild pointer."""
    n = 0
    for c in facts.classes:
        fields = {f["name"]: f for f in c.get("fields", [])}
        if not fields:
            continue
        for m in facts.methods_of(c["name"]):
            if m["kind"] != "CXXConstructor" or tbf.body(m) is None or m.get("inst"):
                continue
            path = tbf.rel(facts.path_of(m))
            if not path.startswith(prefix):
                continue
            inited = {i.get("member") for i in m.get("inits", []) if i.get("member")}    # the constructor's list and the class's default member initialisers
            b = tbf.body(m)
            tbf.link_parents(b)
            n += 1
            refs = sorted([x for x in walk(b) if x.get("k") in ("MemberExpr", "CXXDependentScopeMemberExpr") and x.get("name") in fields
                           and (not kids(x) or strip(kids(x)[0]).get("k") == "CXXThisExpr")], key=lambda x: x.get("b", 0))
            seen = set()
            for x in refs:
                nm = x["name"]
                if nm in inited or nm in seen:
                    continue
                seen.add(nm)
                t = fields[nm].get("t", "").strip()
                if "[" in t or not (t.endswith("*") or _SCALAR.match(t) or re.match(r"^\w+$", t)):
                    continue        # arrays and class-type members are constructed before the body runs
                par = x.get("_p")
                while par is not None and par.get("k") in ("ParenExpr", "ImplicitCastExpr"):
                    par = par.get("_p")
                write = par is not None and ((par.get("k") == "BinaryOperator" and par.get("op") == "=" and any(z is x for z in walk(kids(par)[0])))
                                             or (par.get("k") == "UnaryOperator" and par.get("op") == "&")
                                             or (par.get("k") == "CXXOperatorCallExpr" and par.get("op") in ("=", ">>")))
                if not write:
                    res.violation(R, path, m["qname"], "unset:%s@%d" % (nm, x["l"][1]), x["l"][1],
                                  "the constructor uses the member '%s' (`%s`) in `%s` before anything has given it a value (no initialiser in the class or in the constructor's list): its value is indeterminate - %s"
                                  % (nm, t, facts.ntext(par)[:60] if par is not None else nm, "the bytes are written through a wild pointer" if "memcpy" in (facts.ntext(par) if par is not None else "") or "memset" in (facts.ntext(par) if par is not None else "") else "undefined behaviour"))
    return n


def wrap_sum_in_range(facts, res, R="C15.14.wrap-sum-in-range", classes=("TbfMortonSpaceIndex", "TbfHilbertSpaceIndex")):
    """The periodic neighbour lists wrap a coordinate p in [-1, L] with `(p + L) % L`, L = 2^level.  The sum reaches 2L = 2^(level+1): for
    the deepest level whose indices still fit (level x Dim <= 62) it must stay below 2^63.  Per ordering class: the dimensions it accepts
    (static_assert Dim == k, else 1..4), the deepest level of each, and every `(x + limit) % limit` whose limit is `1 << level`."""
    n = 0
    for cls in classes:
        ms = [m for m in facts.methods_of(cls) if tbf.body(m) is not None and not m.get("inst")]
        if not ms:
            raise AnalysisBroken("%s not found" % cls)
        src = open(facts.path_of(ms[0])).read()
        fixed = re.search(r"static_assert\s*\(\s*Dim_T\s*==\s*(\d+)", src)
        dims = [int(fixed.group(1))] if fixed else [1, 2, 3, 4]
        for m in ms:
            decls = {v["did"]: v for v in walk(tbf.body(m)) if v.get("k") == "VarDecl"}
            for x in walk(tbf.body(m)):
                if x.get("k") != "BinaryOperator" or x.get("op") != "%":
                    continue
                l, r = strip(kids(x)[0]), strip(kids(x)[1])
                if l.get("k") != "BinaryOperator" or l.get("op") != "+" or r.get("k") != "DeclRefExpr":
                    continue
                if not any(strip(c_).get("did") == r.get("did") for c_ in kids(l)):
                    continue
                d = decls.get(r.get("did"))
                if d is None or not kids(d) or "<<" not in facts.ntext(kids(d)[0]):
                    continue
                n += 1
                bad = [D for D in dims if 2 * (1 << (62 // D)) > (1 << 63) - 1]
                res.instance(R, "%s@%d" % (m["qname"], x["l"][1]), facts.loc(x), "`%s` with %s = %s; dimensions %s, deepest levels %s" % (facts.ntext(x)[:50], r.get("name"), facts.ntext(kids(d)[0])[:30], dims, [62 // D for D in dims]))
                if bad:
                    res.violation(R, tbf.rel(facts.path_of(x)), m["qname"], "wrap-sum:%s@%d" % (m["name"], x["l"][1]), x["l"][1],
                                  "`%s` adds the grid limit 2^level to a coordinate that can equal it: in dimension %s the deepest level whose indices fit 63 bits is %d, and 2^%d + 2^%d overflows the signed 64-bit type (undefined behaviour; wrap the coordinate with a comparison instead of a sum)"
                                  % (facts.ntext(x)[:50], bad[0], 62 // bad[0], 62 // bad[0], 62 // bad[0]))
    return n


def run(res, tier):
    facts = tbf.scan("core")
    res.units.append("umbrella TU 'core': OpenMP executors (CreateNew), rotation/uniform kernels + TbfPeriodicShifter, TbfMemoryBlock, wrapper/top-tree fill idioms")
    res.rule("C15.1 CreateNew -> exactly one owning task, one unconditional delete after last use, no creator use; DuplicatePositionsAndApplyShift -> FreePositions last in block, no exit between; new[]/delete[] slot coverage in the shifter")
    res.rule("C15.2 TbfMemoryBlock: frees guarded by ownership, ownership set at allocation, move steals and nulls, views never own, copy deleted")
    res.rule("C15.3 capture lifetime of OpenMP tasks (C03.c) and array-fill idiom of position slots (C02.3)")
    res.assumptions.append("only the structural clauses are decided; out-of-bounds, overflow, invalid shifts and assertion failures on arbitrary inputs are sanitizer territory and not claimed")
    create_new_pairing(facts, res)
    deferred = []       # a sub-rule that cannot follow a restructuring must not hide what the other sub-rules find in the same change
    try:
        shifted_positions_pairing(facts, res)
    except AnalysisBroken as e_:
        deferred.append(e_)
    memoryblock_typestate(facts, res)
    nt = 0
    for cls in OMP_CLASSES:
        for fn in facts.methods_of(cls):
            nt += omp.check_capture_lifetime(facts, fn, res, pid_rule="C15.3")
    res.floor("C15.3", nt, 14, "omp tasks")
    # the per-worker kernel vector indexed by the worker id inside tasks is grown to the worker count before submission
    import c03
    import stages
    for cls in OMP_CLASSES:
        ex = stages.ExecutorSummary(facts, cls)
        before = len(res.violations)
        c03.kernels_sized(facts, ex, res, "omp_get_max_threads")
        for v in res.violations[before:]:
            v["rule"] = v["rule"].replace("C03.d", "C15.3")
            v["msg"] += " (tasks index the vector with the executing worker's id: out-of-bounds access)"
        for i in res.instances:
            if i["rule"].startswith("C03.d"):
                i["rule"] = i["rule"].replace("C03.d", "C15.3")
    res.rule("C15.4 shift width: outside the 3-D-only kernels no left shift whose amount is a run-time level / height / count is evaluated in a 32-bit type (levels up to 63/Dim are valid)")
    seen, wide, _h = shift_width(facts, res)
    res.instance("C15.4.shift-width", "integer left shifts in src/", "umbrella 'core'", "%d integer shifts examined, %d already 64-bit" % (seen, wide))
    res.floor("C15.4.shift-width", seen, 12, "integer left shifts (37 on the pinned tree; the count moves with harmless edits, the floor only guards against the scan seeing nothing)")
    fx = os.path.join(tbf.VERIF, "fixtures", "c15_int_shift.cpp")
    ff = tbf.scan_file(fx, [], [os.path.join(tbf.VERIF, "fixtures") + os.sep])
    ctl = tbf.Result("control")
    _s, _w, h = shift_width(ff, ctl, roots_only=True)
    if h != 2 or _s != 5:
        raise AnalysisBroken("positive control fixtures/c15_int_shift.cpp: %d of 2 narrow run-time shifts reported (%d of 5 shifts seen)" % (h, _s))
    res.instance("C15.4.shift-width", "positive control", "verif:fixtures/c15_int_shift.cpp", "2 of 2 seeded constructs reported, 3 of 3 harmless ones silent")
    res.rule("C15.6 a class the executors copy (kernels and what they hold by value) whose destructor releases a raw pointer member has a user-provided or deleted copy constructor")
    n6 = copied_owners(facts, res)
    res.floor("C15.6", n6, 1, "copied classes whose destructor releases a pointer member")
    res.rule("C15.7 no function reachable from a kernel operator keeps a mutable static local that is not thread_local: the executors run the operators of different kernel copies at the same time (data race, and a buffer resized under a reader)")
    import c05
    for kcls in ("FUnifKernel", "FRotationKernel", "TbfTestKernel"):
        c05.operator_static_locals(facts, res, kcls, "C15.7.shared-static-in-operators", min_fns=4)
    res.rule("C15.8 the size assertions of the per-cell list builders hold on the periodic model of the lists (rules/decomp.py) for Dim 1..3 and both values of the upper-half filter argument; scan with assertions compiled in (-UNDEBUG)")
    import decomp
    fa = tbf.scan("asserts")
    n8 = 0
    for ocls in ("TbfMortonSpaceIndex", "TbfHilbertSpaceIndex"):
        n8 += decomp.size_assertions(fa, facts, res, "C15.8.list-size-assertions", ocls)
    res.floor("C15.8", n8, 4, "size assertions in the list builders")
    res.rule("C15.9 in the group wrapper a condition that reads a group's cell at a running position is preceded by the test of that position against the group's own number of cells (rule C01.2 probes: a scan bounded by anything else reads past the end of a short group)")
    import c01
    sub9 = tbf.Result("C01")
    c01.guarded_probes(facts, sub9)
    for v in sub9.violations:
        res.violation("C15.9.guarded-probes", v["file"], v["function"], v["key"], v["line"], v["msg"])
    res.instance("C15.9.guarded-probes", "group wrapper", "src/algorithms/sequential/tbfgroupkernelinterface.hpp", "%d conditions reading a cell at a running position" % len([i for i in sub9.instances if " probe@" in i["key"]]))
    res.rule("C15.10 in the in-group lookups a header record is read only at the binary search's result (after its `== count` exit) or at a computed position tested against both bounds on the same path")
    probe_bounds(facts, res)
    res.rule("C15.11 every value-returning function of the library returns a value on every path (control cannot reach the closing brace of a non-void function); C15.12 a constructor gives a scalar / pointer member a value before it uses it")
    n11 = returns_on_every_path(facts, res)
    res.floor("C15.11", n11, 300, "value-returning functions under src/")
    n12 = members_set_before_use(facts, res)
    res.floor("C15.12", n12, 80, "constructors under src/")
    res.instance("C15.11.value-returned", "functions", "umbrella 'core'", "%d value-returning functions, %d constructors examined" % (n11, n12))
    fx11 = os.path.join(tbf.VERIF, "fixtures", "c15_special_members.cpp")
    ff11 = tbf.scan_file(fx11, [], [os.path.join(tbf.VERIF, "fixtures") + os.sep])
    ctl11 = tbf.Result("control")
    returns_on_every_path(ff11, ctl11, prefix=("verif:fixtures",))
    members_set_before_use(ff11, ctl11, prefix=("verif:fixtures",))
    got11 = sorted(v["key"].split("@")[0] for v in ctl11.violations)
    if got11 != ["falls-off:operator=", "unset:plan"]:
        raise AnalysisBroken("positive control fixtures/c15_special_members.cpp: reported %s, expected the assignment without return and the move constructor's plan" % got11)
    res.instance("C15.11.value-returned", "positive control", "verif:fixtures/c15_special_members.cpp", "2 of 2 seeded constructs reported, 3 harmless ones silent")
    res.rule("C15.14 the periodic wrap `(p + limit) % limit` stays in range at the deepest level of every dimension the ordering accepts")
    n14 = wrap_sum_in_range(facts, res)
    res.instance("C15.14.wrap-sum-in-range", "ordering classes", "src/spacial", "%d modulo wraps by a sum with the grid limit" % n14)
    fx14 = os.path.join(tbf.VERIF, "fixtures", "c15_wrap_sum.cpp")
    ff14 = tbf.scan_file(fx14, [], [os.path.join(tbf.VERIF, "fixtures") + os.sep])
    ctl14 = tbf.Result("control")
    wrap_sum_in_range(ff14, ctl14, classes=("WrapFixture",))
    if len(ctl14.violations) != 1 or "wrapBySum" not in ctl14.violations[0]["function"]:
        raise AnalysisBroken("positive control fixtures/c15_wrap_sum.cpp: %d of 1 wraps by a sum reported" % len(ctl14.violations))
    res.instance("C15.14.wrap-sum-in-range", "positive control", "verif:fixtures/c15_wrap_sum.cpp", "1 of 1 seeded constructs reported, the comparison form silent")
    res.rule("C15.13 what the tree remembers about its groups (a position of the group that answered last, a directory, a slot table) is reset by rebuild(): a remembered position past the end of the refilled containers is an out-of-bounds access at the next query (rule C13.5)")
    import c13
    sub13 = tbf.Result("C13")
    nd13 = c13.derived_state(facts, sub13)
    for v in sub13.violations:
        res.violation("C15.13.remembered-positions", v["file"], v["function"], v["key"], v["line"], v["msg"])
    res.instance("C15.13.remembered-positions", "TbfTree derived members", "src/core/tbftree.hpp", "%d members filled from the groups outside construction" % nd13)
    res.rule("C15.5 a member that stores the address of an element of a container member is reset by every member function that clears / refills / reallocates that container")
    np_, nc_ = member_pointers_into_containers(facts, res)
    res.instance("C15.5.member-pointer-lifetime", "classes of src/core and src/algorithms", "umbrella 'core'", "%d classes with pointer-typed members examined, %d members hold addresses of container elements" % (nc_, np_))
    fx5 = os.path.join(tbf.VERIF, "fixtures", "c15_member_pointer.cpp")
    ff5 = tbf.scan_file(fx5, [], [os.path.join(tbf.VERIF, "fixtures") + os.sep])
    ctl5 = tbf.Result("control")
    member_pointers_into_containers(ff5, ctl5)
    if len(ctl5.violations) != 1:
        raise AnalysisBroken("positive control fixtures/c15_member_pointer.cpp: %d of 1 dangling member pointers reported" % len(ctl5.violations))
    res.instance("C15.5.member-pointer-lifetime", "positive control", "verif:fixtures/c15_member_pointer.cpp", "1 of 1 seeded constructs reported, the reset one silent")
    cmap = effects.container_map(facts)
    for fn, sr, call, op, slots in coherence.wrapper_kernel_calls(facts, cmap):
        c02.fill_idiom(facts, fn, sr, call, op, slots, res, R="C15.3.array-fill")
    for cls in c02.TOPTREES:
        for fn, sr, call, op, slots in c02.toptree_calls(facts, cls, cmap):
            c02.fill_idiom(facts, fn, sr, call, op, slots, res, R="C15.3.array-fill")
    if deferred and not res.violations:
        raise deferred[0]
