"""C01 — every pair of distinct particles interacts exactly once.

The statement is a counting law over all particle sets and tree shapes; its arithmetic core (which
cells the list builders enumerate) is value-level and NOT decided here.  Decided are five structural
clauses, each a necessary condition (breaking it loses or duplicates contributions for some input)
that is visible in the shape of the code on every path:

 C01.1 up/down walk      in every executor the upward pass (M2M) and the downward pass (L2L) pair child groups
                         with parent groups by the same cursor (conditions, which cursor each branch advances),
                         and P2M / L2P walk leaf groups and particle groups in the same lock-step
 C01.2 wrapper walk      inside a group pair, M2M and L2L walk parents and children by the same cursor (start
                         position, advance, flush of the last parent)
 C01.3 partition         a list builder appends each interaction to exactly one of (in-group, out-of-group): the two
                         appends are the then / else sides of one branch and append the same object
 C01.4 sorted search     the group mapper sorts its list by the key its binary searches compare (source index first),
                         before the first search; both mapper variants have the same control skeleton
 C01.5 list routing      per executor stage: the in-group half (.first of the builder's pair) goes to the in-group
                         wrapper, the out-of-group half (.second) to the mapper, both halves of the SAME builder call
"""
import re

import tbf
import stages
import cursor
from tbf import walk, kids, strip, AnalysisBroken

LEVEL = "other"
TECHNIQUE = "control-skeleton agreement of sibling walks + partition / sort-before-search (truth tables) / routing rules over the clang AST; executor submission summaries (C03.a) and level intervals (C12.3) re-exported"

CORE_EXECUTORS = ["TbfAlgorithm", "TbfAlgorithmTsm", "TbfOpenmpAlgorithm", "TbfOpenmpAlgorithmTsm"]
SINGLE_TREE = {"core": ["TbfAlgorithm", "TbfOpenmpAlgorithm"], "specx": ["TbfSmSpecxAlgorithm"], "starpu": ["TbfSmStarpuAlgorithm"]}
WRAPPERS = ["TbfGroupKernelInterface"]
ORDERINGS = ["TbfMortonSpaceIndex", "TbfHilbertSpaceIndex"]
UPDOWN = [(r"for\[(.*?)\](down|up)", r"for[\1]"), (r"op\[(M2M|L2L)\]", "op[X2X]"), (r"op\[(P2M|L2P)\]", "op[P2X]"), (r"(Source|Target)\(", "(")]


def method(facts, cls, name):
    ms = [m for m in facts.methods_of(cls) if m["name"] == name and not m.get("inst") and tbf.body(m) is not None]
    if len(ms) != 1:
        raise AnalysisBroken("%s::%s: %d definitions found" % (cls, name, len(ms)))
    return ms[0]


def up_down(facts, res, classes, starpu=False):
    R = "C01.1.up-down-walk"
    n = 0
    for cls in classes:
        for a, b in (("M2M", "L2L"), ("P2M", "L2P")):
            fa, fb = method(facts, cls, a), method(facts, cls, b)
            if "while(" not in cursor.Skeletons(facts, fa).function():
                raise AnalysisBroken("%s::%s: no group walk recognised" % (cls, a))
            cursor.compare(facts, res, R, fa, fb, "%s and %s pair groups" % (a, b), UPDOWN, UPDOWN, ops=not starpu, counters=not starpu)
            n += 1
    return n


def wrapper_walk(facts, res):
    R = "C01.2.wrapper-walk"
    n = 0
    for cls in WRAPPERS:
        fa, fb = method(facts, cls, "M2M"), method(facts, cls, "L2L")

        def roles(fn):
            s = cursor.Skeletons(facts, fn).function()
            lo = set(re.findall(r"param(\d+)\.getElementFromParentIndex", s))
            up = set(re.findall(r"param(\d+)\.getElementFromSpacialIndex", s))
            if len(lo) != 1 or len(up) != 1 or lo == up:
                raise AnalysisBroken("%s: child / parent group parameters not recognised from the start-position lookups" % fn["qname"])
            return [(r"param%s\b" % next(iter(lo)), "LOWER"), (r"param%s\b" % next(iter(up)), "UPPER"), (r"op\[(M2M|L2L)\]", "op[X2X]")]
        cursor.compare(facts, res, R, fa, fb, "parents and children inside a group pair", roles(fa), roles(fb))
        n += 1
        fa, fb = method(facts, cls, "P2M"), method(facts, cls, "L2P")
        cn = [(r"op\[(P2M|L2P)\]", "op[P2X]"), (r"param\d+", "param")]   # one cell group + one particle group, in either order
        cursor.compare(facts, res, R, fa, fb, "leaves of a group", cn, cn)
        n += 1
    return n


def partition(facts, res):
    R = "C01.3.partition"
    n = 0
    for cls in ORDERINGS:
        for name in ("getInteractionListForBlock", "getNeighborListForBlock"):
            fn = method(facts, cls, name)
            body = tbf.body(fn)
            tbf.link_parents(body)
            # the returned pair: (in-group list, out-of-group list)
            firsts, seconds = set(), set()
            for r in walk(body, into_lambdas=False):          # (a `return` inside a local lambda / predicate is not the builder's)
                if r.get("k") != "ReturnStmt" or not kids(r):
                    continue
                mp = [c for c in walk(r) if c.get("k") == "CallExpr" and tbf.callee_name(c) == "make_pair"]
                if len(mp) != 1:
                    raise AnalysisBroken("%s: return is not make_pair(in-group, out-of-group)" % fn["qname"])
                args = tbf.call_args(mp[0])
                vs = []
                for a in args:
                    d = [y for y in walk(a) if y.get("k") == "DeclRefExpr" and y.get("dk") == "Var"]
                    if len(d) != 1:
                        raise AnalysisBroken("%s: make_pair argument not a single list variable" % fn["qname"])
                    vs.append(d[0]["did"])
                firsts.add(vs[0])
                seconds.add(vs[1])
            if len(firsts) != 1 or len(seconds) != 1 or firsts == seconds:
                raise AnalysisBroken("%s: the returns do not agree on (in-group list, out-of-group list)" % fn["qname"])
            vin, vout = next(iter(firsts)), next(iter(seconds))
            pushes = {vin: [], vout: []}
            for c in walk(body):
                if c.get("k") in ("CallExpr", "CXXMemberCallExpr") and tbf.callee_name(c) in ("push_back", "emplace_back"):
                    b = strip(tbf.call_base(c))
                    if b is not None and b.get("did") in pushes:
                        pushes[b["did"]].append(c)
            if len(pushes[vin]) != 1 or len(pushes[vout]) != 1:
                raise AnalysisBroken("%s: %d / %d appends to the in-group / out-of-group list (1 / 1 confirmed by reading)" % (fn["qname"], len(pushes[vin]), len(pushes[vout])))
            pi, po = pushes[vin][0], pushes[vout][0]

            def chain(x):
                out = []
                prev = x
                p = x.get("_p")
                while p is not None:
                    if p.get("k") == "IfStmt":
                        c = p["c"]
                        then, els = (c[-2], c[-1]) if len(c) >= 3 else (c[1], None)
                        side = "then" if (then is prev) else "else" if (els is prev) else "cond"
                        out.append((id(p), side, p))
                    prev = p
                    p = p.get("_p")
                return out
            ci, co = chain(pi), chain(po)
            common = [(a, b) for a in ci for b in co if a[0] == b[0]]
            # the innermost common branch
            ok = False
            where = None
            if common:
                a, b = common[0]
                where = a[2]
                ok = {a[1], b[1]} == {"then", "else"}
            ai = facts.ntext(tbf.call_args(pi)[0]) if tbf.call_args(pi) else "?"
            ao = facts.ntext(tbf.call_args(po)[0]) if tbf.call_args(po) else "?"
            res.instance(R, fn["qname"], facts.loc(pi), "in-group append @%d / out-of-group append @%d under branch @%s on `%s`" % (
                pi["l"][1], po["l"][1], where["l"][1] if where else "?", facts.ntext(where["c"][-3] if where and len(where["c"]) >= 3 else where["c"][0])[:90] if where else "?"))
            n += 1
            if not ok:
                res.violation(R, tbf.rel(facts.path_of(po)), fn["qname"], "complementary", po["l"][1],
                              "the in-group append (line %d) and the out-of-group append (line %d) are not the two sides of one branch: an interaction can land in both lists (applied twice) or in none (lost)" % (pi["l"][1], po["l"][1]))
                continue
            if ai != ao:
                res.violation(R, tbf.rel(facts.path_of(po)), fn["qname"], "same-object", po["l"][1], "the two lists receive different objects (`%s` / `%s`)" % (ai, ao))
            # outer conditions: anything that guards one append must guard the other (else an interaction is classified but dropped)
            gi = [(a[0], a[1]) for a in ci if not common or a[0] != common[0][0][0]]
            go = [(b[0], b[1]) for b in co if not common or b[0] != common[0][1][0]]
            inner_i = [x for x in gi if x[0] not in [y[0] for y in go]]
            inner_o = [x for x in go if x[0] not in [y[0] for y in gi]]
            # the in-group side may additionally test presence in the group (self-inclusion); the out-of-group side must not be filtered further
            if inner_o:
                res.violation(R, tbf.rel(facts.path_of(po)), fn["qname"], "out-filter", po["l"][1], "the out-of-group append is guarded by a condition the in-group append is not: some out-of-group interactions are dropped")
            if len(inner_i) > 1:
                raise AnalysisBroken("%s: %d extra guards on the in-group append (1 presence test confirmed by reading)" % (fn["qname"], len(inner_i)))
    res.floor(R, n, 4, "list builders")


def sorted_search(facts, res):
    R = "C01.4.sorted-search"
    fns = [f for f in facts.functions if f["name"] in ("TbfMapIndexesAndBlocks", "TbfMapIndexesAndBlocksIndexes") and not f.get("inst") and tbf.body(f) is not None and len(f["params"]) == 5]
    if len(fns) != 2:
        raise AnalysisBroken("group mappers: %d five-parameter definitions found (2 confirmed by reading)" % len(fns))
    # the comparator: primary key
    cmpf = [f for f in facts.functions if f["name"] == "SrcFirst" and not f.get("inst") and tbf.body(f) is not None]
    if len(cmpf) != 1:
        raise AnalysisBroken("TbfXtoXInteraction::SrcFirst not found")
    ret = [r for r in walk(tbf.body(cmpf[0])) if r.get("k") == "ReturnStmt"]
    if len(ret) != 1:
        raise AnalysisBroken("SrcFirst: single return expected")
    e = strip(kids(ret[0])[0])
    p0, p1 = [p["did"] for p in cmpf[0]["params"]]

    def member_of(x, did):
        x = strip(x)
        return x.get("name") if x.get("k") in ("MemberExpr", "CXXDependentScopeMemberExpr") and kids(x) and strip(kids(x)[0]).get("did") == did else None
    primary = None
    if e.get("k") == "BinaryOperator" and e.get("op") == "||":
        a = strip(kids(e)[0])
        if a.get("k") == "BinaryOperator" and a.get("op") == "<":
            m0, m1 = member_of(kids(a)[0], p0), member_of(kids(a)[1], p1)
            if m0 and m0 == m1:
                primary = m0
                b = strip(kids(e)[1])
                tie = [y for y in walk(b) if y.get("k") == "BinaryOperator" and y.get("op") == "=="]
                if not tie or member_of(kids(tie[0])[0], p0) != primary or member_of(kids(tie[0])[1], p1) != primary:
                    primary = None
    elif e.get("k") == "BinaryOperator" and e.get("op") == "<":
        m0, m1 = member_of(kids(e)[0], p0), member_of(kids(e)[1], p1)
        primary = m0 if m0 and m0 == m1 else None
    if primary is None:
        raise AnalysisBroken("SrcFirst: lexicographic form `a.k < b.k || (a.k == b.k && ...)` not recognised: %s" % facts.ntext(e)[:120])
    res.instance(R, "comparator", facts.loc(cmpf[0]), "SrcFirst orders by '%s' first" % primary)
    forwarded = set()
    for fn in fns:
        body = tbf.body(fn)
        idx = fn["params"][0]["did"]
        grp = fn["params"][1]["did"]
        sorts = [c for c in walk(body) if c.get("k") == "CallExpr" and tbf.callee_name(c) == "sort"]
        searches = [c for c in walk(body) if c.get("k") == "CallExpr" and tbf.callee_name(c) in ("lower_bound", "upper_bound", "equal_range", "binary_search")]
        if not searches:
            # one mapper written in terms of the other: a single call of the sibling that hands over the list, the groups, the working
            # group and the target groups unchanged (the callback may be adapted) - it is judged through the sibling
            sts = [x for x in kids(body) if x.get("k") not in ("NullStmt",)]
            other = [g_ for g_ in fns if g_ is not fn]
            c0 = strip(sts[0]) if len(sts) == 1 else None
            if c0 is not None and c0.get("k") == "ExprWithCleanups" and kids(c0):
                c0 = strip(kids(c0)[0])
            if c0 is not None and c0.get("k") == "CallExpr" and tbf.callee_name(c0) == other[0]["name"] and len(tbf.call_args(c0)) == 5:
                def _same(arg, par):
                    x = strip(arg)
                    if x.get("k") == "CallExpr" and tbf.callee_name(x) in ("move", "forward") and len(tbf.call_args(x)) == 1:
                        x = strip(tbf.call_args(x)[0])
                    return x.get("k") == "DeclRefExpr" and x.get("did") == par["did"]
                if all(_same(a_, p_) for a_, p_ in list(zip(tbf.call_args(c0), fn["params"]))[:4]):
                    res.instance(R, "%s forwards" % fn["qname"], facts.loc(c0), "forwards list, groups, working group and target groups unchanged to %s, which is checked" % other[0]["name"])
                    forwarded.add(id(fn))
                    continue
            raise AnalysisBroken("%s: no binary search found" % fn["qname"])
        good_sort = None
        for c in sorts:
            a = tbf.call_args(c)
            if len(a) >= 2 and all(any(y.get("did") == idx for y in walk(x)) for x in a[:2]):
                cmpn = [y.get("name") for y in walk(a[2])] if len(a) > 2 else []
                good_sort = (c, "SrcFirst" in cmpn, len(a) > 2)
        first_search = min(searches, key=lambda c: c["b"])
        if good_sort is None or good_sort[0]["b"] > first_search["b"]:
            res.violation(R, tbf.rel(facts.path_of(fn)), fn["qname"], "sort-before-search", first_search["l"][1],
                          "the interaction list is binary-searched (line %d) without having been sorted in this function first: interactions are skipped or mapped to the wrong group" % first_search["l"][1])
        elif not good_sort[1]:
            res.violation(R, tbf.rel(facts.path_of(good_sort[0])), fn["qname"], "sort-key", good_sort[0]["l"][1],
                          "the list is sorted with %s, the searches below compare '%s'" % ("another comparator" if good_sort[2] else "the default order", primary))
        # every search over the list compares the primary key only; every search over the groups compares a group bound with that key
        k = 0
        for c in searches:
            a = tbf.call_args(c)
            over_idx = any(y.get("did") == idx for y in walk(a[0])) or any(y.get("did") == idx for y in walk(a[1]))
            lam = [y for y in walk(c) if y.get("k") == "LambdaExpr"]
            if len(lam) != 1:
                res.violation(R, tbf.rel(facts.path_of(c)), fn["qname"], "comparator@%d" % c["l"][1], c["l"][1], "binary search without an explicit key comparator: it would compare whole interactions / groups")
                continue
            members = sorted(set(y.get("name") for y in walk(lam[0]) if y.get("k") in ("MemberExpr", "CXXDependentScopeMemberExpr") and y.get("name") not in ("begin", "end")))
            k += 1
            res.instance(R, "%s search@%d" % (fn["qname"], c["l"][1]), facts.loc(c), "over the %s, comparator reads %s" % ("interaction list" if over_idx else "groups", members))
            if over_idx and members != [primary]:
                res.violation(R, tbf.rel(facts.path_of(c)), fn["qname"], "search-key@%d" % c["l"][1], c["l"][1],
                              "search over the list sorted by '%s' compares %s" % (primary, members))
            if not over_idx:
                val = facts.ntext(a[2]) if len(a) > 2 else ""
                if not val.endswith("." + primary) and ("." + primary) not in val:
                    res.violation(R, tbf.rel(facts.path_of(c)), fn["qname"], "group-key@%d" % c["l"][1], c["l"][1], "groups are searched with the value `%s`, not an interaction's '%s'" % (val[:60], primary))
        if k < 3:
            raise AnalysisBroken("%s: %d keyed searches recognised (3 confirmed by reading)" % (fn["qname"], k))
        search_semantics(facts, res, fn, searches, idx, grp)
    cn = [(r"lambda@\d+", "lambda")]
    if len(forwarded) == 2:
        raise AnalysisBroken("group mappers: each forwards to the other")
    if not forwarded:
        cursor.compare(facts, res, R, fns[0], fns[1], "the two group mappers", cn, cn)


def mapper_exits(facts, res):
    """C01.7: every way out of a group mapper before the list has been walked is taken only when nothing of the list belongs to any group;
    the four-parameter overloads otherwise forward (list, groups, working group, the same groups, callback) to the five-parameter ones"""
    import mapexit
    R = "C01.7.mapper-exits"
    n = 0
    for name in ("TbfMapIndexesAndBlocks", "TbfMapIndexesAndBlocksIndexes"):
        fns = [f for f in facts.functions if f["name"] == name and not f.get("inst") and tbf.body(f) is not None]
        five = [f for f in fns if len(f["params"]) == 5]
        four = [f for f in fns if len(f["params"]) == 4]
        if len(five) != 1 or len(four) != 1:
            raise AnalysisBroken("%s: %d five- and %d four-parameter definitions (1 and 1 confirmed by reading)" % (name, len(five), len(four)))
        fn = five[0]
        loops = [x for x in kids(tbf.body(fn)) if x.get("k") in ("WhileStmt", "ForStmt")]
        sibling = "TbfMapIndexesAndBlocksIndexes" if name == "TbfMapIndexesAndBlocks" else "TbfMapIndexesAndBlocks"
        sts5 = [x for x in kids(tbf.body(fn)) if x.get("k") != "NullStmt"]
        if not loops and len(sts5) == 1 and [c for c in walk(sts5[0]) if c.get("k") == "CallExpr" and tbf.callee_name(c) == sibling and len(tbf.call_args(c)) == 5]:
            # written in terms of the sibling mapper (a single unconditional call): no exit of its own before the walk; the sibling's are decided
            res.instance(R, "%s forwards" % fn["qname"], facts.loc(sts5[0]), "single unconditional call of %s: no exit of its own" % sibling)
            n += 1
        else:
            if len(loops) != 1:
                raise AnalysisBroken("%s: the walk over the list is not a single top-level loop" % fn["qname"])
            n += mapexit.decide(facts, fn, res, R, fn["params"][0]["did"], fn["params"][1]["did"], loops[0])
        fw = four[0]
        calls = [c for c in walk(tbf.body(fw)) if c.get("k") in ("CallExpr", "CXXMemberCallExpr") and tbf.callee_name(c) == name]
        if len(calls) != 1:
            res.violation(R, tbf.rel(facts.path_of(fw)), fw["qname"], "forward", fw["l"][1], "the four-parameter %s does not forward to the five-parameter one exactly once (%d calls)" % (name, len(calls)))
            continue
        st = calls[0]
        tbf.link_parents(tbf.body(fw))
        while st.get("_p") is not None and st.get("_p") is not tbf.body(fw):
            st = st["_p"]
        if st.get("k") in ("IfStmt", "WhileStmt", "ForStmt"):
            res.violation(R, tbf.rel(facts.path_of(fw)), fw["qname"], "forward-guarded", st["l"][1], "the forwarding call of the four-parameter %s is conditional" % name)
        n += mapexit.decide(facts, fw, res, R, fw["params"][0]["did"], fw["params"][1]["did"], st)
        args = tbf.call_args(calls[0])

        def ref(a):
            ds = [y.get("did") for y in walk(a) if y.get("k") == "DeclRefExpr" and y.get("did") in [p["did"] for p in fw["params"]]]
            return ds[0] if len(set(ds)) == 1 else None
        want = [fw["params"][0]["did"], fw["params"][1]["did"], fw["params"][2]["did"], fw["params"][1]["did"], fw["params"][3]["did"]]
        got = [ref(a) for a in args]
        res.instance(R, fw["qname"] + " forward", facts.loc(calls[0]), "forwards parameters %s" % [([p["name"] for p in fw["params"] if p["did"] == d] or ["?"])[0] for d in got])
        n += 1
        if got != want:
            res.violation(R, tbf.rel(facts.path_of(calls[0])), fw["qname"], "forward-args", calls[0]["l"][1], "the single-tree mapper must forward (list, groups, working group, the same groups, callback); it forwards %s" % got)
    res.floor(R, n, 4, "mapper exits and forwards")


def search_semantics(facts, res, fn, searches, idx, grp):
    """C01.4 (strictness): the comparator of each binary search is the predicate its algorithm needs, decided by truth table over small
    integers - lower_bound over the list: key(e) < v (first interaction at or after the group's first index); lower_bound over the groups:
    last(g) < v (first group ending at or after the interaction); upper_bound over the list: v < key(e) (first interaction after the
    group's last index) - and the searched values are the current group's first / last index and the found interaction's key.  With `<=`
    in the first, the interactions whose source is exactly a group's first cell are skipped; in the third, those of its last cell."""
    import mapexit
    R = "C01.4.sorted-search"
    D = range(4)
    _locals = {v_["did"]: v_ for v_ in walk(tbf.body(fn)) if v_.get("k") == "VarDecl" and "did" in v_}
    elems = [("ELEM", a) for a in D]
    groups = [("GROUP", (s_, e_)) for s_ in D for e_ in D if s_ <= e_]
    vals = list(D)
    body = tbf.body(fn)
    tbf.link_parents(body)
    decl_of = {}
    for v in walk(body):
        if v.get("k") == "VarDecl" and kids(v):
            i0 = strip(kids(v)[0])
            if i0.get("k") == "CallExpr":
                decl_of[id(i0)] = v
    first_item = None
    for c in searches:
        a = tbf.call_args(c)
        nm = tbf.callee_name(c)
        over_idx = any(y.get("did") == idx for y in walk(a[0])) or any(y.get("did") == idx for y in walk(a[1]))
        if not over_idx and not any(y.get("did") == grp for y in walk(a[0])):
            # range given by an iterator variable: it belongs to the list when that variable was produced by a search over the list
            over_idx = first_item is not None and any(y.get("did") == first_item["did"] for y in walk(a[0]))
        lam = [y for y in walk(c) if y.get("k") == "LambdaExpr"]
        if len(lam) != 1 or nm not in ("lower_bound", "upper_bound"):
            continue
        f = tbf.rel(facts.path_of(c))
        key = "strictness@%d" % c["l"][1]
        if nm == "lower_bound":
            xs, ys = (elems if over_idx else groups), vals
            want = (lambda x, y: x[1] < y) if over_idx else (lambda x, y: x[1][1] < y)
            need = "key(e) < v" if over_idx else "last(g) < v"
        else:
            xs, ys = vals, (elems if over_idx else groups)
            want = (lambda x, y: x < y[1]) if over_idx else (lambda x, y: x < y[1][0])
            need = "v < key(e)" if over_idx else "v < first(g)"
        tab = mapexit.lambda_table(facts, fn, lam[0], xs, ys, idx, grp)
        bad = [(x, y) for (x, y), got in tab.items() if got != want(x, y)]
        res.instance(R, "%s comparator@%d" % (fn["qname"], c["l"][1]), facts.loc(c), "%s over the %s: comparator == `%s` on all %d argument pairs: %s" % (nm, "list" if over_idx else "groups", need, len(tab), "yes" if not bad else "no"))
        if bad:
            x, y = bad[0]
            res.violation(R, f, fn["qname"], key, c["l"][1], "%s over the %s needs the comparator `%s`; the lambda differs from it for %s vs %s: interactions whose source index equals a group bound are attributed to the wrong side of the bound and never reach the between-group operator" % (nm, "interaction list" if over_idx else "groups", need, x, y))
        # the searched value
        v = strip(a[2])
        vt = facts.ntext(v)

        def _mentions(e, did, depth=0):
            """the expression names `did`, directly or through a local reference / const local bound to an expression that does"""
            for y in walk(e):
                if y.get("k") == "DeclRefExpr":
                    if y.get("did") == did:
                        return True
                    dv = _locals.get(y.get("did"))
                    if dv is not None and kids(dv) and depth < 3 and _mentions(kids(dv)[0], did, depth + 1):
                        return True
            return False
        d = decl_of.get(id(c))
        if nm == "lower_bound" and over_idx:
            first_item = d
            okv = v.get("k") in ("CallExpr", "CXXMemberCallExpr") and tbf.callee_name(v) == "getStartingSpacialIndex" and _mentions(v, grp)
            needv = "the current group's first index"
        elif nm == "lower_bound":
            okv = v.get("k") in ("MemberExpr", "CXXDependentScopeMemberExpr") and v.get("name") == "indexSrc" and first_item is not None and any(y.get("did") == first_item["did"] for y in walk(v))
            needv = "the source index of the interaction just found"
        else:
            okv = v.get("k") in ("CallExpr", "CXXMemberCallExpr") and tbf.callee_name(v) == "getEndingSpacialIndex" and _mentions(v, grp)
            needv = "the current group's last index"
        if not okv:
            res.violation(R, f, fn["qname"], "value@%d" % c["l"][1], c["l"][1], "%s over the %s searches for `%s`, not for %s" % (nm, "list" if over_idx else "groups", vt[:80], needv))
    # the branch that decides between "skip groups" and "hand a batch over": last(current group) < key(found interaction)
    if first_item is not None:
        ifs = [x for x in walk(body) if x.get("k") == "IfStmt" and any(y.get("k") == "CallExpr" and tbf.callee_name(y) == "upper_bound" for y in walk(x))]
        if len(ifs) != 1:
            raise AnalysisBroken("%s: the branch choosing between skipping groups and handing a batch over was not recognised" % fn["qname"])
        cond = [y for y in kids(ifs[0]) if y.get("k") != "DeclStmt"][0]
        g = mapexit.Guard(facts, fn, idx, grp)
        # the cursors of the condition (integer variables, set to 0: one group in the model); a local that names an element or a group
        # (`auto& g = groups[cursor]`) is resolved through its initialiser, whose own cursors are bound the same way
        cur, todo, seen_ = [], [cond], set()
        while todo:
            for y in walk(todo.pop()):
                if y.get("k") == "DeclRefExpr" and y.get("did") not in (idx, grp, first_item["did"]) and y.get("did") not in seen_:
                    seen_.add(y.get("did"))
                    dv = g.decls.get(y.get("did"))
                    if dv is not None and kids(dv) and not re.search(r"\b(long|int|size_t|ptrdiff_t|unsigned|short)\b", dv.get("t", "")):
                        todo.append(kids(dv)[0])
                    else:
                        cur.append(y)
        wrong = None
        for (s_, e_) in [(s_, e_) for s_ in D for e_ in D if s_ <= e_]:
            for a_ in D:
                g.bind = {first_item["did"]: ("IT", ("ELEM", a_))}
                for y in cur:
                    g.bind[y["did"]] = 0
                got = bool(g.ev(cond, ((a_,), ((s_, e_),))))
                if got != (e_ < a_):
                    wrong = ((s_, e_), a_, got)
        res.instance(R, "%s branch@%d" % (fn["qname"], ifs[0]["l"][1]), facts.loc(ifs[0]), "`%s` == last(group) < key(found) for every group interval and key in 0..3: %s" % (facts.ntext(cond)[:80], "yes" if wrong is None else "no"))
        if wrong is not None:
            res.violation(R, tbf.rel(facts.path_of(ifs[0])), fn["qname"], "branch@%d" % ifs[0]["l"][1], ifs[0]["l"][1],
                          "the mapper skips to another group under `%s`; for the group interval %s and the found source index %d this is %s, whereas the interaction lies %s the group" % (facts.ntext(cond)[:80], wrong[0], wrong[1], wrong[2], "inside" if wrong[0][0] <= wrong[1] <= wrong[0][1] else "outside"))


def decomposition(facts, res, tier="quick"):
    """C01.8 (see rules/decomp.py)"""
    import decomp
    R = "C01.8.level-decomposition"
    # the level from which the executors run transfers: the default of the constructor parameter that feeds the upper working level
    us = set()
    for cls in ("TbfAlgorithm", "TbfOpenmpAlgorithm"):
        for m in facts.methods_of(cls):
            if m.get("kind") == "CXXConstructor" or m["name"].startswith(cls):
                for p in m["params"]:
                    if p.get("c") and ("long" in p.get("t", "") or "int" in p.get("t", "")):
                        for y in walk(p["c"][0]):
                            if y.get("k") == "DeclRefExpr":
                                g = [g_ for g_ in facts.globals if g_["name"] == y.get("name")]
                                if g and g[0].get("c"):
                                    lit = [z for z in walk(g[0]["c"][0]) if z.get("k") == "IntegerLiteral"]
                                    if len(lit) == 1:
                                        us.add(int(lit[0]["val"]))
                            if y.get("k") == "IntegerLiteral":
                                us.add(int(y["val"]))
    if len(us) != 1:
        raise AnalysisBroken("default upper working level of the single-tree executors not identified (%s)" % sorted(us))
    U = next(iter(us))
    n = decomp.check(facts, res, R, "TbfMortonSpaceIndex", U, thorough=(tier == "thorough"))
    res.floor(R, n, 1000, "ordered pairs of leaf cells")
    res.instance(R, "model size", "rules/decomp.py", "%d ordered pairs of leaf cells examined" % n)


def guarded_probes(facts, res):
    """C01.2 (probes): in the group wrapper a condition that reads a cell of a group at a running position - `f(G.getCellSpacialIndex(i))`
    in a loop or branch condition - is preceded, in the same short-circuit conjunction, by the test of i against G's own number of cells.
    A scan bounded by anything else (a literal, the number of children per cell) stops before it has found what it looks for when the group
    holds more cells than that bound, and reads past the group's end when it holds fewer."""
    R = "C01.2.wrapper-walk"
    n = 0
    cls = "TbfGroupKernelInterface"
    for fn in facts.methods_of(cls):
        b = tbf.body(fn)
        if b is None or fn.get("inst"):
            continue
        tbf.link_parents(b)
        fm = stages.FnModel(facts, fn)
        conds = []
        for x in walk(b):
            k = x.get("k")
            if k in ("WhileStmt", "DoStmt"):
                c = kids(x)[0] if k == "WhileStmt" else kids(x)[-1]
                conds.append((x, c))
            elif k == "ForStmt" and len(kids(x)) >= 2 and kids(x)[1] is not None:
                conds.append((x, kids(x)[1]))
            elif k == "IfStmt":
                c = [y for y in kids(x) if y.get("k") != "DeclStmt"]
                if c:
                    conds.append((x, c[0]))
        for st, cond in conds:
            def conj(e):
                e = strip(e)
                if e.get("k") == "BinaryOperator" and e.get("op") == "&&":
                    return conj(kids(e)[0]) + conj(kids(e)[1])
                return [e]
            parts = conj(cond)
            for i_, part in enumerate(parts):
                for call in walk(part):
                    if call.get("k") in ("CallExpr", "CXXMemberCallExpr") and tbf.callee_name(call) in ("getCellSpacialIndex", "getLeafSpacialIndex") and tbf.call_base(call) is not None and len(tbf.call_args(call)) == 1:
                        g = strip(tbf.call_base(call))
                        ix = strip(tbf.call_args(call)[0])
                        if ix.get("k") != "DeclRefExpr" or g.get("k") != "DeclRefExpr":
                            continue
                        if ix.get("did") in fm.loop_vars and st.get("k") == "ForStmt":
                            continue          # a counted loop's own variable: its bound is the loop's
                        n += 1
                        cnt = "getNbCells" if tbf.callee_name(call) == "getCellSpacialIndex" else "getNbLeaves"
                        ok = False
                        for prev in parts[:i_]:
                            pv = strip(prev)
                            if pv.get("k") == "BinaryOperator" and pv.get("op") in ("!=", "<"):
                                a0, b0 = strip(kids(pv)[0]), strip(kids(pv)[1])
                                for u, v in ((a0, b0), (b0, a0)):
                                    if u.get("did") == ix.get("did") and v.get("k") in ("CallExpr", "CXXMemberCallExpr") and tbf.callee_name(v) == cnt and tbf.call_base(v) is not None and strip(tbf.call_base(v)).get("did") == g.get("did"):
                                        ok = True
                        if not ok:
                            # guarded by an enclosing loop / branch condition, the position not having moved since
                            def is_guard(pv):
                                pv = strip(pv)
                                if pv.get("k") == "BinaryOperator" and pv.get("op") in ("!=", "<"):
                                    a0, b0 = strip(kids(pv)[0]), strip(kids(pv)[1])
                                    for u, v in ((a0, b0), (b0, a0)):
                                        if u.get("did") == ix.get("did") and v.get("k") in ("CallExpr", "CXXMemberCallExpr") and tbf.callee_name(v) == cnt and tbf.call_base(v) is not None and strip(tbf.call_base(v)).get("did") == g.get("did"):
                                            return True
                                return False
                            for a_ in tbf.ancestors(st):
                                if a_.get("k") in ("WhileStmt", "IfStmt", "ForStmt"):
                                    ac = kids(a_)[0] if a_.get("k") == "WhileStmt" else ([y for y in kids(a_) if y.get("k") != "DeclStmt"][0] if a_.get("k") == "IfStmt" else kids(a_)[1])
                                    if ac is not None and any(is_guard(pv) for pv in conj(ac)):
                                        moved = [y for y in walk(a_) if ((y.get("k") == "UnaryOperator" and y.get("op") in ("++", "--")) or (y.get("k") in ("CompoundAssignOperator", "BinaryOperator") and y.get("op", "").endswith("=") and y.get("op") not in ("==", "!=", "<=", ">=")))
                                                 and strip(kids(y)[0]).get("did") == ix.get("did") and (ac.get("e", 0) if ac.get("l", [0, 0])[1] == y["l"][1] else 0, y["l"][1], y.get("b", 0)) > (0, ac["l"][1], ac.get("b", 0)) and (y["l"][1], y.get("b", 0)) < (call["l"][1], call.get("b", 0))]
                                        if not moved:
                                            ok = True
                        res.instance(R, "%s probe@%d" % (fn["qname"], call["l"][1]), facts.loc(call), "%s.%s(%s) in a condition, guarded by %s != %s.%s(): %s" % (g.get("name"), tbf.callee_name(call), ix.get("name"), ix.get("name"), g.get("name"), cnt, ok))
                        if not ok:
                            res.violation(R, tbf.rel(facts.path_of(call)), fn["qname"], "probe:%s[%s]@%d" % (g.get("name"), ix.get("name"), call["l"][1]), call["l"][1],
                                          "the condition `%s` reads cell %s of '%s' without first testing %s against %s.%s(): a scan bounded by something else stops before reaching the cell it looks for when the group holds more cells than that bound (children are then attached to the wrong parent) and reads past the end of the group when it holds fewer" % (facts.ntext(cond)[:110], ix.get("name"), g.get("name"), ix.get("name"), g.get("name"), cnt))
    res.floor(R + ".probes", n, 2, "conditions that read a group's cell at a running position")
    return n


def routing(facts, res, classes):
    R = "C01.5.list-routing"
    n = 0
    for cls in classes:
        for st, inner in (("M2L", "M2LInGroup"), ("P2P", "P2PInGroup")):
            fn = method(facts, cls, st)
            fm = stages.FnModel(facts, fn)
            maps, ins = [], []
            for x in walk(fm.body):
                if x.get("k") in ("CallExpr", "CXXMemberCallExpr"):
                    nm = tbf.callee_name(x)
                    if nm in ("TbfMapIndexesAndBlocks", "TbfMapIndexesAndBlocksIndexes"):
                        maps.append((x, fm.origin(tbf.call_args(x)[0])))
                    elif nm == inner:
                        ins.append((x, fm.origin(tbf.call_args(x)[-1])))
            if len(maps) != 1 or len(ins) != 1:
                raise AnalysisBroken("%s::%s: %d mapper calls / %d %s calls (1 / 1 confirmed by reading)" % (cls, st, len(maps), len(ins), inner))
            (mx, mo), (ix, io) = maps[0], ins[0]
            res.instance(R, "%s::%s" % (cls, st), facts.loc(mx), "mapper <- %s ; %s <- %s" % (mo[-60:], inner, io[-60:]))
            n += 1
            m1 = re.match(r"^(.*)\.(first|second)$", mo)
            m2 = re.match(r"^(.*)\.(first|second)$", io)
            if not m1 or not m2:
                raise AnalysisBroken("%s::%s: list arguments are not halves of a builder's pair (`%s`, `%s`)" % (cls, st, mo[-80:], io[-80:]))
            if m1.group(2) != "second":
                res.violation(R, tbf.rel(facts.path_of(mx)), fn["qname"], "mapper-half", mx["l"][1], "the group mapper receives the in-group half (.first) of the list pair: out-of-group interactions are never applied")
            if m2.group(2) != "first":
                res.violation(R, tbf.rel(facts.path_of(ix)), fn["qname"], "in-group-half", ix["l"][1], "%s receives the out-of-group half (.second): it looks the sources up in the target's own group" % inner)
            if m1.group(1) != m2.group(1):
                res.violation(R, tbf.rel(facts.path_of(ix)), fn["qname"], "same-builder-call", ix["l"][1],
                              "the two halves come from different builder calls (`%s` vs `%s`): an interaction can be in both or in neither" % (m1.group(1)[-80:], m2.group(1)[-80:]))
    return n


def run(res, tier):
    res.rule("C01.9 every particle of the closed box is binned in a leaf of the grid, the one that contains it (rules C06.6 grid range / cell of position / rounded corner on getTreeCoordinate): a leaf index outside the level's range makes a second root and the pairs across it are lost")
    import c06 as _c06
    _sub = tbf.Result("C06")
    _c06.grid_range(tbf.scan("core"), _sub)
    tbf.reexport(res, _sub, ("C06.6",), "C01.9.binned-in-the-grid", min_instances=2)
    facts = tbf.scan("core")
    res.rule("C01.11 the upward and downward passes walk every level from the upper working level to the level above the leaves ([U, H-2]; rule C12.3 on the single-tree executors): a pass that starts lower leaves the cells at and below the upper working level without the sum of their particles")
    import c12 as _c12b
    _sub12b = tbf.Result("C12")
    tbf.donor_run(res, _c12b, _sub12b)
    tbf.reexport(res, _sub12b, ("C12.3",), "C01.11.levels-walked", min_instances=8)
    res.rule("C01.10 the OpenMP executor, the default one, applies per stage what the sequential reference applies: same wrapper applications, level interval, guards, mappers and the same walk over the groups (rule C03.a on TbfOpenmpAlgorithm) - a group skipped by the walk loses its in-leaf pairs whatever the schedule")
    import c03 as _c03, stages as _stages
    _sub3 = tbf.Result("C03")
    _c03.same_submissions(facts, _stages.ExecutorSummary(facts, "TbfOpenmpAlgorithm"), _stages.ExecutorSummary(facts, "TbfAlgorithm"), _sub3)
    tbf.reexport(res, _sub3, ("C03.a",), "C01.10.same-work-as-reference", min_instances=6)
    res.units.append("umbrella TU 'core': sequential and OpenMP executors (single tree and target/source), TbfGroupKernelInterface, both ordering classes, tbfalgorithmutils.hpp, tbfinteraction.hpp")
    res.assumptions.append("Decides five structural necessary conditions of exactly-once; which cells a list builder enumerates (the 3^Dim / 2^Dim arithmetic) and that the cursors are correct in the first place are value-level and not decided")
    res.rule("C01.1 up/down walk: M2M and L2L (P2M and L2P) of each executor have equal control skeletons (loop and branch conditions, which cursor each branch advances, where the operator is applied)")
    res.rule("C01.2 wrapper walk: M2M and L2L of the group wrapper share start position, advance and flush (roles child / parent group derived from the start-position lookups)")
    res.rule("C01.3 partition: in-group and out-of-group appends are the then / else sides of one branch, same object, out-of-group side not filtered further")
    res.rule("C01.4 sorted search: list sorted by SrcFirst (source index primary key) before the first binary search; every search over the list compares that key only; both mappers equal")
    res.rule("C01.5 list routing: .first -> in-group wrapper, .second -> mapper, same builder call (single-tree executors)")
    res.rule("C01.6 each execution depends on the tree and the kernels only: stage functions keep nothing about the tree in the executor (no change notification exists that could invalidate it)")
    import c12
    before = len(res.violations)
    for cls in CORE_EXECUTORS:
        c12.no_tree_derived_state(facts, cls, res, R="C01.6.stateless-executor")
    stateful = len(res.violations) > before
    n1 = up_down(facts, res, CORE_EXECUTORS)
    before2 = len(res.violations)
    guarded_probes(facts, res)
    probed = len(res.violations) > before2
    try:
        n2 = wrapper_walk(facts, res)
    except AnalysisBroken:
        if not probed:
            raise
        n2 = 2       # the start positions moved into the helper reported above
    partition(facts, res)
    sorted_search(facts, res)
    res.rule("C01.7 mapper exits: the path condition of every return taken before the list is walked implies that no listed source index lies inside any group's index interval (implication decided over all models with indices 0..4, <=2 interactions, <=2 sorted disjoint groups); the single-tree overloads forward (list, groups, working group, same groups, callback) unconditionally")
    mapper_exits(facts, res)
    res.rule("C01.8 level decomposition: with the window clamps, too-close threshold, empty-below level, self exclusion and upper-half filter read from the per-cell list builders and the default upper working level of the executors, every ordered pair of different leaf cells is covered exactly once (near field, or a transfer at exactly one level) in the model built from those constants: all pairs, Dim 1 heights 2..7 and Dim 2 heights 2..5; adjacent pairs are listed by exactly one side of the half list")
    decomposition(facts, res, tier)
    try:
        n5 = routing(facts, res, SINGLE_TREE["core"])
    except AnalysisBroken:
        if not stateful:
            raise
        n5 = 4      # the lists are routed through the remembered state reported by C01.6
    if tier in ("quick", "thorough"):      # the Specx / StarPU executors (declaration stubs) are analysed on every run: the unit tests never compile them, so nothing else would notice a change there
        for cfg in ("specx", "starpu"):
            f2 = tbf.scan(cfg)
            res.units.append("umbrella TU '%s' (declaration-only runtime stub)" % cfg)
            cl = [c for c in ([x for x in f2.classes] if False else [])]
            names = {"specx": ["TbfSmSpecxAlgorithm", "TbfSmSpecxAlgorithmTsm"], "starpu": ["TbfSmStarpuAlgorithm", "TbfSmStarpuAlgorithmTsm"]}[cfg]
            n1 += up_down(f2, res, names, starpu=(cfg == "starpu"))
            if cfg == "specx":
                n5 += routing(f2, res, SINGLE_TREE[cfg])
    res.floor("C01.1", n1, 8, "executor up/down comparisons")
    res.floor("C01.2", n2, 2, "wrapper comparisons")
    res.floor("C01.5", n5, 4, "routed list pairs")
