"""Early exits of the group mappers (TbfMapIndexesAndBlocks / TbfMapIndexesAndBlocksIndexes), decided as an implication over integers.

An exit taken before the list is walked drops every interaction of the list.  That is right exactly when no interaction's source index lies
inside the [starting index, ending index] interval of any group.  The exit's path condition is translated from the syntax tree into a
predicate over (list of source indices, sorted disjoint group intervals) and the implication `path condition => no index in any interval`
is decided by enumerating every model with indices in 0..4, at most 2 interactions and at most 2 groups.  The guards only compare indices
and interval bounds (order comparisons, equalities, sizes, min / max), so a counter-model, if one exists, exists within that bound:
a violating model needs one interaction, one group and their relative order only.  A guard the translation does not cover is exit 2."""
import itertools

import tbf
from tbf import walk, kids, strip, AnalysisBroken

DOM = range(5)


class Undefined(Exception):
    pass


def models():
    idxs = [()] + [(a,) for a in DOM] + [(a, b) for a in DOM for b in DOM]
    grps = [()] + [((s, e),) for s in DOM for e in DOM if s <= e] + \
           [((s1, e1), (s2, e2)) for s1 in DOM for e1 in DOM for s2 in DOM for e2 in DOM if s1 <= e1 < s2 <= e2]
    return [(i, g) for i in idxs for g in grps]


class Guard:
    def __init__(self, facts, fn, idx_did, grp_did):
        self.facts, self.fn, self.idx, self.grp = facts, fn, idx_did, grp_did
        self.decls = {v["did"]: v for v in walk(tbf.body(fn)) if v.get("k") == "VarDecl" and "did" in v}
        self.bind = {}

    def bad(self, n, why=""):
        raise AnalysisBroken("%s: exit guard not decidable by the mapper-exit rule (%s): `%s`" % (self.fn["qname"], why or n.get("k"), self.facts.ntext(n)[:100]))

    def key_lambda(self, lam):
        """the comparator must order by the source index: a.indexSrc < b.indexSrc"""
        ms = [y for y in walk(lam) if y.get("k") in ("MemberExpr", "CXXDependentScopeMemberExpr")]
        ops = [y for y in walk(lam) if y.get("k") == "BinaryOperator"]
        return len(ms) == 2 and all(m.get("name") == "indexSrc" for m in ms) and len(ops) == 1 and ops[0].get("op") == "<"

    def ev(self, n, M):
        I, G = M
        n = strip(n)
        k = n.get("k")
        if k == "IntegerLiteral":
            return int(n["val"])
        if k == "CXXBoolLiteralExpr":
            return bool(n.get("val"))
        if k in ("ParenExpr", "ImplicitCastExpr", "CXXStaticCastExpr", "CStyleCastExpr", "CXXFunctionalCastExpr", "MaterializeTemporaryExpr", "ExprWithCleanups"):
            return self.ev(kids(n)[-1], M)
        if k == "DeclRefExpr":
            d = n.get("did")
            if d in self.bind:
                return self.bind[d]
            if d == self.idx:
                return ("IDX",)
            if d == self.grp:
                return ("GRP",)
            v = self.decls.get(d)
            if v is not None and kids(v):
                return self.ev(kids(v)[0], M)
            self.bad(n, "free variable")
        if k == "UnaryOperator":
            op = n.get("op")
            a = self.ev(kids(n)[0], M)
            if op == "!":
                return not a
            if op == "*":
                if isinstance(a, tuple) and a[0] == "IT":
                    if a[1] is None:
                        raise Undefined("dereferences end() of an empty range")
                    return a[1]
                self.bad(n, "dereference")
            self.bad(n, "unary " + str(op))
        if k == "BinaryOperator":
            op = n.get("op")
            if op == "&&":
                return bool(self.ev(kids(n)[0], M)) and bool(self.ev(kids(n)[1], M))
            if op == "||":
                return bool(self.ev(kids(n)[0], M)) or bool(self.ev(kids(n)[1], M))
            a, b = self.ev(kids(n)[0], M), self.ev(kids(n)[1], M)
            if (isinstance(a, tuple) and a and a[0] == "OTHERKEY") or (isinstance(b, tuple) and b and b[0] == "OTHERKEY"):
                return ("OTHERCMP",)        # a comparison on another key than the source index: never the required predicate
            if isinstance(a, tuple) or isinstance(b, tuple):
                self.bad(n, "comparison of non-integers")
            if op in ("<", "<=", ">", ">=", "==", "!="):
                return {"<": a < b, "<=": a <= b, ">": a > b, ">=": a >= b, "==": a == b, "!=": a != b}[op]
            if op in ("+", "-"):
                return a + b if op == "+" else a - b
            self.bad(n, "operator " + str(op))
        if k in ("MemberExpr", "CXXDependentScopeMemberExpr"):
            nm = n.get("name")
            a = self.ev(kids(n)[0], M)
            if nm == "indexSrc" and isinstance(a, tuple) and a[0] == "ELEM":
                return a[1]
            if nm in ("indexTarget", "globalTargetPos") and isinstance(a, tuple) and a[0] == "ELEM":
                return ("OTHERKEY", nm)
            if nm in ("first", "second") and isinstance(a, tuple) and a[0] == "MINMAX":
                return ("IT", a[1] if nm == "first" else a[2])
            self.bad(n, "member " + str(nm))
        if k in ("CallExpr", "CXXMemberCallExpr", "CXXOperatorCallExpr"):
            nm = tbf.callee_name(n)
            args = tbf.call_args(n)
            base = tbf.call_base(n)
            if nm in ("size", "ssize") and len(args) == 1 and base is None:
                a = self.ev(args[0], M)
                return len(I) if a == ("IDX",) else len(G) if a == ("GRP",) else self.bad(n, "size of")
            if nm in ("size", "empty") and base is not None and not args:
                a = self.ev(base, M)
                ln = len(I) if a == ("IDX",) else len(G) if a == ("GRP",) else self.bad(n, "size of")
                return ln if nm == "size" else ln == 0
            if nm in ("minmax_element", "min_element", "max_element") and len(args) == 3:
                rng = [self.ev(strip(tbf.call_args(strip(x))[0]) if strip(x).get("k") in ("CallExpr", "CXXMemberCallExpr") and tbf.callee_name(strip(x)) in ("begin", "end", "cbegin", "cend") and tbf.call_args(strip(x)) else tbf.call_base(strip(x)), M) for x in args[:2]]
                lam = strip(args[2])
                if rng != [("IDX",), ("IDX",)] or lam.get("k") != "LambdaExpr" or not self.key_lambda(lam):
                    self.bad(n, "range / comparator of " + nm)
                lo = ("ELEM", min(I)) if I else None
                hi = ("ELEM", max(I)) if I else None
                return ("MINMAX", lo, hi) if nm == "minmax_element" else ("IT", lo if nm == "min_element" else hi)
            if nm in ("front", "back") and base is not None:
                a = self.ev(base, M)
                seq = G if a == ("GRP",) else I if a == ("IDX",) else self.bad(n, "front/back of")
                if not seq:
                    raise Undefined("front()/back() of an empty container")
                x = seq[0] if nm == "front" else seq[-1]
                return ("GROUP", x) if a == ("GRP",) else ("ELEM", x)
            if nm in ("getStartingSpacialIndex", "getEndingSpacialIndex") and base is not None:
                a = self.ev(base, M)
                if isinstance(a, tuple) and a[0] == "GROUP":
                    return a[1][0] if nm == "getStartingSpacialIndex" else a[1][1]
                self.bad(n, "bound of a non-group")
            if nm == "operator[]" or n.get("op") == "[]":
                a = self.ev(args[0], M)
                i = self.ev(args[1], M)
                seq = G if a == ("GRP",) else I if a == ("IDX",) else self.bad(n, "subscript of")
                if not isinstance(i, int) or not 0 <= i < len(seq):
                    raise Undefined("subscript outside the container")
                return ("GROUP", seq[i]) if a == ("GRP",) else ("ELEM", seq[i])
            self.bad(n, "call " + str(nm))
        if k == "ArraySubscriptExpr":
            a = self.ev(kids(n)[0], M)
            i = self.ev(kids(n)[1], M)
            seq = G if a == ("GRP",) else I if a == ("IDX",) else self.bad(n, "subscript of")
            if not isinstance(i, int) or not 0 <= i < len(seq):
                raise Undefined("subscript outside the container")
            return ("GROUP", seq[i]) if a == ("GRP",) else ("ELEM", seq[i])
        self.bad(n)


def exits_before(fn, stop):
    """(return statement, [(condition node, polarity)]) for every return that can execute before `stop` (a node of the body), loops excluded"""
    out = []

    def rec(s, pc):
        if s is stop or any(x is stop for x in walk(s)) and s.get("k") not in ("CompoundStmt", "IfStmt"):
            return False
        k = s.get("k")
        if k == "ReturnStmt":
            out.append((s, list(pc)))
            return True
        if k == "CompoundStmt":
            for c in kids(s):
                if c is stop:
                    return False
                if rec(c, pc) is False:
                    return False
            return True
        if k == "IfStmt":
            c = kids(s)
            cond = c[0] if c[0].get("k") != "DeclStmt" else c[1]
            branches = [x for x in c if x is not cond and x.get("k") != "DeclStmt"]
            go = True
            if branches:
                if rec(branches[0], pc + [(cond, True)]) is False:
                    go = False
            if len(branches) > 1:
                if rec(branches[1], pc + [(cond, False)]) is False:
                    go = False
            return go
        if k in ("ForStmt", "WhileStmt", "DoStmt", "CXXForRangeStmt"):
            if any(x.get("k") == "ReturnStmt" for x in walk(s)):
                raise AnalysisBroken("%s: return inside a loop before the list is walked" % fn["qname"])
        return True
    rec(tbf.body(fn), [])
    return out


def decide(facts, fn, res, R, idx_did, grp_did, stop):
    g = Guard(facts, fn, idx_did, grp_did)
    n = 0
    for ret, pc in exits_before(fn, stop):
        n += 1
        txt = " && ".join(("" if pol else "!") + "(" + facts.ntext(c)[:90] + ")" for c, pol in pc) or "true"
        cm = None
        for M in models():
            try:
                taken = all(bool(g.ev(c, M)) == pol for c, pol in pc)
            except Undefined as e:
                cm = (M, "evaluating the guard %s" % e)
                break
            if taken and any(s <= i <= e for i in M[0] for (s, e) in M[1]):
                cm = (M, "the exit is taken although source index %s lies in a group's interval" % [i for i in M[0] if any(s <= i <= e for (s, e) in M[1])][0])
                break
        res.instance(R, "%s exit@%d" % (fn["qname"], ret["l"][1]), facts.loc(ret), "guard %s => no listed source index inside any group interval: %s (models: indices 0..4, <=2 interactions, <=2 groups)" % (txt, "holds" if cm is None else "fails"))
        if cm is not None:
            res.violation(R, tbf.rel(facts.path_of(ret)), fn["qname"], "unsafe-exit@%d" % ret["l"][1] if False else "unsafe-exit:" + txt[:70], ret["l"][1],
                          "the mapper returns under `%s` before walking the list; counter-model: source indices %s, group intervals %s: %s - those interactions are never handed to the between-group operator, in one direction only"
                          % (txt, list(cm[0][0]), list(cm[0][1]), cm[1]))
    return n


def lambda_table(facts, fn, lam, x_values, y_values, idx_did, grp_did):
    """truth table of a two-parameter comparator lambda whose body is a single return"""
    rets = [r for r in walk(lam) if r.get("k") == "ReturnStmt"]
    ps = lam.get("params", [])
    if len(rets) != 1 or len(ps) != 2 or not kids(rets[0]):
        raise AnalysisBroken("%s: comparator at line %d is not a two-parameter single-return lambda" % (fn["qname"], lam["l"][1]))
    g = Guard(facts, fn, idx_did, grp_did)
    out = {}
    for x in x_values:
        for y in y_values:
            g.bind = {ps[0]["did"]: x, ps[1]["did"]: y}
            v = g.ev(kids(rets[0])[0], ((), ()))
            out[(x, y)] = None if isinstance(v, tuple) else bool(v)
    return out
