"""C12 — operator flags compose: staged runs equal a full run, write only their outputs.

Decided (all structural, all executors):
 1 flag->stage map: each guarded stage call is guarded by exactly `flags & Tbf<Stage>`, every
   enumerator guards exactly its stage, no stage call is unguarded; enumerators are distinct powers
   of two and the composite masks are the documented unions
 2 order: the guarded calls are a linear extension of P2M < M2M < M2L < L2L < L2P (P2P free)
 3 upper working level: level loops normalise to [U, H-2] (M2M, L2L) and [U, H-1] (M2L);
   P2M / L2P guarded by H > U; U = max(0, constructor argument)
 4 write sets: stage X hands as mutable only X's output block (P2P: particle results, no cell block)
"""
import re

import sympy

import tbf
import stages
import effects
from stages import H, U
from tbf import walk, kids, strip, AnalysisBroken

LEVEL = "other"
TECHNIQUE = "flag/stage/level-interval/write-set summaries from the clang AST, sympy interval normal forms, executor-state provenance (members vs locals, head-of-stage resets)"

FULL = ["TbfAlgorithm", "TbfAlgorithmTsm", "TbfOpenmpAlgorithm", "TbfOpenmpAlgorithmTsm"]
TOPTREE = ["TbfAlgorithmPeriodicTopTree", "TbfAlgorithmPeriodicTopTreeTsm"]
SPECX = ["TbfSmSpecxAlgorithm", "TbfSmSpecxAlgorithmTsm"]
STARPU = ["TbfSmStarpuAlgorithm", "TbfSmStarpuAlgorithmTsm"]
ORDER = ["P2M", "M2M", "M2L", "L2L", "L2P"]
EXPECT_INTERVAL = {"M2M": (U, H - 2), "L2L": (U, H - 2), "M2L": (U, H - 1)}
# stage -> memory blocks it may write (role table, README "Algorithms": outputs of each operator)
EXPECT_WRITES = {"P2M": {"objectMultipole"}, "M2M": {"objectMultipole"}, "M2L": {"objectLocal"}, "L2L": {"objectLocal"},
                 "L2P": {"objectRhs"}, "P2P": {"objectRhs"}}
COMPOSITES = {
    "TbfNearField": ["TbfP2P"], "TbfFarField": ["TbfP2M", "TbfM2M", "TbfM2L", "TbfL2L", "TbfL2P"],
    "TbfNearAndFarFields": ["TbfP2P", "TbfP2M", "TbfM2M", "TbfM2L", "TbfL2L", "TbfL2P"],
    "TbfBottomToTopStages": ["TbfP2M", "TbfM2M"], "TbfTopToBottomStages": ["TbfL2L", "TbfL2P"], "TbfTransferStages": ["TbfM2L", "TbfP2P"],
}


def check_enum(facts, res):
    en = [e for e in facts.enums if e["name"] == "TbfOperations"]
    if len(en) != 1:
        raise AnalysisBroken("enum TbfAlgorithmUtils::TbfOperations not found")
    vals = {x["name"]: x["val"] for x in en[0]["enumerators"]}
    where = facts.loc(en[0])
    f = tbf.rel(facts.path_of(en[0]))
    basics = stages.FLAG_NAMES
    for b in basics:
        if b not in vals:
            raise AnalysisBroken("enumerator %s vanished" % b)
        v = vals[b]
        res.instance("C12.1.enum", b, where, "value %d" % v)
        if v <= 0 or v & (v - 1):
            res.violation("C12.1.enum", f, "TbfOperations", b, en[0]["l"][1], "flag %s = %d is not a single bit" % (b, v))
    if len(set(vals[b] for b in basics)) != len(basics):
        res.violation("C12.1.enum", f, "TbfOperations", "distinct", en[0]["l"][1], "two operator flags share a bit: %s" % {b: vals[b] for b in basics})
    for c, parts in COMPOSITES.items():
        if c not in vals:
            raise AnalysisBroken("composite mask %s vanished" % c)
        want = 0
        for p in parts:
            want |= vals[p]
        res.instance("C12.1.enum", c, where, "value %d = union of %s" % (vals[c], parts))
        if vals[c] != want:
            res.violation("C12.1.enum", f, "TbfOperations", c, en[0]["l"][1], "composite mask %s = %d is not the union of %s (= %d)" % (c, vals[c], parts, want))
    return vals


def clamp_form(facts, n, env, depth):
    """normal form of the expression initialising the upper working level; helper functions defined in
    the library are inlined (one return statement), so `max(0, x)` behind a wrapper is still recognised
    and `max(0, min(x, H-1))` is not mistaken for it"""
    n = strip(n)
    if depth > 6 or n is None:
        return "?"
    k = n.get("k")
    if k == "IntegerLiteral":
        return str(n["val"])
    if k == "DeclRefExpr":
        return env.get(n.get("did"), n.get("name", "?"))
    if k in ("CXXStaticCastExpr", "CStyleCastExpr", "CXXFunctionalCastExpr", "CXXUnresolvedConstructExpr", "CXXConstructExpr", "InitListExpr", "ParenListExpr") and len(kids(n)) == 1:
        return clamp_form(facts, kids(n)[0], env, depth + 1)
    if k == "BinaryOperator":
        a, b = [clamp_form(facts, c, env, depth + 1) for c in kids(n)]
        return "(%s%s%s)" % (a, n.get("op"), b)
    if k in ("CallExpr", "CXXMemberCallExpr"):
        nm = tbf.callee_name(n)
        args = [clamp_form(facts, a, env, depth + 1) for a in tbf.call_args(n)]
        if nm in ("max", "min") and len(args) == 2:
            return "%s(%s)" % (nm, ",".join(sorted(args)))
        if nm == "getTreeHeight":
            return "H"
        cands = [g for g in facts.functions if g["name"] == nm and not g.get("inst") and len(g["params"]) == len(args) and tbf.body(g) is not None]
        if len(cands) == 1:
            g = cands[0]
            rets = [r for r in walk(tbf.body(g)) if r.get("k") == "ReturnStmt" and kids(r)]
            if len(rets) == 1 and len(kids(tbf.body(g))) == 1:
                env2 = {p["did"]: a for p, a in zip(g["params"], args)}
                return clamp_form(facts, kids(rets[0])[0], env2, depth + 1)
        return "%s(%s)" % (nm, ",".join(args))
    return "?" + str(k)


def check_executor(facts, cls, res, expected_flags, weff=None, full=True):
    ex = stages.ExecutorSummary(facts, cls)
    f = tbf.rel(facts.path_of(ex.execute))
    fnq = cls + "::execute"
    # 1 flag -> stage
    seen = {}
    for flag, stage, node in ex.guarded:
        res.instance("C12.1.flag-stage", "%s %s->%s" % (cls, flag, stage), facts.loc(node), facts.ntext(strip(node["c"][0])))
        want = stages.STAGE_OF_FLAG.get(flag)
        if flag.startswith("complex:") or want is None:
            res.violation("C12.1.flag-stage", f, fnq, stage, node["l"][1], "stage %s is guarded by '%s', not by exactly `flags & Tbf%s`" % (stage, flag, stage))
        elif want != stage:
            res.violation("C12.1.flag-stage", f, fnq, stage, node["l"][1], "flag %s triggers stage %s" % (flag, stage))
        # the call must be directly under this if (not nested in another flag test)
        outer = [a for a in tbf.ancestors(node) if a.get("k") == "IfStmt" and ex._flags_of_cond(strip(a["c"][0]), ex.exec_model) is not None]
        if outer:
            res.violation("C12.1.flag-stage", f, fnq, stage, node["l"][1], "stage %s additionally depends on another flag test" % stage)
        seen.setdefault(stage, []).append(flag)
    for stage in ex.unguarded:
        res.violation("C12.1.flag-stage", f, fnq, stage, ex.execute["l"][1], "stage %s is called without testing its flag" % stage)
    for flag in expected_flags:
        st = stages.STAGE_OF_FLAG[flag]
        if len(seen.get(st, [])) != 1:
            res.violation("C12.1.flag-stage", f, fnq, st + ":count", ex.execute["l"][1], "stage %s is triggered %d times in execute() (expected once, by %s)" % (st, len(seen.get(st, [])), flag))
    # 2 order
    pos = {}
    for i, (flag, stage, node) in enumerate(ex.guarded):
        pos.setdefault(stage, i)
    seq = [s for s in ORDER if s in pos]
    res.instance("C12.2.order", cls, facts.loc(ex.execute), "order in execute(): %s" % [s for _f, s, _n in ex.guarded])
    for a, b in zip(seq, seq[1:]):
        if pos[a] > pos[b]:
            res.violation("C12.2.order", f, fnq, "%s<%s" % (a, b), ex.execute["l"][1], "stage %s is run before %s: a full run no longer equals the staged run in dependency order" % (b, a))
    if not full:
        return ex
    # 3 level intervals / guards
    for stage, (lo, hi) in EXPECT_INTERVAL.items():
        st = ex.stages.get(stage)
        if st is None:
            continue
        loops = st.level_loops
        if len(loops) != 1:
            raise AnalysisBroken("%s::%s has %d level loops (1 confirmed by reading)" % (cls, stage, len(loops)))
        l = loops[0]
        res.instance("C12.3.level-interval", "%s::%s" % (cls, stage), facts.loc(l["node"]), "[%s, %s] %s" % (l["lo"], l["hi"], l["dir"]))
        if sympy.simplify(l["lo"] - lo) != 0 or sympy.simplify(l["hi"] - hi) != 0:
            res.violation("C12.3.level-interval", tbf.rel(facts.path_of(l["node"])), st.fn["qname"], "interval", l["node"]["l"][1],
                          "level loop covers [%s, %s], expected [%s, %s] (U = upper working level, H = tree height)" % (l["lo"], l["hi"], lo, hi))
        # every wrapper call of the stage is inside the loop and receives the loop variable as level
        for c in st.wrapper_calls:
            if not any(a is l["node"] for a in tbf.ancestors(c["node"])):
                res.violation("C12.3.level-interval", tbf.rel(facts.path_of(c["node"])), st.fn["qname"], c["method"] + ":outside-loop", c["node"]["l"][1],
                              "operator applied outside the level loop bounded by the upper working level")
            elif c["args"] and c["args"][0] != "L":
                res.violation("C12.3.level-interval", tbf.rel(facts.path_of(c["node"])), st.fn["qname"], c["method"] + ":level-arg", c["node"]["l"][1],
                              "level argument is '%s', not the loop level" % c["args"][0])
    for stage in ("P2M", "L2P"):
        st = ex.stages.get(stage)
        if st is None:
            continue
        good = [g for g in st.guards if sympy.simplify(g["expr"] - (H - U)) == 0 and g["op"] == ">"]
        res.instance("C12.3.leaf-guard", "%s::%s" % (cls, stage), facts.loc(st.fn), "guards: %s" % [(str(g["expr"]), g["op"]) for g in st.guards])
        def covered(c):
            for g in good:
                if any(a is g["node"] for a in tbf.ancestors(c["node"])):
                    return True
                if g.get("early"):          # `if(!(H > U)) return;` in front of the call, in a block that encloses it
                    blk = g["node"].get("_p")
                    if blk is not None and any(a is blk for a in tbf.ancestors(c["node"])) and (c["node"]["l"][1], c["node"].get("b", 0)) > (g["node"]["l"][1], g["node"].get("b", 0)):
                        return True
            return False
        bad = not good or any(not covered(c) for c in st.wrapper_calls)
        if bad:
            res.violation("C12.3.leaf-guard", tbf.rel(facts.path_of(st.fn)), st.fn["qname"], "guard", st.fn["l"][1],
                          "leaf-level operator is not guarded by `tree height > upper working level` (found %s)" % [(str(g["expr"]), g["op"]) for g in st.guards])
    # U = max(0, arg) in every constructor
    for m in facts.methods_of(cls):
        if m["kind"] != "CXXConstructor":
            continue
        inits = [i for i in m.get("inits", []) if i.get("member") == "stopUpperLevel"]
        if not inits:
            continue
        txt = tbf.norm("".join(facts.text(c) for c in inits[0]["c"] if c))
        pnames = {p["did"]: "ARG" for p in m["params"] if p["t"].replace("const ", "") in ("long", "int")}
        form = clamp_form(facts, inits[0]["c"][0], pnames, 0)
        ok = form == "max(0,ARG)"
        txt = txt + "  =>  " + form
        res.instance("C12.3.upper-level-clamp", "%s ctor@%d" % (cls, m["l"][1]), facts.loc(m), txt)
        if not ok:
            res.violation("C12.3.upper-level-clamp", tbf.rel(facts.path_of(m)), m["qname"], "stopUpperLevel", m["l"][1],
                          "upper working level is initialised with '%s', not max(0, argument)" % txt)
    # 4 write sets
    if weff is not None:
        for stage, st in ex.stages.items():
            wr = set()
            for c in st.wrapper_calls:
                e = weff.get(c["method"])
                if e is None:
                    raise AnalysisBroken("no effect summary for wrapper method " + c["method"])
                for pe in e["params"]:
                    if pe:
                        wr |= set(fld for fld, mode in pe.items() if mode == "W")
            res.instance("C12.4.write-set", "%s::%s" % (cls, stage), facts.loc(st.fn), "writes %s via %s" % (sorted(wr), sorted(set(c["method"] for c in st.wrapper_calls))))
            if not wr <= EXPECT_WRITES[stage]:
                res.violation("C12.4.write-set", tbf.rel(facts.path_of(st.fn)), st.fn["qname"], "writes", st.fn["l"][1],
                              "stage %s may write %s, its output is %s" % (stage, sorted(wr), sorted(EXPECT_WRITES[stage])))
            if not wr and st.wrapper_calls:
                res.violation("C12.4.write-set", tbf.rel(facts.path_of(st.fn)), st.fn["qname"], "writes-nothing", st.fn["l"][1], "stage %s writes no block" % stage)
    return ex


RESETTERS = {"assign", "clear", "resize", "fill", "swap", "shrink_to_fit", "erase", "pop_back"}


def toptree_state(facts, cls, res):
    """C12.5: the virtual-level expansions a top-tree executor keeps between execute() calls (the members
    it hands to the kernel operators as multipole / local arguments) are written only through the
    operators: nothing else in the class resets, resizes or reassigns them after construction, otherwise
    a staged sequence of execute() calls loses what an earlier stage produced"""
    import coherence
    import effects
    import c02
    R = "C12.5.state-between-stages"
    cmap = effects.container_map(facts)
    state = set()
    viaparam = set()
    local_state = set()
    state_part = {}
    PRODUCER = {"multipole": "M2M", "local": "M2L"}     # the stage that recomputes the virtual-level expansions of that kind from nothing
    head_resets = {}
    fields = {f["name"] for f in facts.cls(cls)["fields"]}
    for fn, sr, call, op, slots in c02.toptree_calls(facts, cls, cmap):
        for (role, part, io), sl in zip(coherence.ROLES[op], slots):
            if part not in ("multipole", "local"):
                continue
            nodes = [sl["node"]] + [e["node"] for e in sl.get("elems", []) if "node" in e]
            for n in nodes:
                for y in walk(n):
                    if y.get("k") == "MemberExpr" and y.get("name") in fields:
                        state.add(y["name"])
                        state_part.setdefault(y["name"], part)
                    pidx = [i for i, p_ in enumerate(fn["params"]) if y.get("k") == "DeclRefExpr" and p_["did"] is not None and p_["did"] == y.get("did")]
                    if pidx:
                        viaparam.add((fn["name"], pidx[0], part))
    # expansions handed to the stage functions as arguments: where do the callers keep them?
    for (fname, idx, part) in sorted(viaparam):
        for m in facts.methods_of(cls):
            b = tbf.body(m)
            if b is None:
                continue
            for x in walk(b):
                if x.get("k") in ("CallExpr", "CXXMemberCallExpr") and tbf.callee_name(x) == fname and tbf.call_base(x) is None or \
                   (x.get("k") == "CXXMemberCallExpr" and tbf.callee_name(x) == fname and strip(tbf.call_base(x)).get("k") == "CXXThisExpr"):
                    args = tbf.call_args(x)
                    if idx >= len(args):
                        continue
                    a = strip(args[idx])
                    if a.get("k") == "MemberExpr" and a.get("name") in fields:
                        state.add(a["name"])
                    elif a.get("k") == "DeclRefExpr" and any(v.get("k") == "VarDecl" and v.get("did") == a.get("did") for v in walk(b)):
                        res.violation(R, tbf.rel(facts.path_of(x)), m["qname"], "local-expansions:%s:%s" % (fname, a.get("name")), x["l"][1],
                                      "the %s expansions of the virtual levels handed to %s() are the local variable '%s' of %s(): they do not survive the call, so a staged sequence of execute() calls (M2M, then M2L, then L2L) transfers and pushes down zeros instead of what the earlier stage produced" % (part, fname, a.get("name"), m["name"]))
                        local_state.add(a.get("name"))
    if local_state and len(state) < 2:
        res.instance(R, cls, "src/algorithms/periodic", "expansions kept in locals: %s" % sorted(local_state))
        return
    if len(state) < 2:
        raise AnalysisBroken("%s: virtual-level expansion members not identified (%s)" % (cls, sorted(state)))
    res.instance(R, cls, "src/algorithms/periodic", "state carried between stages: %s" % sorted(state))
    for m in facts.methods_of(cls):
        if m["kind"] == "CXXConstructor" or tbf.body(m) is None:
            continue
        for x in walk(tbf.body(m)):
            hit = None
            if x.get("k") in ("CallExpr", "CXXMemberCallExpr"):
                base = tbf.call_base(x)
                nm = tbf.callee_name(x)
                if base is not None and strip(base).get("k") == "MemberExpr" and strip(base).get("name") in state and nm in RESETTERS:
                    hit = "%s.%s(...)" % (strip(base)["name"], nm)
                if nm in ("fill", "fill_n", "memset", "swap") and base is None:
                    for a in tbf.call_args(x):
                        if any(y.get("k") == "MemberExpr" and y.get("name") in state for y in walk(a)):
                            hit = "%s(%s...)" % (nm, facts.ntext(a)[:30])
            if x.get("k") in ("BinaryOperator", "CXXOperatorCallExpr") and x.get("op") == "=":
                lhs = strip(kids(x)[0] if x.get("k") == "BinaryOperator" else kids(x)[1])
                root = lhs
                while root.get("k") in ("ArraySubscriptExpr", "CXXOperatorCallExpr") and kids(root):
                    root = strip(kids(root)[0] if root.get("k") == "ArraySubscriptExpr" else kids(root)[1])
                if root.get("k") == "MemberExpr" and root.get("name") in state:
                    hit = facts.ntext(lhs)[:40] + " = ..."
            if hit:
                # the stage that recomputes a kind of expansion from nothing may start by zeroing it: a statement of the stage function's own
                # block, before any kernel call, not under a condition or a loop - a new pass then does not add to the previous one's
                # expansions, and what ANOTHER stage produced is untouched
                member = [nm_ for nm_ in state if nm_ in hit]
                body_m = tbf.body(m)
                tbf.link_parents(body_m)
                top = x
                while top.get("_p") is not None and top.get("_p") is not body_m:
                    top = top["_p"]
                kcalls_ = [c_ for c_ in walk(body_m) if c_.get("k") in ("CallExpr", "CXXMemberCallExpr") and tbf.call_base(c_) is not None
                           and strip(tbf.call_base(c_)).get("k") == "MemberExpr" and strip(tbf.call_base(c_)).get("name") == "kernel"]
                if len(member) == 1 and PRODUCER.get(state_part.get(member[0])) == m["name"] and top.get("_p") is body_m \
                        and top.get("k") not in ("IfStmt", "ForStmt", "WhileStmt", "DoStmt", "CXXForRangeStmt", "SwitchStmt") \
                        and kcalls_ and all(x["b"] < c_["b"] for c_ in kcalls_) and not re.search(r"\.(clear|pop_back|erase|shrink_to_fit|swap)\(", hit):
                    head_resets[member[0]] = x
                    res.instance(R, "%s::%s resets %s" % (cls, m["name"], member[0]), facts.loc(x), "at the head of the stage that recomputes it (%s), before any operator call" % hit)
                    continue
                res.violation(R, tbf.rel(facts.path_of(x)), m["qname"], "%s@%d" % (hit, x["l"][1]), x["l"][1],
                              "%s resets the virtual-level expansions (%s) outside the operators: what an earlier execute() stage produced is lost, so staged calls no longer equal a full run" % (m["name"], hit))

    if not hasattr(toptree_state, "last"):
        toptree_state.last = {}
    toptree_state.last[cls] = (state_part, head_resets, PRODUCER)

def toptree_fresh_pass(facts, cls, res, R="C13.7.executor-expansions-reset"):
    """the expansions of the virtual levels are cell expansions too, kept by the top-tree executor: a new pass (after the tree was rebuilt,
    which zeroes every cell of the tree) must not add to the previous pass's values.  Each kind is zeroed at the head of the stage that
    recomputes it from nothing (multipoles: M2M, locals: M2L); otherwise the second move / rebuild / execute cycle with the same
    executor object counts the far images of the first cycle again."""
    sub = tbf.Result("C12")
    toptree_state(facts, cls, sub)
    info = getattr(toptree_state, "last", {}).get(cls)
    if not info:
        if sub.violations:
            res.instance(R, cls, "src/algorithms/periodic", "the expansions are not members (reported by C12.5): nothing to reset")
            return 0
        raise AnalysisBroken("%s: state of the top-tree executor not available" % cls)
    state_part, head_resets, PRODUCER = info
    ftypes = {f_["name"]: f_.get("t", "") for f_ in facts.cls(cls)["fields"]}
    state_part = {k_: v_ for k_, v_ in state_part.items() if re.search(r"vector<|Cell(Multipole|Local)", ftypes.get(k_, ""))}
    if len(state_part) < 2:
        raise AnalysisBroken("%s: %d containers of virtual-level expansions identified (2 confirmed by reading)" % (cls, len(state_part)))
    for member, part in sorted(state_part.items()):
        st = PRODUCER.get(part)
        fn = [m for m in facts.methods_of(cls) if m["name"] == st and tbf.body(m) is not None]
        res.instance(R, "%s.%s" % (cls, member), facts.loc(fn[0]) if fn else "src/algorithms/periodic", "%s expansions of the virtual levels; zeroed at the head of %s: %s" % (part, st, member in head_resets))
        if member not in head_resets:
            res.violation(R, tbf.rel(facts.path_of(fn[0])) if fn else "src/algorithms/periodic", "%s::%s" % (cls, st), "never-reset:%s:%s" % (cls, member), fn[0]["l"][1] if fn else 1,
                          "the %s expansions of the virtual levels ('%s') are sized once in the constructor and only ever added to: %s() does not zero them before recomputing them, and nothing else can (no reset is offered) - "
                          "the second move / rebuild / execute cycle run with the same top-tree object adds the far images of the first cycle again (rebuild() zeroes the cells of the tree, not these)" % (part, member, st))
    return len(state_part)


def tree_touched_only_through_groups(facts, cls, res):
    """C12.5 for the tree executors: execute() and the stage functions reach the tree only through its
    group accessors (the wrapper then applies the operators); they never visit / reset / rebuild it"""
    R = "C12.5.state-between-stages"
    n = 0
    for m in facts.methods_of(cls):
        b = tbf.body(m)
        if b is None:
            continue
        tparams = [p["did"] for p in m["params"] if "TreeClass" in p["t"]]
        if not tparams:
            continue
        for x in walk(b):
            if x.get("k") in ("CallExpr", "CXXMemberCallExpr"):
                base = tbf.call_base(x)
                if base is not None and strip(base).get("did") in tparams:
                    nm = tbf.callee_name(x) or ""
                    n += 1
                    if not re.match(r"^get[A-Z]\w*$", nm):
                        res.violation(R, tbf.rel(facts.path_of(x)), m["qname"], "tree.%s@%d" % (nm, x["l"][1]), x["l"][1],
                                      "the executor calls %s() on the tree: outside the operators it may only fetch groups; visiting or resetting the tree between stages breaks the staged = full equivalence" % nm)
    res.instance(R, cls, "src/algorithms", "%d calls on the tree parameter, all group accessors" % n)
    if n < 6:
        raise AnalysisBroken("%s: only %d calls on the tree parameter recognised" % (cls, n))


def no_tree_derived_state(facts, cls, res, R="C12.5.state-between-stages"):
    """C12.5 for the tree executors, second half: a stage function writes no data member of the executor other than the kernel
    object(s).  The tree offers no change notification, so anything an executor remembers about the tree from one execute() to
    the next (interaction lists, group positions, counts) cannot be invalidated when rebuild() or another tree changes the
    cells behind the same group positions: a later execution would replay it against other cells."""
    fields = {f["name"]: f for f in facts.cls(cls)["fields"]}
    kernel_members = {n for n, f in fields.items() if "KernelClass" in f.get("t", "") or "kernel" in f.get("t", "").lower()}
    n = 0
    helpers = {}
    for m in facts.methods_of(cls):
        if tbf.body(m) is not None:
            helpers.setdefault(m["name"], []).append(m)
    for m in facts.methods_of(cls):
        b = tbf.body(m)
        if b is None or m["kind"] in ("CXXConstructor", "CXXDestructor"):
            continue
        if not any("TreeClass" in p["t"] for p in m["params"]):
            continue
        n += 1

        def member_of(nd):
            nd = strip(nd)
            while nd is not None and nd.get("k") in ("ArraySubscriptExpr", "CXXOperatorCallExpr") and len(kids(nd)) >= 2:
                nd = strip(kids(nd)[-2])
            if nd is not None and nd.get("k") in ("MemberExpr", "CXXDependentScopeMemberExpr") and nd.get("name") in fields and (not kids(nd) or strip(kids(nd)[0]).get("k") == "CXXThisExpr"):
                return nd["name"]
            return None
        for x in walk(b):
            hit = None
            if x.get("k") in ("BinaryOperator", "CompoundAssignOperator", "CXXOperatorCallExpr") and x.get("op", "").endswith("=") and x.get("op") not in ("==", "!=", "<=", ">="):
                mm = member_of(kids(x)[0] if x.get("k") != "CXXOperatorCallExpr" else kids(x)[1])
                if mm:
                    hit = (mm, "assigned")
            if x.get("k") in ("CallExpr", "CXXMemberCallExpr"):
                base = tbf.call_base(x)
                nm = tbf.callee_name(x)
                if base is not None and member_of(base) and nm in RESETTERS | {"emplace_back", "push_back", "insert", "reserve", "emplace"}:
                    hit = (member_of(base), "modified by .%s()" % nm)
                if base is None or strip(base).get("k") == "CXXThisExpr":
                    for g in helpers.get(nm, []):
                        for p_, a in zip(g["params"], tbf.call_args(x)):
                            if member_of(a) and p_["t"].rstrip().endswith("&") and not p_["t"].lstrip().startswith("const "):
                                hit = (member_of(a), "handed as a mutable reference to %s()" % nm)
            if hit and hit[0] not in kernel_members:
                res.violation(R, tbf.rel(facts.path_of(x)), m["qname"], "executor-state:%s" % hit[0], x["l"][1],
                              "stage function %s keeps state in the executor: member '%s' is %s. The tree gives no change notification, so what is remembered about it survives rebuild() / a second tree "
                              "and a later execute() replays it against other cells; every execution must depend on the tree and the kernels only" % (m["name"], hit[0], hit[1]))
    res.instance(R, cls + " members", "src/algorithms", "%d stage functions write no member other than the kernel object(s) %s" % (n, sorted(kernel_members)))
    if n < 6:
        raise AnalysisBroken("%s: only %d stage functions with a tree parameter" % (cls, n))


def run(res, tier):
    facts = tbf.scan("core")
    res.units.append("umbrella TU 'core' (%d headers, %d function patterns)" % (len(facts.headers), len(facts.functions)))
    res.rule("C12.1 each stage call in execute() is guarded by exactly `flags & Tbf<Stage>`; flags are distinct single bits; composite masks are the documented unions")
    res.rule("C12.2 guarded calls appear in an order extending P2M<M2M<M2L<L2L<L2P")
    res.rule("C12.3 level loops normalise (sympy) to [U,H-2] for M2M/L2L and [U,H-1] for M2L; P2M/L2P guarded by H>U; U=max(0,arg)")
    res.rule("C12.4 the wrapper calls of stage X hand as mutable only X's output block")
    check_enum(facts, res)
    cmap = effects.container_map(facts)
    weff = effects.wrapper_effects(facts, cmap)
    nguard = 0
    for cls in FULL:
        ex = check_executor(facts, cls, res, stages.FLAG_NAMES, weff)
        nguard += len(ex.guarded) + len(ex.unguarded)
        tree_touched_only_through_groups(facts, cls, res)
        no_tree_derived_state(facts, cls, res)
    res.rule("C12.5 the top-tree executors' virtual-level expansions (state between execute() calls) are modified only through the kernel operators")
    for cls in TOPTREE:
        ex = check_executor(facts, cls, res, ["TbfM2M", "TbfM2L", "TbfL2L"], None, full=False)
        nguard += len(ex.guarded) + len(ex.unguarded)
        toptree_state(facts, cls, res)
    res.floor("C12.1", nguard, 30, "guarded stage calls")
    # a staged run is ordered by the barrier that ends each execute(); a call that carries several flags is ordered only by the
    # dependencies of its tasks: they must cover what the tasks read and write, or "several flags in one call" differs from "one flag per call"
    res.rule("C12.6 several flags in one call = one flag per call: in the OpenMP and Specx executors every task declares a dependency on every block it reads or writes that some task writes (rule C03.b, same engine)")
    import c03
    import taskdeps
    n6 = 0
    for unit, pairs in (("core", c03.PAIRS), ("specx", c03.SPECX_PAIRS)):
        f6 = tbf.scan(unit)
        cmap = effects.container_map(f6)
        weff = effects.wrapper_effects(f6, cmap)
        sub = tbf.Result("C03")
        for cls6, _ref in pairs:
            ex6 = stages.ExecutorSummary(f6, cls6)
            for name6, st6 in ex6.stages.items():
                n6 += taskdeps.check_stage(st6, weff, cmap, sub)
        for v in sub.violations:
            res.violation("C12.6.flags-in-one-call", v["file"], v["function"], v["key"], v["line"], v["msg"] + ": within one execute() nothing else orders this task with the stage that produces / consumes the block, so a call carrying both flags gives another tree state than two calls")
    res.instance("C12.6.flags-in-one-call", "task units", "umbrella 'core' + 'specx'", "%d task units: dependencies cover effects" % n6)
    res.floor("C12.6", n6, 20, "task units with wrapper calls")
    if tier in ("quick", "thorough"):      # the Specx / StarPU executors (declaration stubs) are analysed on every run: the unit tests never compile them, so nothing else would notice a change there
        sf = tbf.scan("specx")
        res.units.append("umbrella TU 'specx' (declaration-only Specx stub)")
        for cls in SPECX:
            ex = check_executor(sf, cls, res, stages.FLAG_NAMES, effects.wrapper_effects(sf, effects.container_map(sf)))
            nguard += len(ex.guarded) + len(ex.unguarded)
        tf = tbf.scan("starpu")
        res.units.append("umbrella TU 'starpu' (declaration-only StarPU stub)")
        for cls in STARPU:
            ex = check_executor(tf, cls, res, stages.FLAG_NAMES, None)
            nguard += len(ex.guarded) + len(ex.unguarded)
        res.floor("C12.1", nguard, 54, "guarded stage calls (thorough)")
