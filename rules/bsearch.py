"""C16.4 - the binary-search helper behind every in-group lookup keeps its invariant.

`TbfUtils::lower_bound_indexes(first, last, value, comp)` must return the partition point of a predicate that is true on a prefix of
[first, last) - then (with the strict comparator on the stored key, C16.1, and cells sorted by that key, C07) an existing element is
always found.  The rule does not run the search: it takes the body of the loop as a one-step transfer function over (first, count) and
checks the verification conditions of the textbook invariant  first <= answer <= first + count  on every state with first in 0..3,
count in 1..14 and every answer in [first, first + count]:
  * every probe comp(i, value) is made at a position first <= i < first + count (inside the range);
  * after one iteration the invariant holds again and 0 <= count' < count (progress);
  * before the loop count = last - first (so the invariant holds for the partition point of [first, last)) and the function returns `first`
    when the loop condition count > 0 fails.
The arithmetic is linear with one halving, so the cases are the parities of count and the two outcomes of the probe; 14 covers them with
margin.  Anything the small evaluator does not know is exit 2."""
import tbf
from tbf import walk, kids, strip, AnalysisBroken


class Probe(Exception):
    pass


class Step:
    def __init__(self, facts, fn, env, comp_did, answer, lo, hi):
        self.facts, self.fn, self.env, self.comp, self.answer, self.lo, self.hi = facts, fn, dict(env), comp_did, answer, lo, hi
        self.probes = []
        self.ret = None

    def bad(self, n, why):
        raise AnalysisBroken("%s: binary-search model: %s: `%s`" % (self.fn["qname"], why, self.facts.ntext(n)[:70]))

    def ev(self, n):
        n = strip(n)
        k = n.get("k")
        if k == "IntegerLiteral":
            return int(n["val"])
        if (k.endswith("CastExpr") or k == "ParenExpr") and len(kids(n)) == 1:
            return self.ev(kids(n)[0])
        if k == "DeclRefExpr":
            if n.get("did") in self.env:
                return self.env[n["did"]]
            self.bad(n, "unknown variable")
        if k == "UnaryOperator" and n.get("op") in ("++", "--"):
            t = strip(kids(n)[0])
            if t.get("did") not in self.env:
                self.bad(n, "increment of an unknown variable")
            old = self.env[t["did"]]
            self.env[t["did"]] = old + (1 if n["op"] == "++" else -1)
            return self.env[t["did"]] if n.get("prefix", True) and not n.get("postfix") else old
        if k == "UnaryOperator" and n.get("op") == "-":
            return -self.ev(kids(n)[0])
        if k == "UnaryOperator" and n.get("op") == "!":
            return not self.ev(kids(n)[0])
        if k == "BinaryOperator":
            op = n.get("op")
            if op == "=":
                t = strip(kids(n)[0])
                v = self.ev(kids(n)[1])
                if t.get("k") != "DeclRefExpr":
                    self.bad(n, "assignment target")
                self.env[t["did"]] = v
                return v
            a, b = self.ev(kids(n)[0]), self.ev(kids(n)[1])
            if op in ("+", "-", "*"):
                return {"+": a + b, "-": a - b, "*": a * b}[op]
            if op == "/":
                if b == 0:
                    self.bad(n, "division by zero")
                q = abs(a) // abs(b)
                return q if (a >= 0) == (b >= 0) else -q
            if op in ("<", "<=", ">", ">=", "==", "!="):
                return {"<": a < b, "<=": a <= b, ">": a > b, ">=": a >= b, "==": a == b, "!=": a != b}[op]
        if k == "CompoundAssignOperator":
            t = strip(kids(n)[0])
            v = self.ev(kids(n)[1])
            if t.get("did") not in self.env:
                self.bad(n, "update of an unknown variable")
            cur = self.env[t["did"]]
            op = n["op"][:-1]
            self.env[t["did"]] = {"+": cur + v, "-": cur - v, "*": cur * v}.get(op) if op in "+-*" else self.bad(n, "compound operator")
            return self.env[t["did"]]
        if k in ("CallExpr", "CXXOperatorCallExpr"):
            c = strip(kids(n)[0])
            args = kids(n)[1:]
            if c.get("did") == self.comp and len(args) == 2:
                i = self.ev(args[0])
                self.probes.append(i)
                return i < self.answer
        self.bad(n, "expression form %s" % k)

    def run(self, s):
        k = s.get("k")
        if k == "CompoundStmt":
            for c in kids(s):
                self.run(c)
                if self.ret is not None:
                    return
            return
        if k == "DeclStmt":
            for v in kids(s):
                if v.get("k") == "VarDecl":
                    self.env[v["did"]] = self.ev(kids(v)[0]) if kids(v) else 0
            return
        if k == "IfStmt":
            c = [y for y in kids(s) if y.get("k") != "DeclStmt"]
            if self.ev(c[0]):
                self.run(c[1])
            elif len(c) > 2:
                self.run(c[2])
            return
        if k == "ReturnStmt":
            self.ret = self.ev(kids(s)[0])
            return
        if k in ("NullStmt",):
            return
        if k in ("WhileStmt", "ForStmt", "DoStmt"):
            self.bad(s, "nested loop")
        self.ev(s)


def check(facts, res, R, maxcount=14):
    fns = [f for f in facts.functions if f["name"] == "lower_bound_indexes" and not f.get("inst") and tbf.body(f) is not None]
    if len(fns) != 1:
        raise AnalysisBroken("TbfUtils::lower_bound_indexes not found")
    fn = fns[0]
    f = tbf.rel(facts.path_of(fn))
    body = tbf.body(fn)
    pfirst, plast, pvalue, pcomp = [p["did"] for p in fn["params"]]
    top = kids(body)
    loops = [s for s in top if s.get("k") == "WhileStmt"]
    if len(loops) != 1:
        raise AnalysisBroken("%s: a single top-level while loop expected" % fn["qname"])
    loop = loops[0]
    pre, post = top[:top.index(loop)], top[top.index(loop) + 1:]
    cond, lbody = kids(loop)[0], kids(loop)[-1]
    # the counter: the variable the loop condition compares with 0
    c0 = strip(cond)
    if not (c0.get("k") == "BinaryOperator" and c0.get("op") in (">", "!=") and strip(kids(c0)[1]).get("k") == "IntegerLiteral" and strip(kids(c0)[1]).get("val") == 0 and strip(kids(c0)[0]).get("k") == "DeclRefExpr"):
        raise AnalysisBroken("%s: loop condition is not `count > 0`" % fn["qname"])
    cnt = strip(kids(c0)[0])["did"]
    n = 0
    bad = None
    # before the loop: count = last - first
    for first in range(0, 3):
        for last in range(first, first + 4):
            st = Step(facts, fn, {pfirst: first, plast: last, pvalue: 0}, pcomp, 0, first, last)
            for s in pre:
                st.run(s)
            n += 1
            if st.env.get(cnt) != last - first or st.env.get(pfirst) != first:
                bad = ("init", "before the loop the counter is %s for the range [%d, %d), not its length" % (st.env.get(cnt), first, last))
    # one iteration
    if bad is None:
        for first in range(0, 4):
            for count in range(1, maxcount + 1):
                for answer in range(first, first + count + 1):
                    env = {pfirst: first, plast: first + count, pvalue: 0, cnt: count}
                    st = Step(facts, fn, env, pcomp, answer, first, first + count)
                    st.run(lbody)
                    n += 1
                    f2, c2 = st.env[pfirst], st.env[cnt]
                    if any(not (first <= i < first + count) for i in st.probes):
                        bad = ("probe", "with first = %d, count = %d the comparator is asked about position %s, outside [%d, %d): an out-of-range element is read" % (first, count, [i for i in st.probes if not (first <= i < first + count)][0], first, first + count))
                    elif len(st.probes) != 1:
                        bad = ("probe", "an iteration probes %d positions (1 expected)" % len(st.probes))
                    elif not (f2 <= answer <= f2 + c2):
                        bad = ("invariant", "with first = %d, count = %d and the partition point at %d, one iteration gives first = %d, count = %d: the partition point is no longer inside [first, first + count] - an existing element is reported absent" % (first, count, answer, f2, c2))
                    elif not (0 <= c2 < count):
                        bad = ("progress", "with first = %d, count = %d one iteration leaves count = %d: the search does not make progress / count becomes negative" % (first, count, c2))
                    if bad:
                        break
                if bad:
                    break
            if bad:
                break
    # after the loop: returns first
    if bad is None:
        st = Step(facts, fn, {pfirst: 7, plast: 9, pvalue: 0, cnt: 0}, pcomp, 7, 7, 9)
        for s in post:
            st.run(s)
        if st.ret != 7:
            bad = ("return", "the function does not return `first` when the counter reaches 0")
    res.instance(R, "TbfUtils::lower_bound_indexes", facts.loc(fn), "invariant first <= partition point <= first + count, probes inside the range, progress, result = first: %s (%d states)" % ("hold" if bad is None else "FAIL", n))
    if bad is not None:
        res.violation(R, f, fn["qname"], "binary-search:" + bad[0], loop["l"][1], "the binary search behind the in-group lookups is wrong: " + bad[1])
    return n
