"""C06 — tree construction stores every particle once, in the right leaf, bit-exactly.

Decided clauses (structural; the floor/clamp arithmetic of position -> leaf is not decided):
 1 zero initialisation is unconditional: group memory is allocated only in
   TbfMemoryBlock::resetBlocksFromSizes; on every path the memset of the whole allocation follows
   the (re)allocation decision and precedes constructAllItems(), which value-initialises; result
   values are additionally assigned RhsType(); group constructors size every block through it
 2 no narrowing on the data copy path: witness TbfTree<float,double,...> (constructor, rebuild,
   export, target/source) compiled with -Wconversion: no diagnostic under src/core or src/containers
 3 execution cannot write symbolic data: probe kernel instantiated through every executor class
   sees leaf/cell headers as const and particle data as pointers to const at every operator;
   shipped kernels cast const away only into callee parameters that are themselves const
 4 domain typing of the space-filling-curve index: a value produced by Morton->curve conversion is
   never converted again (and vice versa)
"""
import os
import re

import tbf
import witness
import stages
from tbf import walk, kids, strip, AnalysisBroken

LEVEL = "other"
TECHNIQUE = "must-pass-through / who-may-allocate rules over the clang AST, -Wconversion witness on the copy path, type-level probe kernel through every executor, index-domain typing of the ordering classes"

NARROW_TU = """
#include <vector>
#include <array>
#include <functional>
#include <algorithm>
#include <optional>
#include <memory>
#include <iostream>
#include "tbfglobal.hpp"
#include "utils/tbfutils.hpp"
#include "spacial/tbfmortonspaceindex.hpp"
#include "spacial/tbfspacialconfiguration.hpp"
#include "core/tbfcellscontainer.hpp"
#include "core/tbfparticlescontainer.hpp"
#include "core/tbfparticlesorter.hpp"
#include "core/tbftree.hpp"
#include "core/tbftreetsm.hpp"
template <class Real, class Data, class Rhs>
long int one(){
    const TbfSpacialConfiguration<Real, 3> configuration(3, {{1,1,1}}, {{Real(0.5),Real(0.5),Real(0.5)}});
    std::vector<std::array<Data, 5>> pos(7);
    TbfTree<Real, Data, 5, Rhs, 2, std::array<double,2>, std::array<double,2>> tree(configuration, pos, 4, false);
    tree.rebuild();
    auto d = tree.getAllParticlesData(); auto r = tree.getAllParticlesRhs();
    TbfTreeTsm<Real, Data, 5, Rhs, 2, std::array<double,2>, std::array<double,2>> tsm(configuration, pos, pos, 4, false);
    tsm.rebuild();
    auto ds = tsm.getAllParticlesDataSource(); auto rt = tsm.getAllParticlesRhsTarget();
    return (d?1:0)+(r?1:0)+(ds?1:0)+(rt?1:0);
}
long int witness(){ return one<float,double,double>() + one<float,double,long double>() + one<double,long double,double>(); }
"""

PROBE_TU = witness.HEADERS + """
#include <type_traits>
using RealType = double; constexpr long int Dim = 3;
template <class T> struct pointee_const : std::false_type {};
template <class T, size_t N> struct pointee_const<std::array<const T*, N>> : std::true_type {};
template <class T> using bare = typename std::remove_cv<typename std::remove_reference<T>::type>::type;
template <class T> constexpr bool is_const_ref = std::is_const<typename std::remove_reference<T>::type>::value;
#define HEADER_CONST(T) static_assert(is_const_ref<T>, "cell/leaf header must reach the kernel as const")
#define DATA_CONST(T) static_assert(pointee_const<bare<T>>::value, "particle data must reach the kernel as pointers to const")
template <class SpaceIndexType>
struct ProbeKernel {
    explicit ProbeKernel(const TbfSpacialConfiguration<RealType, Dim>&){}
    ProbeKernel(const ProbeKernel&) = default;
    template <class H, class I, class D, class N, class M> void P2M(H&&, I&&, D&&, N&&, M&&){ HEADER_CONST(H); DATA_CONST(D); }
    template <class H, class L, class C, class P, class N> void M2M(H&&, L&&, C&&, P&&, const long int*, N&&){ HEADER_CONST(H); }
    template <class H, class L, class S, class N, class T> void M2L(H&&, L&&, S&&, const long int*, N&&, T&&){ HEADER_CONST(H); }
    template <class H, class L, class P, class C, class N> void L2L(H&&, L&&, P&&, C&&, const long int*, N&&){ HEADER_CONST(H); }
    template <class H, class L, class I, class D, class R, class N> void L2P(H&&, L&&, I&&, D&&, R&&, N&&){ HEADER_CONST(H); DATA_CONST(D); }
    template <class SH, class SI, class SD, class SR, class SN, class TH, class TI, class TD, class TR, class TN, class CODE>
    void P2P(SH&&, SI&&, SD&&, SR&&, SN&&, TH&&, TI&&, TD&&, TR&&, TN&&, CODE&&){ HEADER_CONST(SH); HEADER_CONST(TH); DATA_CONST(SD); DATA_CONST(TD); }
    template <class SH, class SI, class SD, class SN, class TH, class TI, class TD, class TR, class TN, class CODE>
    void P2PTsm(SH&&, SI&&, SD&&, SN&&, TH&&, TI&&, TD&&, TR&&, TN&&, CODE&&){ HEADER_CONST(SH); HEADER_CONST(TH); DATA_CONST(SD); DATA_CONST(TD); }
    template <class H, class I, class D, class R, class N> void P2PInner(H&&, I&&, D&&, R&&, N&&){ HEADER_CONST(H); DATA_CONST(D); }
};
long int witness(){
    const TbfSpacialConfiguration<RealType, Dim> configuration(4, {{1,1,1}}, {{0.5,0.5,0.5}});
    std::vector<std::array<RealType, Dim+1>> pos(10);
    using SP = TbfDefaultSpaceIndexTypePeriodic<RealType>;
    using M = std::array<long int,1>;
    TbfTree<RealType, RealType, Dim+1, double, 1, M, M> tree(configuration, pos, 4, false);
    TbfTreeTsm<RealType, RealType, Dim+1, double, 1, M, M> tsm(configuration, pos, pos, 4, false);
    TbfTree<RealType, RealType, Dim+1, double, 1, M, M, SP> ptree(configuration, pos, 4, false);
    TbfTreeTsm<RealType, RealType, Dim+1, double, 1, M, M, SP> ptsm(configuration, pos, pos, 4, false);
    using K = ProbeKernel<TbfDefaultSpaceIndexType<RealType>>; using KP = ProbeKernel<SP>;
    { TbfAlgorithm<RealType, K> a(configuration); a.execute(tree); }
    { TbfOpenmpAlgorithm<RealType, K> a(configuration); a.execute(tree); }
    { TbfAlgorithmTsm<RealType, K> a(configuration); a.execute(tsm); }
    { TbfOpenmpAlgorithmTsm<RealType, K> a(configuration); a.execute(tsm); }
    { TbfAlgorithmPeriodicTopTree<RealType, KP, M, M, SP> a(configuration, 1); a.execute(ptree); }
    { TbfAlgorithmPeriodicTopTreeTsm<RealType, KP, M, M, SP> a(configuration, 1); a.execute(ptsm); }
    return tree.getNbParticles();
}
"""


def zero_init(facts, res):
    R = "C06.1.zero-init"
    fn = facts.fn("TbfMemoryBlock::resetBlocksFromSizes")
    b = tbf.body(fn)
    tbf.link_parents(b)
    top = kids(b)
    f = tbf.rel(facts.path_of(fn))

    def top_index(n):
        cur = n
        while cur.get("_p") is not b:
            cur = cur["_p"]
        return top.index(cur), cur is n or cur.get("k") not in ("IfStmt", "ForStmt", "WhileStmt", "DoStmt")

    news = [x for x in walk(b) if x.get("k") == "CXXNewExpr" and x.get("array")]
    memsets = [x for x in walk(b) if x.get("k") == "CallExpr" and tbf.callee_name(x) == "memset"]
    ctor = [x for x in walk(b) if x.get("k") in ("CallExpr", "CXXMemberCallExpr") and tbf.callee_name(x) == "constructAllItems"]
    if len(news) != 1 or len(ctor) != 1:
        raise AnalysisBroken("resetBlocksFromSizes: %d array-new / %d constructAllItems calls (1/1 confirmed by reading)" % (len(news), len(ctor)))
    res.instance(R, "resetBlocksFromSizes", facts.loc(fn), "array-new @%d, memset @%s, constructAllItems @%d" % (news[0]["l"][1], [m["l"][1] for m in memsets], ctor[0]["l"][1]))
    ok = False
    why = "no memset of the allocation"
    size_txt = facts.ntext(kids(news[0])[0]) if kids(news[0]) else ""
    for m in memsets:
        args = tbf.call_args(m)
        mi, uncond = top_index(m)
        ni, _ = top_index(news[0])
        ci, cuncond = top_index(ctor[0])
        dest = strip(args[0])
        val = strip(args[1])
        if not uncond:
            why = "the memset at line %d is conditional" % m["l"][1]
            continue
        if not (ni < mi < ci):
            why = "the memset at line %d is not between the (re)allocation and constructAllItems()" % m["l"][1]
            continue
        if dest.get("name") != "rawMemoryPtr" or val.get("k") != "IntegerLiteral" or val.get("val") != 0:
            why = "the memset at line %d does not zero rawMemoryPtr" % m["l"][1]
            continue
        payload = [v for v in walk(b) if v.get("k") == "VarDecl" and v.get("name") == size_txt]
        payload_txt = facts.ntext(kids(payload[0])[0]) if payload and kids(payload[0]) else ""
        size_arg = facts.ntext(args[2])
        covers = size_arg == size_txt or (size_arg and payload_txt.startswith("(" + size_arg)) or (size_arg and payload_txt.startswith(size_arg))
        if not covers:
            why = "the memset at line %d clears %s bytes, the allocation holds %s" % (m["l"][1], facts.ntext(args[2]), size_txt)
            continue
        ok = True
    if not ok:
        res.violation(R, f, fn["qname"], "memset", fn["l"][1], "freshly sized blocks are not unconditionally zeroed: " + why)
    # early exits before the memset
    for x in walk(b):
        if x.get("k") == "ReturnStmt":
            res.violation(R, f, fn["qname"], "early-return", x["l"][1], "resetBlocksFromSizes has an early return: a path may skip the zeroing")
    # value-initialisation in constructAllItems
    ca = facts.fn("TbfMemoryBlock::constructAllItems")
    vals = [x for x in walk(tbf.body(ca)) if x.get("k") == "CXXNewExpr"]
    txt = facts.ntext(tbf.body(ca))
    res.instance(R, "constructAllItems", facts.loc(ca), "placement news: %d" % len(vals))
    # (informational: the memset above already establishes the zero state of these POD items)
    # who may allocate group memory
    n = 0
    for fn2 in facts.functions:
        if fn2.get("inst"):
            continue
        path = tbf.rel(facts.path_of(fn2))
        if not (path.startswith("src/containers/") or path.startswith("src/core/")):
            continue
        for x in walk(tbf.body(fn2)):
            if x.get("k") == "CXXNewExpr" and x.get("array") and "unsigned char" in x.get("alloctype", ""):
                n += 1
                res.instance(R + ".who-may-allocate", fn2["qname"], facts.loc(x), "raw byte allocation")
                if fn2["qname"] != "TbfMemoryBlock::resetBlocksFromSizes":
                    res.violation(R + ".who-may-allocate", path, fn2["qname"], "new[]", x["l"][1], "group memory allocated outside resetBlocksFromSizes: it bypasses the zero initialisation")
            if x.get("k") == "CallExpr" and tbf.callee_name(x) in ("malloc", "aligned_alloc", "posix_memalign"):
                res.violation(R + ".who-may-allocate", path, fn2["qname"], "malloc", x["l"][1], "group memory allocated outside resetBlocksFromSizes")
    # group constructors size every block through resetBlocksFromSizes; rhs assigned RhsType()
    for cls in ("TbfCellsContainer", "TbfParticlesContainer"):
        blocks = [fl["name"] for fl in facts.cls(cls)["fields"] if "MemoryBlock" in fl["t"]]
        for m in facts.methods_of(cls):
            if m["kind"] != "CXXConstructor" or tbf.body(m) is None:
                continue
            ptypes = " ".join(p["t"] for p in m["params"])
            if "unsigned char *" in ptypes or "std::pair<unsigned char" in ptypes:
                continue      # raw-memory view constructors do not allocate
            m = tbf.expand_member_helpers(facts, m)       # a constructor that delegates to a (re)initialisation method is judged through it
            txt = "".join(facts.ntext(st) + ";" for st in kids(tbf.body(m))) if m.get("expanded") else facts.ntext(tbf.body(m))
            if "resetBlocksFromSizes" not in txt:
                if "(*this)=" + cls in txt:
                    res.instance(R + ".group-ctor", "%s ctor@%d" % (cls, m["l"][1]), facts.loc(m), "delegates to another constructor by move-assignment")
                    continue
                if not kids(tbf.body(m)):
                    continue
                res.violation(R + ".group-ctor", tbf.rel(facts.path_of(m)), m["qname"], "no-reset@%d" % m["l"][1], m["l"][1], "group constructor does not size its blocks through resetBlocksFromSizes")
                continue
            # main path (after the empty-input early return): all blocks
            missing = [bk for bk in blocks if (bk + ".resetBlocksFromSizes(") not in txt]
            res.instance(R + ".group-ctor", "%s ctor@%d" % (cls, m["l"][1]), facts.loc(m), "blocks sized: %s" % [bk for bk in blocks if bk not in missing])
            if missing and "nbParticles==0" not in txt.replace(" ", ""):
                res.violation(R + ".group-ctor", tbf.rel(facts.path_of(m)), m["qname"], "missing-block@%d" % m["l"][1], m["l"][1], "constructor does not size block(s) %s" % missing)


def row_sources(facts, cls="TbfParticlesContainer"):
    """Every place where the container forms the address of a row of a multi-row block and stores it in a slot of an array of row
    pointers: `A[r] = &V.getItem(i, j) (+ terms)`.  Returns records {fn, node, slot (the subscript r), item (i), row (j), terms, viewer
    text (through a local, a parameter bound at the call sites, or directly), target (name of A and whether it is a data member)}."""
    out = []
    methods = [m for m in facts.methods_of(cls) if tbf.body(m) is not None and not m.get("inst")]
    byname = {}
    for m in methods:
        byname.setdefault(m["name"], []).append(m)

    def addends(e):
        e = strip(e)
        if e.get("k") == "BinaryOperator" and e.get("op") == "+":
            return addends(kids(e)[0]) + addends(kids(e)[1])
        return [e]

    for m in methods:
        decls = {v["did"]: v for v in walk(tbf.body(m)) if v.get("k") == "VarDecl"}
        pidx = {p["did"]: i for i, p in enumerate(m["params"])}
        for x in walk(tbf.body(m)):
            if not (x.get("k") == "BinaryOperator" and x.get("op") == "="):
                continue
            l = strip(kids(x)[0])
            if not (l.get("k") in ("ArraySubscriptExpr", "CXXOperatorCallExpr") and len(kids(l)) >= 2):
                continue
            rhs = strip(kids(x)[1])
            if rhs.get("k") == "ConditionalOperator" and len(kids(rhs)) == 3:
                # `p ? p + ... : nullptr`: the non-null side
                br = [b_ for b_ in kids(rhs)[1:] if strip(b_).get("k") not in ("CXXNullPtrLiteralExpr", "GNUNullExpr") and not (strip(b_).get("k") == "IntegerLiteral" and strip(b_).get("val") == 0)]
                if len(br) == 1:
                    rhs = strip(br[0])
            parts = addends(rhs)
            is_gi = lambda a: a.get("k") == "UnaryOperator" and a.get("op") == "&" and strip(kids(a)[0]).get("k") in ("CallExpr", "CXXMemberCallExpr") and tbf.callee_name(strip(kids(a)[0])) == "getItem"
            gi = [a for a in parts if is_gi(a)]
            via = None
            if not gi:
                # a base pointer kept in a local: `T* first = &V.getItem(i0, j0);  A[r] = first + r * stride + off`
                for a in parts:
                    if a.get("k") == "DeclRefExpr" and a.get("did") in decls and kids(decls[a["did"]]):
                        inner = [z for z in walk(kids(decls[a["did"]])[0]) if is_gi(z)]
                        if len(inner) == 1:
                            gi, via = [inner[0]], a
            if len(gi) != 1:
                continue
            call = strip(kids(gi[0])[0])
            args = tbf.call_args(call)
            if len(args) != 2:
                continue
            base = strip(tbf.call_base(call)) if tbf.call_base(call) is not None else None
            vtexts = []
            if base is not None and base.get("k") == "DeclRefExpr" and base.get("did") in decls and kids(decls[base["did"]]):
                vtexts = [facts.ntext(kids(decls[base["did"]])[0])]
            elif base is not None and base.get("k") == "DeclRefExpr" and base.get("did") in pidx:
                # a viewer handed to a helper: bound at each call site
                for g in methods:
                    for c_ in walk(tbf.body(g)):
                        if c_.get("k") in ("CallExpr", "CXXMemberCallExpr") and tbf.callee_name(c_) == m["name"] and len(tbf.call_args(c_)) == len(m["params"]):
                            vtexts.append((g["name"], facts.ntext(tbf.call_args(c_)[pidx[base["did"]]])))
            elif base is not None:
                vtexts = [facts.ntext(base)]
            tgt = strip(kids(l)[-2])
            # a row stride taken from a viewer: `r * V2.getRowLength()` (directly or through a const local)
            strides = []
            for a in parts:
                if a.get("k") == "BinaryOperator" and a.get("op") == "*":
                    for f_ in kids(a):
                        f0 = strip(f_)
                        if f0.get("k") == "DeclRefExpr" and f0.get("did") in decls and kids(decls[f0["did"]]):
                            f0 = strip(kids(decls[f0["did"]])[0])
                        if f0.get("k") == "ConditionalOperator" and len(kids(f0)) == 3:
                            # `block.isEmpty() ? 0 : viewer.getRowLength()`
                            br_ = [b_ for b_ in kids(f0)[1:] if not (strip(b_).get("k") == "IntegerLiteral" and strip(b_).get("val") == 0)]
                            if len(br_) == 1:
                                f0 = strip(br_[0])
                        if f0.get("k") in ("CallExpr", "CXXMemberCallExpr") and tbf.call_base(f0) is not None and not tbf.call_args(f0):
                            strides.append((tbf.callee_name(f0), strip(tbf.call_base(f0)), a))
            out.append(dict(fn=m, node=x, slot=strip(kids(l)[-1]), item=strip(args[0]), row=strip(args[1]), terms=[a for a in parts if a is not gi[0] and a is not via], viewers=vtexts,
                            base_viewer=base, strides=strides,
                            target=tgt.get("name"), member=tgt.get("k") in ("MemberExpr", "CXXDependentScopeMemberExpr"), tparam=pidx.get(tgt.get("did"))))
    return out


def row_addressing(facts, res):
    """C06.10: the group constructor stores value (p, v) through the block's viewer, `V.getItem(p, v)`; the accessors hand out one pointer per
    row and the kernels read `row[v][p]`.  Both name the same bytes only if the pointer of row v is the viewer's own address of an item of
    THAT row, moved along the row only: `&V.getItem(i, v) + (terms not depending on v)`.  A row pointer computed from another row's address
    and a hand-made stride duplicates the viewer's layout rule (leading dimension rounded up to the alignment) and silently disagrees with it
    for the sizes where the rounding differs."""
    R = "C06.10.row-addressing"
    recs = row_sources(facts)
    n = 0
    for r in recs:
        fn = r["fn"]
        n += 1
        res.instance(R, "%s@%d" % (fn["qname"], r["node"]["l"][1]), facts.loc(r["node"]), "%s[%s] = &viewer.getItem(%s, %s)%s" % (r["target"], facts.ntext(r["slot"]), facts.ntext(r["item"]), facts.ntext(r["row"]),
                     "".join(" + " + facts.ntext(t)[:40] for t in r["terms"])))
        f = tbf.rel(facts.path_of(r["node"]))
        sd = r["slot"].get("did") if r["slot"].get("k") == "DeclRefExpr" else None
        same_row = (sd is not None and r["row"].get("did") == sd) or (r["slot"].get("k") == "IntegerLiteral" and r["row"].get("k") == "IntegerLiteral" and r["slot"].get("val") == r["row"].get("val"))
        if not same_row and r["row"].get("k") == "IntegerLiteral" and r["row"].get("val") == 0 and len(r.get("strides", [])) == 1 and sd is not None \
                and any(z.get("k") == "DeclRefExpr" and z.get("did") == sd for z in walk(r["strides"][0][2])):
            # row 0 of the block + r x (the viewer's own row length): legitimate when the length is asked from the SAME viewer, through an
            # accessor that returns its leading dimension in elements
            acc, sv, term = r["strides"][0]
            bv = r.get("base_viewer")
            accs = [g for g in facts.functions if g["name"] == acc and tbf.body(g) is not None and not g.get("inst") and not g["params"]]
            acc_ok = bool(accs) and all(re.search(r"returnleadingDim/(static_cast<\w*>\()?sizeof\(", facts.ntext(tbf.body(g)).replace(" ", "").replace("longint", "long")) for g in accs)
            if not acc_ok:
                res.violation(R, f, fn["qname"], "hand-made-stride@%d" % r["node"]["l"][1], r["node"]["l"][1],
                              "the pointer of row `%s` is formed from row 0 and `%s()` rows apart: that accessor is not the viewer's leading dimension in elements (leadingDim / sizeof(value)), so the stride differs from the one getItem() uses whenever the row length is not already a multiple of the alignment - the constructor wrote value (p, v) at getItem(p, v), the kernels read row v somewhere else"
                              % (facts.ntext(r["slot"]), acc))
                continue
            if bv is None or sv.get("did") is None or bv.get("did") != sv.get("did"):
                res.violation(R, f, fn["qname"], "foreign-stride@%d" % r["node"]["l"][1], r["node"]["l"][1],
                              "the pointer of row `%s` is formed from row 0 of the block viewed by `%s` and the row length of ANOTHER viewer, `%s`: every block has its own leading dimension (rows x value size, rounded up to the alignment) - for the block sizes where the two differ the rows 1.. read are not the rows the kernels wrote through getItem()"
                              % (facts.ntext(r["slot"]), facts.ntext(bv) if bv is not None else "?", facts.ntext(sv)))
            other = [t for t in r["terms"] if t is not term and any(z.get("k") == "DeclRefExpr" and z.get("did") == sd for z in walk(t))]
            if other:
                res.violation(R, f, fn["qname"], "stride@%d" % r["node"]["l"][1], r["node"]["l"][1], "the pointer of row `%s` is moved by a second row-dependent term `%s`" % (facts.ntext(r["slot"]), facts.ntext(other[0])[:60]))
            continue
        if not same_row:
            res.violation(R, f, fn["qname"], "row@%d" % r["node"]["l"][1], r["node"]["l"][1],
                          "the pointer of row `%s` is formed from the viewer's address of row `%s`: the viewer alone knows where a row starts (its leading dimension is rounded up to the alignment); the constructor wrote value (p, v) at getItem(p, v), the kernels now read row v somewhere else"
                          % (facts.ntext(r["slot"]), facts.ntext(r["row"])))
            continue
        dep = [t for t in r["terms"] if sd is not None and any(z.get("k") == "DeclRefExpr" and z.get("did") == sd for z in walk(t))]
        if dep:
            res.violation(R, f, fn["qname"], "stride@%d" % r["node"]["l"][1], r["node"]["l"][1],
                          "the pointer of row `%s` is moved by `%s`, which depends on the row: a hand-made row stride next to the viewer's own" % (facts.ntext(r["slot"]), facts.ntext(dep[0])[:60]))
    # coverage: every local array of row pointers an accessor fills is filled in one of the recognised ways
    cls = "TbfParticlesContainer"
    methods = [m for m in facts.methods_of(cls) if tbf.body(m) is not None and not m.get("inst")]
    cached = {r["target"] for r in recs if r["member"]}
    helpers = {(r["fn"]["name"], r["tparam"]) for r in recs if r["tparam"] is not None}
    arrays = 0
    for m in methods:
        for v in walk(tbf.body(m)):
            if v.get("k") != "VarDecl" or not re.search(r"array<[^,]*\*\s*,|\*\s*\[", v.get("t", "")) or "pair<" in v.get("t", ""):
                continue
            arrays += 1
            did = v["did"]
            ok = any(r["fn"] is m and r["target"] == v.get("name") and not r["member"] for r in recs)
            for c_ in walk(tbf.body(m)):
                if c_.get("k") in ("CallExpr", "CXXMemberCallExpr"):
                    for i, a in enumerate(tbf.call_args(c_)):
                        if strip(a).get("did") == did and (tbf.callee_name(c_), i) in helpers:
                            ok = True
                if c_.get("k") == "BinaryOperator" and c_.get("op") == "=":
                    l = strip(kids(c_)[0])
                    if l.get("k") in ("ArraySubscriptExpr", "CXXOperatorCallExpr") and len(kids(l)) >= 2 and strip(kids(l)[-2]).get("did") == did:
                        slot = strip(kids(l)[-1])
                        parts = []

                        def add_(e):
                            e = strip(e)
                            if e.get("k") == "BinaryOperator" and e.get("op") == "+":
                                add_(kids(e)[0]); add_(kids(e)[1])
                            else:
                                parts.append(e)
                        add_(kids(c_)[1])
                        src = [q for q in parts if q.get("k") in ("ArraySubscriptExpr", "CXXOperatorCallExpr") and len(kids(q)) >= 2 and strip(kids(q)[-2]).get("name") in cached]
                        if len(src) == 1:
                            ok = True
                            n += 1
                            res.instance(R, "%s@%d" % (m["qname"], c_["l"][1]), facts.loc(c_), "%s[%s] = cached %s" % (v.get("name"), facts.ntext(slot), facts.ntext(kids(c_)[1])[:60]))
                            sidx = strip(kids(src[0])[-1])
                            others = [q for q in parts if q is not src[0]]
                            if facts.ntext(sidx) != facts.ntext(slot) or any(z.get("k") == "DeclRefExpr" and z.get("did") == slot.get("did") and slot.get("did") is not None for q in others for z in walk(q)):
                                res.violation(R, tbf.rel(facts.path_of(c_)), m["qname"], "cached-row@%d" % c_["l"][1], c_["l"][1],
                                              "the pointer of row `%s` is taken from the cached address of row `%s` / moved by a row-dependent term" % (facts.ntext(slot), facts.ntext(sidx)))
            if not ok:
                raise AnalysisBroken("%s: the row-pointer array '%s' (%s) is filled in a way the row-addressing rule does not recognise" % (m["qname"], v.get("name"), facts.loc(v)))
    res.instance(R, "coverage", "src/core/tbfparticlescontainer.hpp", "%d local row-pointer arrays, each filled from a viewer's getItem (directly, through a helper's out-parameter, or from a cached member)" % arrays)
    res.floor(R, arrays, 6, "local row-pointer arrays in the accessors of TbfParticlesContainer (8 on the pinned tree)")
    res.floor(R + ".sources", n, 1, "row-pointer sources")
    return n


def copy_provenance(facts, res):
    """C06.5: in the group constructor the sorted slot p receives the original index orig(p) and the data
    row of input particle orig(p), value by value - the same orig(p) on both sides, taken from the group
    property at the same p"""
    R = "C06.5.copy-provenance"
    import stages
    pt = [tbf.expand_member_helpers(facts, m) for m in facts.methods_of("TbfParticlesContainer") if m["kind"] == "CXXConstructor" and len(m["params"]) == 3 and tbf.body(m) is not None and "GroupInfoClass" in m["params"][0]["t"]]
    if len(pt) != 1:
        raise AnalysisBroken("TbfParticlesContainer(group info, positions, converter) constructor not found")
    fn = pt[0]
    fm = stages.FnModel(facts, fn)
    f = tbf.rel(facts.path_of(fn))
    ginfo, positions = fn["params"][0]["did"], fn["params"][1]["did"]

    rows_ = row_sources(facts)

    def block_of(accessor):
        ms = [m for m in facts.methods_of("TbfParticlesContainer") if m["name"] == accessor]
        ks = set()
        for m in ms:
            ks |= set(re.findall(r"getViewerForBlock(?:Const)?<(\d+)>\(\)\.getItem\(leafHeader\.offSet", facts.ntext(tbf.body(m))))
        if not ks:
            # the row pointers come from a helper the accessor hands a viewer to, or from a member another function fills from a viewer
            for m in ms:
                reads = {y.get("name") for y in walk(tbf.body(m)) if y.get("k") in ("MemberExpr", "CXXDependentScopeMemberExpr")}
                for r_ in rows_:
                    for v_ in r_["viewers"]:
                        if isinstance(v_, tuple) and v_[0] == accessor:
                            ks |= set(re.findall(r"getViewerForBlock(?:Const)?<(\d+)>", v_[1]))
                        elif not isinstance(v_, tuple) and r_["member"] and r_["target"] in reads:
                            ks |= set(re.findall(r"getViewerForBlock(?:Const)?<(\d+)>", v_))
        if len(ks) != 1:
            raise AnalysisBroken("cannot derive the memory block behind %s" % accessor)
        return next(iter(ks))
    kidx, kdata = block_of("getParticleIndexes"), block_of("getParticleData")

    def viewer_block(call):
        b = strip(tbf.call_base(call))
        d = fm.decls.get(b.get("did")) if b is not None and b.get("k") == "DeclRefExpr" else None
        t = facts.ntext(kids(d)[0]) if d is not None and kids(d) else facts.ntext(b) if b is not None else ""
        m = re.search(r"getViewerForBlock<(\d+)>", t)
        return m.group(1) if m else None

    def deref(n):
        n = strip(n)
        for _ in range(6):
            if n.get("k") == "DeclRefExpr":
                d = fm.decls.get(n.get("did"))
                if d is not None and d.get("k") == "VarDecl" and kids(d) and not fm.assigned.get(n["did"]):
                    n = strip(kids(d)[0])
                    continue
            break
        return n
    idx_store, data_store = [], []
    for x in walk(fm.body):
        if x.get("k") == "BinaryOperator" and x.get("op") == "=":
            l = strip(kids(x)[0])
            if l.get("k") in ("CallExpr", "CXXMemberCallExpr") and tbf.callee_name(l) == "getItem":
                vb = viewer_block(l)
                if vb == kidx:
                    idx_store.append((x, l, kids(x)[1]))
                elif vb == kdata:
                    data_store.append((x, l, kids(x)[1]))
    if not idx_store or not data_store:
        raise AnalysisBroken("particle group constructor: %d index stores / %d data stores recognised (1/1 confirmed by reading)" % (len(idx_store), len(data_store)))
    # several stores (a fast path next to the general one, under a run-time test): either may execute, so each must be right on its own
    tbf.link_parents(fm.body)

    def under(x):
        c = [a for a in tbf.ancestors(x) if a.get("k") == "IfStmt" and not a.get("constexpr")]
        if not c:
            return ""
        c0 = [y for y in kids(c[0]) if y.get("k") != "DeclStmt"]
        side = "holds" if len(c0) > 1 and any(z is x for z in walk(c0[1])) else "does not hold"
        return " (on the path taken when `%s` %s)" % (facts.ntext(c0[0])[:70], side)
    slots_i = set()
    for xi, li, ri in idx_store:
        slot_i = facts.ntext(tbf.call_args(li)[0])
        slots_i.add(slot_i)
        # stored index = groupInfo.getParticleIndex(slot)
        src_i = deref(ri)
        ok_i = src_i.get("k") in ("CallExpr", "CXXMemberCallExpr") and tbf.callee_name(src_i) == "getParticleIndex" \
            and strip(tbf.call_base(src_i)).get("did") == ginfo and facts.ntext(tbf.call_args(src_i)[0]) == slot_i
        res.instance(R, "index store@%d" % xi["l"][1] if len(idx_store) > 1 else "index store", facts.loc(xi), "slot %s <- %s%s" % (slot_i, facts.ntext(src_i)[:80], under(xi)))
        if not ok_i:
            res.violation(R, f, fn["qname"], "index-store" if len(idx_store) == 1 else "index-store@%d" % xi["l"][1], xi["l"][1], "sorted slot %s stores `%s`%s, not the group property's getParticleIndex(%s): the particle stored there is not the one the sorter put there - it sits in a leaf whose box does not contain it / loses its original index" % (slot_i, facts.ntext(src_i)[:60], under(xi), slot_i))
    for xd, ld, rd in data_store:
        slot_d, val_d = [facts.ntext(a) for a in tbf.call_args(ld)]
        # data: positions[orig(slot)][value]
        src_d = deref(rd)
        ok_shape = src_d.get("k") in ("ArraySubscriptExpr", "CXXOperatorCallExpr")
        inner = strip(kids(src_d)[-2]) if ok_shape else None
        ok_shape = ok_shape and inner is not None and inner.get("k") in ("ArraySubscriptExpr", "CXXOperatorCallExpr") and strip(kids(inner)[-2]).get("did") == positions
        row = deref(kids(inner)[-1]) if ok_shape else None
        col = facts.ntext(kids(src_d)[-1]) if ok_shape else None
        res.instance(R, "data store@%d" % xd["l"][1] if len(data_store) > 1 else "data store", facts.loc(xd), "slot (%s,%s) <- %s%s" % (slot_d, val_d, facts.ntext(src_d)[:80], under(xd)))
        ok_row = ok_shape and row.get("k") in ("CallExpr", "CXXMemberCallExpr") and tbf.callee_name(row) == "getParticleIndex" and facts.ntext(tbf.call_args(row)[0]) == slot_d
        if not ok_shape or not ok_row or (len(idx_store) == 1 and slot_d not in slots_i):
            res.violation(R, f, fn["qname"], "data-row" if len(data_store) == 1 else "data-row@%d" % xd["l"][1], xd["l"][1], "sorted slot %s does not receive the data row of input particle getParticleIndex(%s) (got `%s`)%s: data and index of a particle no longer belong together" % (slot_d, slot_d, facts.ntext(src_d)[:60], under(xd)))
        elif col != val_d:
            res.violation(R, f, fn["qname"], "data-column", xd["l"][1], "value %s of the slot is read from value %s of the input" % (val_d, col))


def _inside_tree_coordinate(f, line):
    """is (file, line) inside the body of an ordering class's getTreeCoordinate?  The argument of getTreeCoordinate is where a relative position
    is meant to be converted to the tree's coordinate type; a narrowing INSIDE the function happens after its face test"""
    facts = tbf.scan("core")
    for cls in ("TbfMortonSpaceIndex", "TbfHilbertSpaceIndex"):
        for m in facts.methods_of(cls):
            if m["name"] == "getTreeCoordinate" and tbf.body(m) is not None and tbf.rel(facts.path_of(m)) == f:
                b = tbf.body(m)
                last = max([y["l"][1] for y in walk(b) if y.get("l")] + [b["l"][1]])
                if b["l"][1] <= line <= last:
                    return True
    return False


def narrowing(res, tier):
    R = "C06.2.no-narrowing"
    for comp, flags in (("g++", ["-Wconversion", "-Wfloat-conversion", "-Wno-sign-conversion"]),) + ((("clang++", ["-Wimplicit-float-conversion", "-Wimplicit-int-conversion", "-Wshorten-64-to-32"]),) if tier == "thorough" else ()):
        d = tbf.scratch()
        path = os.path.join(d, "c06_narrow.cpp")
        open(path, "w").write(NARROW_TU)
        import subprocess
        if comp == "g++":
            cmd = ["g++"] + tbf.GXX_FLAGS
        else:
            cmd = ["clang++", "-std=gnu++17", "-fopenmp", "-fopenmp-version=45"]
        cmd += tbf.config_flags("core") + ["-fsyntax-only"] + flags + [path]
        p = subprocess.run(cmd, stdout=subprocess.PIPE, stderr=subprocess.PIPE, universal_newlines=True)
        if p.returncode != 0:
            f, line, msg = tbf.first_repo_diag(p.stderr)
            res.violation(R, f, "<witness c06_narrow>", "compile", line, "copy-path witness (real=float, data=double) does not compile: " + msg[:200])
            continue
        warns = []
        for ln in p.stderr.splitlines():
            m = re.match(r"^(\S+?):(\d+):(\d+): warning: (.*)$", ln)
            if m and os.path.abspath(m.group(1)).startswith(tbf.SRC):
                warns.append((tbf.rel(m.group(1)), int(m.group(2)), m.group(4)))
        res.instance(R, comp, "witness:c06_narrow", "%d conversion diagnostics under src/: %s" % (len(warns), sorted(set(w[0] for w in warns))))
        for f, line, msg in warns:
            if f.startswith("src/core/") or f.startswith("src/containers/"):
                if re.search(r"float|double|precision|may change value", msg):
                    res.violation(R, f, "<copy path>", "%s:%d" % (f, line), line, "implicit narrowing conversion on the particle data copy path: " + msg[:200])
            elif f.startswith("src/spacial/") and re.search(r"conversion from .(long )?double. to ", msg) and "may change value" in msg and _inside_tree_coordinate(f, line):
                # position -> leaf: a value of the particle's (wider) type narrowed to the tree's coordinate type inside the ordering class: tests made
                # on the wide value (the upper-face clamp) and arithmetic made on the narrowed one disagree near a face
                res.violation(R, f, "<position to leaf>", "%s:%d" % (f, line), line, "a floating value is implicitly narrowed inside the ordering class (%s): with float coordinates and double particle data a position within rounding of the upper face passes the face test in double and is floored after rounding up in float - the coordinate is one past the grid" % msg[:160])


def constcast_lint(facts, res):
    """shipped kernels: a const_cast on an operator input may only feed a callee parameter that is const"""
    R = "C06.3.const-cast"
    n = 0
    for fn in facts.functions:
        # kernels and everything they call during an execution (periodic shifter and other utilities, the wrappers and executors)
        if fn.get("inst") or not any(tbf.rel(facts.path_of(fn)).startswith(d) for d in ("src/kernels/", "src/utils/", "src/algorithms/")):
            continue
        b = tbf.body(fn)
        if b is None:
            continue
        casts = [x for x in walk(b) if x.get("k") == "CXXConstCastExpr"]
        if not casts:
            continue
        tbf.link_parents(b)
        for c in casts:
            n += 1
            par = c.get("_p")
            while par is not None and par.get("k") in ("ImplicitCastExpr", "ParenExpr"):
                par = par.get("_p")
            ok = False
            why = "result is not passed directly to a callee"
            if par is not None and par.get("k") in ("CallExpr", "CXXMemberCallExpr"):
                args = tbf.call_args(par)
                pos = [i for i, a in enumerate(args) if any(x is c for x in walk(a))]
                q = tbf.callee_qual(par) or ""
                name = tbf.callee_name(par)
                cands = [g for g in facts.functions if g["name"] == name and len(g["params"]) == len(args) and not g.get("inst")]
                why = "callee %s not found" % q
                if cands and pos:
                    pt = [g["params"][pos[0]]["t"] for g in cands]
                    ok = all(t.startswith("const ") for t in pt)
                    why = "parameter %d of %s has type %s" % (pos[0], q, pt)
            res.instance(R, "%s@%d" % (fn["qname"], c["l"][1]), facts.loc(c), why)
            if not ok:
                res.violation(R, tbf.rel(facts.path_of(c)), fn["qname"], "const_cast@%d" % c["l"][1], c["l"][1], "const removed from an operator input and handed on as mutable: " + why)
    return n


def curve_domains(facts, res):
    """C06.4: in an ordering class with Morton<->curve converters, a curve index is never converted to
    curve again and a Morton index never to Morton again"""
    R = "C06.4.curve-domain"
    n = 0
    for cls in sorted(set(fn.get("cls") for fn in facts.functions if fn.get("cls"))):
        ms = {m["name"]: m for m in facts.methods_of(cls)}
        if "Morton2Hilbert" not in ms or "Hilbert2Morton" not in ms:
            continue
        CONV = {"Morton2Hilbert": ("morton", "curve"), "Hilbert2Morton": ("curve", "morton")}
        ret = {}
        changed = True

        def dom(fm_decls, e):
            e = strip(e)
            if e.get("k") in ("CallExpr", "CXXMemberCallExpr"):
                nm = tbf.callee_name(e)
                if nm in CONV:
                    return CONV[nm][1]
                if nm in ret:
                    return ret[nm]
                return None
            if e.get("k") == "DeclRefExpr":
                d = fm_decls.get(e.get("did"))
                if d is not None and d.get("k") == "VarDecl" and kids(d):
                    return dom(fm_decls, kids(d)[0])
            return None

        while changed:
            changed = False
            for name, m in ms.items():
                if name in CONV or tbf.body(m) is None:
                    continue
                decls = {x["did"]: x for x in walk(tbf.body(m)) if x.get("k") == "VarDecl"}
                rets = [x for x in walk(tbf.body(m), into_lambdas=False) if x.get("k") == "ReturnStmt" and kids(x)]
                ds = set(dom(decls, kids(r)[0]) for r in rets)
                if len(ds) == 1 and None not in ds and ret.get(name) != next(iter(ds)):
                    ret[name] = next(iter(ds))
                    changed = True
        for name, m in ms.items():
            if tbf.body(m) is None or name in CONV:
                continue
            decls = {x["did"]: x for x in walk(tbf.body(m)) if x.get("k") == "VarDecl"}
            for x in walk(tbf.body(m)):
                if x.get("k") in ("CallExpr", "CXXMemberCallExpr") and tbf.callee_name(x) in CONV:
                    n += 1
                    need, gives = CONV[tbf.callee_name(x)]
                    a = tbf.call_args(x)[0]
                    got = dom(decls, a)
                    res.instance(R, "%s::%s@%d" % (cls, name, x["l"][1]), facts.loc(x), "%s(%s): argument domain %s, expected %s" % (tbf.callee_name(x), facts.ntext(a), got or "unknown/raw", need))
                    if got is not None and got != need:
                        res.violation(R, tbf.rel(facts.path_of(x)), m["qname"], "%s@%d" % (tbf.callee_name(x), x["l"][1]), x["l"][1],
                                      "%s is applied to '%s', which is already a %s index (returned by a function that converts): the index is converted twice and no longer names the cell of the position" % (tbf.callee_name(x), facts.ntext(a), got))
    res.floor("C06.4", n, 2, "converter call sites")



# ---------------------------------------------------------------------------------------------- C06.6 grid-coordinate range
def grid_range(facts, res):
    """Interval analysis (exact real arithmetic, symbolic in box width W > 0 and cells per dimension N = 2^(height-1) >= 1) of
    position -> grid coordinate: for every relative position in the CLOSED interval [0, W] the returned coordinate lies in [0, N-1].
    A particle on the upper face is inside the box (closed) and must land in the last cell, not in a cell outside the grid."""
    import sympy
    R = "C06.6.grid-range"
    W = sympy.Symbol("W", positive=True)
    N = sympy.Symbol("N", integer=True, positive=True)
    h = sympy.Symbol("h", integer=True, positive=True)
    # the leaf width is the box width divided by 2^(height-1): read from the configuration class
    conf = facts.cls("TbfSpacialConfiguration")
    ctor = [m for m in facts.methods_of("TbfSpacialConfiguration") if m["kind"] == "CXXConstructor" and tbf.body(m) is not None and len(m["params"]) >= 3]
    acc = [m for m in facts.methods_of("TbfSpacialConfiguration") if m["name"] == "getLeafWidths" and tbf.body(m) is not None]
    if not ctor or len(acc) != 1:
        raise AnalysisBroken("TbfSpacialConfiguration: constructor / getLeafWidths not found")
    fld = re.search(r"return(\w+);", facts.ntext(tbf.body(acc[0])))
    ini = [i for i in ctor[0].get("inits", []) if fld and i.get("member") == fld.group(1)]
    init_txt = " ".join(facts.ntext(c) for c in ini[0].get("c", []) if c) if ini else ""
    wdid, hdid = ctor[0]["params"][1]["did"], ctor[0]["params"][0]["did"]

    def sym(nd):
        """exact value of a scalar expression over the constructor's height parameter (casts are transparent, << is a power of two)"""
        nd = strip(nd)
        k = nd.get("k")
        if k == "IntegerLiteral":
            return sympy.Integer(nd["val"])
        if k == "FloatingLiteral":
            return sympy.nsimplify(nd["val"])
        if k == "DeclRefExpr" and nd.get("did") == hdid:
            return h
        if k in ("CXXStaticCastExpr", "CStyleCastExpr", "CXXFunctionalCastExpr", "CXXUnresolvedConstructExpr") and len(kids(nd)) == 1:
            return sym(kids(nd)[0])
        if k == "UnaryOperator" and nd.get("op") == "-":
            return -sym(kids(nd)[0])
        if k == "BinaryOperator" and nd.get("op") in ("+", "-", "*", "/", "<<"):
            a, b = sym(kids(nd)[0]), sym(kids(nd)[1])
            return {"+": lambda: a + b, "-": lambda: a - b, "*": lambda: a * b, "/": lambda: a / b, "<<": lambda: a * 2 ** b}[nd["op"]]()
        if k in ("CallExpr",) and tbf.callee_name(nd) in ("pow", "ldexp") and len(tbf.call_args(nd)) == 2:
            a, b = [sym(x_) for x_ in tbf.call_args(nd)]
            return a ** b if tbf.callee_name(nd) == "pow" else a * 2 ** b
        raise AnalysisBroken("TbfSpacialConfiguration: leaf width initialiser not understood: %s" % facts.ntext(nd)[:80])

    scale = None
    for c in (ini[0].get("c", []) if ini else []):
        for x_ in walk(c):
            if x_.get("k") == "CallExpr" and tbf.callee_name(x_) == "MulToVec" and len(tbf.call_args(x_)) == 2:
                a0 = strip(tbf.call_args(x_)[0])
                if a0.get("k") == "DeclRefExpr" and a0.get("did") == wdid:
                    scale = sym(tbf.call_args(x_)[1])
    if scale is None:
        raise AnalysisBroken("TbfSpacialConfiguration: leaf width is not initialised as (box widths) x (a factor): %s" % init_txt[:120])
    if sympy.simplify(scale - 1 / sympy.Integer(2) ** (h - 1)) != 0:
        res.violation(R, tbf.rel(facts.path_of(ctor[0])), ctor[0]["qname"], "leaf-width", ctor[0]["l"][1],
                      "the leaf width is the box width times %s, not the box width / 2^(height-1): positions no longer map onto the 2^(height-1) cells per dimension" % scale)
    res.instance(R, "leaf width", facts.loc(ctor[0]), "leaf width = box width / 2^(height-1)  (%s)" % init_txt[:80])

    def norm(e):
        return sympy.simplify(sympy.sympify(e).subs(2 ** (h - 1), N).subs(2 ** h, 2 * N))

    Q = sympy.Symbol("q", integer=True, nonnegative=True)     # the abstract cell number floor(x / leaf width) of the position

    class Iv:
        def __init__(self, lo, hi, hi_open=False, integer=False, q=None, kind=None):
            self.lo, self.hi, self.hi_open, self.integer = norm(lo), norm(hi), hi_open, integer
            self.q = q          # the value as a function of q (None: not a function of the cell number this analysis follows)
            self.kind = kind    # "x": the relative position itself; "quot": x / leaf width (real)

        def __repr__(self):
            return "[%s, %s%s" % (self.lo, self.hi, ")" if self.hi_open else "]")

    def point(e, integer=False):
        return Iv(e, e, False, integer, q=norm(e) if integer else None)

    def caller_form(cls_):
        """how getIndexFromPosition forms the relative position it hands to getTreeCoordinate: 'corner' (x - corner) or 'centre'"""
        sub_ = tbf.Result("C06")
        try:
            relative_position(facts, sub_)
        except AnalysisBroken:
            return "corner"
        return getattr(relative_position, "form", {}).get(cls_, "corner")

    class _Reciprocal(Exception):
        def __init__(self, node, getter):
            Exception.__init__(self, getter)
            self.node, self.getter = node, getter

    def _is_reciprocal_member(getter):
        """the configuration's accessor returns a member its constructor fills with 1 / something (directly or through a helper of the class)"""
        gs = [m for m in facts.methods_of("TbfSpacialConfiguration") if m["name"] == getter and tbf.body(m) is not None]
        if len(gs) != 1:
            return False
        mf = re.search(r"return(\w+);", facts.ntext(tbf.body(gs[0])))
        if not mf:
            return False
        roots = [c for i in ctor[0].get("inits", []) if i.get("member") == mf.group(1) for c in i.get("c", []) if c]
        seen = set()
        while roots:
            r = roots.pop()
            for y in walk(r):
                if y.get("k") == "BinaryOperator" and y.get("op") == "/":
                    a0 = strip(kids(y)[0])
                    while a0.get("k", "").endswith("CastExpr") or a0.get("k") in ("CXXUnresolvedConstructExpr", "ParenExpr", "CXXFunctionalCastExpr"):
                        if len(kids(a0)) != 1:
                            break
                        a0 = strip(kids(a0)[0])
                    if a0.get("k") in ("IntegerLiteral", "FloatingLiteral") and float(a0.get("val", 0)) == 1.0:
                        return True
                if y.get("k") in ("CallExpr", "CXXMemberCallExpr"):
                    nm = tbf.callee_name(y)
                    for g in facts.methods_of("TbfSpacialConfiguration"):
                        if g["name"] == nm and tbf.body(g) is not None and id(g) not in seen:
                            seen.add(id(g))
                            roots.append(tbf.body(g))
        return False

    n = 0
    for cls in ("TbfMortonSpaceIndex", "TbfHilbertSpaceIndex"):
        ms = [m for m in facts.methods_of(cls) if m["name"] == "getTreeCoordinate" and tbf.body(m) is not None and not m.get("inst")]
        if len(ms) != 1:
            raise AnalysisBroken("%s::getTreeCoordinate not found" % cls)
        fn = ms[0]
        fm = stages.FnModel(facts, fn)
        xdid = fn["params"][0]["did"]
        rets = []

        def ev(nd, x, depth=0):
            nd = strip(nd)
            k = nd.get("k")
            if depth > 12:
                raise AnalysisBroken("%s: expression too deep" % fn["qname"])
            if k == "IntegerLiteral":
                return point(nd["val"], True)
            if k == "FloatingLiteral":
                return point(sympy.nsimplify(nd["val"]))
            if k == "DeclRefExpr":
                if nd.get("did") == xdid:
                    x.kind = "x"
                    return x
                d = fm.decls.get(nd.get("did"))
                if d is not None and d.get("k") == "VarDecl" and kids(d) and nd["did"] not in fm.assigned:
                    return ev(kids(d)[0], x, depth + 1)
                raise AnalysisBroken("%s: value of '%s' not understood by the range analysis" % (facts.loc(nd), nd.get("name")))
            if k in ("CXXStaticCastExpr", "CStyleCastExpr", "CXXFunctionalCastExpr", "CXXUnresolvedConstructExpr"):
                v = ev(kids(nd)[0], x, depth + 1)
                t = (nd.get("tw") or nd.get("t") or "")
                if re.search(r"\b(long|int)\b", t) and not v.integer:
                    # truncation of a non-negative real: floor
                    lo = sympy.floor(v.lo) if v.lo != 0 else sympy.Integer(0)
                    if v.hi.is_integer:
                        hi = v.hi - 1 if v.hi_open else v.hi
                    else:
                        hi = v.hi        # floor(hi) <= hi
                    return Iv(lo, hi, False, True, q=Q if v.kind == "quot" else None)
                return v
            if k in ("ArraySubscriptExpr", "CXXOperatorCallExpr"):
                t = facts.ntext(nd)
                if re.search(r"getBoxWidths\(\)\[\w+\]$", t):
                    return point(W)
                if re.search(r"getLeafWidths\(\)\[\w+\]$", t):
                    return point(W / N)
                mg = re.search(r"\.(get\w+)\(\)\[\w+\]$", t)
                if mg and _is_reciprocal_member(mg.group(1)):
                    raise _Reciprocal(nd, mg.group(1))
                raise AnalysisBroken("%s: `%s` not understood by the range analysis" % (facts.loc(nd), t[:60]))
            if k in ("CallExpr", "CXXMemberCallExpr"):
                nm = tbf.callee_name(nd)
                args = tbf.call_args(nd)
                if nm == "getTreeHeight":
                    return point(h, True)
                if nm in ("min", "max") and len(args) == 2:
                    a, b = ev(args[0], x, depth + 1), ev(args[1], x, depth + 1)
                    f = sympy.Min if nm == "min" else sympy.Max
                    return Iv(f(a.lo, b.lo), f(a.hi, b.hi), a.hi_open and b.hi_open, a.integer and b.integer, q=f(a.q, b.q) if a.q is not None and b.q is not None else None)
                if nm in ("floor",) and len(args) == 1:
                    a = ev(args[0], x, depth + 1)
                    return Iv(sympy.floor(a.lo) if a.lo != 0 else 0, (a.hi - 1 if a.hi_open else a.hi) if a.hi.is_integer else a.hi, False, True, q=Q if a.kind == "quot" else None)
                cands = [g for g in facts.methods_of(cls) if g["name"] == nm and tbf.body(g) is not None and not g.get("inst") and len(g["params"]) == len(args)]
                if len(cands) == 1:
                    g = cands[0]
                    r = [s_ for s_ in kids(tbf.body(g)) if s_.get("k") == "ReturnStmt"]
                    if len(kids(tbf.body(g))) == 1 and len(r) == 1:
                        sub = {p["did"]: ev(a, x, depth + 1) for p, a in zip(g["params"], args)}
                        return ev_sub(kids(r[0])[0], sub, depth + 1)
                raise AnalysisBroken("%s: call of '%s' not understood by the range analysis" % (facts.loc(nd), nm))
            if k == "BinaryOperator":
                op = nd.get("op")
                a, b = ev(kids(nd)[0], x, depth + 1), ev(kids(nd)[1], x, depth + 1)
                if op == "<<" and a.lo == a.hi == 1 and b.lo == b.hi:
                    return point(2 ** b.lo, True)
                if op in ("+", "-") and b.lo == b.hi:
                    f = (lambda u: u + b.lo) if op == "+" else (lambda u: u - b.lo)
                    return Iv(f(a.lo), f(a.hi), a.hi_open, a.integer and b.integer, q=f(a.q) if a.q is not None and b.integer else None)
                if op == "/" and b.lo == b.hi and b.lo.is_positive:
                    return Iv(a.lo / b.lo, a.hi / b.lo, a.hi_open, False, kind="quot" if a.kind == "x" and sympy.simplify(b.lo - W / N) == 0 else None)
                if op == "*" and b.lo == b.hi and b.lo.is_positive:
                    return Iv(a.lo * b.lo, a.hi * b.lo, a.hi_open, a.integer and b.integer, q=a.q * b.lo if a.q is not None and b.integer else None,
                              kind="quot" if a.kind == "x" and sympy.simplify(b.lo - N / W) == 0 else None)
                if op in ("&", "%") and a.integer and b.integer and b.lo == b.hi:
                    # an integer reduced onto [0, m): the mask form needs m = mask + 1 to be a power of two, which N = 2^(height-1) and literals 2^k are
                    m = norm(b.lo + 1) if op == "&" else b.lo
                    pow2 = m == N or m == 2 * N or (m.is_Integer and m > 0 and (int(m) & (int(m) - 1)) == 0)
                    if op == "%" or pow2:
                        return Iv(0, m - 1, False, True, q=sympy.Mod(a.q, m) if a.q is not None else None)
            raise AnalysisBroken("%s: `%s` not understood by the range analysis" % (facts.loc(nd), facts.ntext(nd)[:60]))

        def ev_sub(nd, sub, depth):
            nd2 = strip(nd)
            if nd2.get("k") == "DeclRefExpr" and nd2.get("did") in sub:
                return sub[nd2["did"]]
            if nd2.get("k") == "BinaryOperator":
                # re-use ev with parameters bound: evaluate children through ev_sub
                op = nd2.get("op")
                a, b = ev_sub(kids(nd2)[0], sub, depth + 1), ev_sub(kids(nd2)[1], sub, depth + 1)
                if op == "<<" and a.lo == a.hi == 1 and b.lo == b.hi:
                    return point(2 ** b.lo, True)
                if op in ("+", "-") and b.lo == b.hi:
                    f = (lambda u: u + b.lo) if op == "+" else (lambda u: u - b.lo)
                    return Iv(f(a.lo), f(a.hi), a.hi_open, a.integer and b.integer)
            if nd2.get("k") in ("CXXFunctionalCastExpr", "CXXUnresolvedConstructExpr", "CXXStaticCastExpr", "ParenExpr") and len(kids(nd2)) == 1:
                return ev_sub(kids(nd2)[0], sub, depth + 1)
            return ev(nd, Iv(0, W), depth + 1)

        def run(s, x):
            """returns False when every path returned"""
            if s is None:
                return True
            k = s.get("k")
            if k == "CompoundStmt":
                for c in kids(s):
                    if not run(c, x):
                        return False
                return True
            if k == "ReturnStmt":
                rets.append((s, ev(kids(s)[0], x), x))
                return False
            if k == "IfStmt":
                c = s["c"]
                cond, then, els = (c[-3], c[-2], c[-1]) if len(c) >= 3 else (c[0], c[1], None)
                cd = strip(cond)
                xt, xe = x, x
                if cd.get("k") == "BinaryOperator" and cd.get("op") in ("==", ">=", "<", ">", "<=") and any(strip(z).get("did") == xdid for z in kids(cd)):
                    other = [z for z in kids(cd) if strip(z).get("did") != xdid][0]
                    e = ev(other, x)
                    op = cd["op"]
                    if strip(kids(cd)[1]).get("did") == xdid:
                        op = {"==": "==", ">=": "<=", "<=": ">=", "<": ">", ">": "<"}[op]
                    if e.lo == e.hi and sympy.simplify(e.lo - x.hi) == 0 and not x.hi_open:
                        if op in ("==", ">="):
                            xt, xe = point(e.lo), Iv(x.lo, x.hi, True)
                        elif op == "<":
                            xt, xe = Iv(x.lo, x.hi, True), point(e.lo)
                    elif e.lo == e.hi and op in (">=", ">", "<", "<=") and all((e.lo - x.lo).subs(g_) > 0 and (x.hi - e.lo).subs(g_) > 0 for g_ in ({N: 4, W: 1}, {N: 1024, W: sympy.Rational(7, 2)})):
                        # a threshold strictly inside the interval: split there (an open lower end is not tracked: [c, hi] for both > and >=)
                        below, above = Iv(x.lo, e.lo, op in (">=", "<")), Iv(e.lo, x.hi, x.hi_open)
                        xt, xe = (above, below) if op in (">=", ">") else (below, above)
                        for z_ in (xt, xe):
                            z_.kind = x.kind
                a = run(then, xt)
                b = run(els, xe) if els is not None else True
                if not a and not b:
                    return False
                x.lo, x.hi, x.hi_open = (xe.lo, xe.hi, xe.hi_open) if (not a and b) else (x.lo, x.hi, x.hi_open)
                return True
            if k in ("DeclStmt", "NullStmt", "ParenExpr") or (k == "CXXStaticCastExpr"):
                return True
            e = strip(s)
            if e.get("k") in ("ParenExpr", "CXXStaticCastExpr", "CallExpr") :
                return True      # assert(...) expands to a void expression
            raise AnalysisBroken("%s: statement not understood by the range analysis: %s" % (facts.loc(s), facts.ntext(s)[:60]))
        try:
            run(fm.body, Iv(0, W))
        except _Reciprocal as e_:
            n += 1
            res.instance("C06.6.cell-of-position", "%s reciprocal" % fn["qname"], facts.loc(e_.node), "uses a stored reciprocal (%s)" % e_.getter)
            res.violation("C06.6.cell-of-position", tbf.rel(facts.path_of(e_.node)), fn["qname"], "reciprocal:%s" % cls, e_.node["l"][1],
                          "the grid coordinate is computed from the position times `%s`, a member the configuration fills with 1 / (a width): the stored reciprocal is rounded, so for a position on an interior face of the grid (x = k x leaf width) the product can fall one ulp below k and truncate to k-1 - for some box widths (not the powers of two) the particle is stored in the leaf below the one that contains it; "
                          "divide by the leaf width" % facts.ntext(e_.node)[:60])
            continue
        if not rets:
            raise AnalysisBroken("%s: no return reached" % fn["qname"])
        for s_, iv, xs in rets:
            n += 1
            res.instance(R, "%s return@%d" % (fn["qname"], s_["l"][1]), facts.loc(s_), "relative position in %s -> coordinate in %s (N = cells per dimension)" % (xs, iv))
            over = norm(iv.hi - (N - 1))
            under = norm(iv.lo)
            grid = [{N: v, W: w} for v in (1, 2, 4, 1024) for w in (1, sympy.Rational(7, 2))]
            too_high = any(over.subs(g) > 0 for g in grid)
            too_low = any(under.subs(g) < 0 for g in grid)
            if too_high or too_low:
                res.violation(R, tbf.rel(facts.path_of(s_)), fn["qname"], "return@%d" % s_["l"][1], s_["l"][1],
                              "for a relative position in %s the returned grid coordinate ranges over %s, outside [0, N-1] (N = 2^(height-1) cells per dimension): a particle inside the closed box is put in a leaf outside the grid" % (xs, iv))
                continue
            # the cell CONTAINS the position: as a function of the abstract cell number q = floor(x / leaf width) (q = N exactly on the upper
            # face, which belongs to the last cell) the returned coordinate is min(q, N-1), for every q the path admits
            R2 = "C06.6.cell-of-position"
            if iv.q is None:
                raise AnalysisBroken("%s: the returned coordinate `%s` is not a function of floor(position / leaf width) this analysis can follow" % (facts.loc(s_), facts.ntext(kids(s_)[0])[:60]))
            if sympy.simplify(xs.lo) == 0 and sympy.simplify(xs.hi - W) == 0:
                qr = lambda nv: range(0, nv if xs.hi_open else nv + 1)
            elif sympy.simplify(xs.lo - W) == 0 and sympy.simplify(xs.hi - W) == 0:
                qr = lambda nv: range(nv, nv + 1)
            else:
                raise AnalysisBroken("%s: path condition %s on the position is not one of [0,W), [0,W], {W}" % (facts.loc(s_), xs))
            res.instance(R2, "%s return@%d" % (fn["qname"], s_["l"][1]), facts.loc(s_), "coordinate = %s for q = floor(x / leaf width), position in %s" % (iv.q, xs))
            bad = None
            for nv in (1, 2, 4, 8, 16):
                for qv in qr(nv):
                    got = sympy.simplify(sympy.sympify(iv.q).subs({Q: qv, N: nv, h: sympy.log(nv, 2) + 1}))
                    if got != min(qv, nv - 1) and bad is None:
                        bad = (nv, qv, got)
            if bad:
                nv, qv, got = bad
                res.violation(R2, tbf.rel(facts.path_of(s_)), fn["qname"], "cell@%d" % s_["l"][1], s_["l"][1],
                              "with %d cells per dimension a position %s is given the grid coordinate %s instead of %d: the particle is stored in a leaf that does not contain it (its stored position stays where it was), so expansions are evaluated outside the leaf and, in periodic mode, the +-box-width shift is applied relative to the wrong cell"
                              % (nv, ("on the upper face of the box (x = box width)" if qv == nv else "with floor(x / leaf width) = %d" % qv), got, min(qv, nv - 1)))
        # the same analysis with the relative position allowed to exceed the box width by a rounding error: the relative position is
        # x - fl(centre - width/2), and the rounded corner can lie below the true one, so a particle inside the closed box (x <= upper face)
        # can arrive here with a relative position one ulp ABOVE the width - which an `== width` test does not catch
        R3 = "C06.6.rounded-corner"
        if caller_form(cls) == "centre":
            res.instance(R3, "%s" % fn["qname"], facts.loc(fn), "the caller hands over (x - centre) + width/2, which stays in [0, width] under rounding: no slack to consider")
            continue
        del rets[:]
        dlt = sympy.Rational(1, 2 ** 20)
        run(fm.body, Iv(0, W * (1 + dlt)))
        worst = None
        for s_, iv, xs in rets:
            over = norm(iv.hi - (N - 1))
            if any(over.subs(g) > 0 for g in [{N: v, W: w} for v in (1, 2, 4, 1024) for w in (1, sympy.Rational(7, 2))]):
                worst = (s_, iv, xs)
        res.instance(R3, "%s" % fn["qname"], facts.loc(fn), "relative position in [0, W(1+delta)]: %s" % ("a coordinate above N-1 is reachable" if worst else "every return stays in [0, N-1]"))
        if worst:
            s_, iv, xs = worst
            res.violation(R3, tbf.rel(facts.path_of(s_)), fn["qname"], "beyond-face:%s" % cls, s_["l"][1],
                          "a relative position that exceeds the box width by a rounding error (x - fl(centre - width/2) for a particle ON or one ulp below the upper face, when the rounded corner lies below the true corner) "
                          "is not caught by the upper-face test and returns a coordinate in %s: one past the grid (the leaf index is then >= the level's upper bound), and `assert(relative position <= width)` fails with assertions on" % (iv,))
    res.floor(R, n, 2, "returns of getTreeCoordinate")


# ---------------------------------------------------------------------------------------------- C06.7 relative position in the wider type
def relative_position(facts, res):
    """position -> leaf: the box corner is subtracted from the particle's coordinate BEFORE anything converts that coordinate to
    the tree's coordinate type.  The particle data type may be wider than the coordinate type (double data in a float tree); the
    relative position is small and survives the conversion, the absolute coordinate of a box away from the origin does not."""
    R = "C06.7.relative-position"
    n = 0
    for cls in ("TbfMortonSpaceIndex", "TbfHilbertSpaceIndex"):
        ms = [m for m in facts.methods_of(cls) if m["name"] == "getIndexFromPosition" and tbf.body(m) is not None and not m.get("inst")]
        if len(ms) != 1:
            raise AnalysisBroken("%s::getIndexFromPosition not found" % cls)
        fn = ms[0]
        # the conversion to the tree's coordinate type happens where the relative position enters getTreeCoordinate: its face test, its
        # division and the floor then all see the same value (a face test on a wider value than the one floored lets a position within
        # rounding of the upper face through, and the rounded quotient is one past the grid)
        tc = [m for m in facts.methods_of(cls) if m["name"] == "getTreeCoordinate" and tbf.body(m) is not None and not m.get("inst")]
        if len(tc) != 1:
            raise AnalysisBroken("%s::getTreeCoordinate not found" % cls)
        pt = tc[0]["params"][0].get("t", "").replace("const ", "").strip()
        res.instance(R, "%s::getTreeCoordinate parameter" % cls, facts.loc(tc[0]), "relative position taken as `%s`" % pt)
        n += 1
        if pt not in ("RealType", "typename ConfigurationClass::RealType", "TbfMortonSpaceIndex::RealType", "TbfHilbertSpaceIndex::RealType") and not pt.endswith("::RealType"):
            res.violation(R, tbf.rel(facts.path_of(tc[0])), tc[0]["qname"], "coordinate-type", tc[0]["l"][1],
                          "getTreeCoordinate takes the relative position as `%s`, not as the tree's coordinate type: with double particle data in a float tree the upper-face test sees the double value while the quotient is stored (rounded) in the coordinate type - a position within float rounding of the face is placed one cell past the grid" % pt)
        fm = stages.FnModel(facts, fn)
        pos = fn["params"][0]["did"]
        calls = [c for c in walk(fm.body) if c.get("k") in ("CallExpr", "CXXMemberCallExpr") and tbf.callee_name(c) == "getTreeCoordinate"]
        if len(calls) != 1:
            raise AnalysisBroken("%s: %d getTreeCoordinate calls (1 confirmed by reading)" % (fn["qname"], len(calls)))

        def follow(e, conv):
            """(expression, conversions to a non-deduced type met on the way) after following single-assignment locals and casts"""
            for _ in range(8):
                e = strip(e)
                k = e.get("k")
                if k in ("CXXStaticCastExpr", "CStyleCastExpr", "CXXFunctionalCastExpr", "CXXUnresolvedConstructExpr") and len(kids(e)) == 1:
                    conv = conv + [(e, e.get("tw") or e.get("t") or "?")]
                    e = kids(e)[0]
                    continue
                if k == "DeclRefExpr" and e.get("did") != pos:
                    d = fm.decls.get(e.get("did"))
                    if d is not None and d.get("k") == "VarDecl" and kids(d) and e["did"] not in fm.assigned:
                        t = d.get("t", "")
                        if "auto" not in t:
                            conv = conv + [(d, t)]
                        e = kids(d)[0]
                        continue
                break
            return strip(e), conv
        arg, conv0 = follow(tbf.call_args(calls[0])[0], [])
        centre_form = False
        if arg.get("k") == "BinaryOperator" and arg.get("op") == "+":
            # (coordinate - box centre) + box width / 2: the form that stays inside [0, width] under rounding (|x - centre| <= width/2 survives
            # the rounding of the subtraction because rounding is monotone and width/2 is exact, and so does the sum with width/2)
            a_, b_ = [follow(c_, [])[0] for c_ in kids(arg)]
            half = [z for z in (a_, b_) if "getBoxWidths" in fm.origin(z) and re.search(r"/2\b|\*0?\.5|/\(?RealType\(2", fm.origin(z).replace(" ", ""))]
            diff = [z for z in (a_, b_) if z.get("k") == "BinaryOperator" and z.get("op") == "-"]
            if len(half) == 1 and len(diff) == 1 and "getBoxCenter" in fm.origin(kids(diff[0])[1]):
                arg = diff[0]
                centre_form = True
        relative_position.form = getattr(relative_position, "form", {})
        relative_position.form[cls] = "centre" if centre_form else "corner"
        if arg.get("k") != "BinaryOperator" or arg.get("op") != "-":
            raise AnalysisBroken("%s: the argument of getTreeCoordinate is not `coordinate - box corner` (%s)" % (fn["qname"], facts.ntext(arg)[:80]))
        lhs, conv = follow(kids(arg)[0], [])
        from_pos = any(y.get("k") == "DeclRefExpr" and y.get("did") == pos for y in walk(lhs))
        rhs_txt = fm.origin(kids(arg)[1])
        n += 1
        res.instance(R, fn["qname"], facts.loc(arg), "relative position = %s - %s ; conversions of the coordinate before the subtraction: %s" % (fm.origin(lhs)[:60], rhs_txt[:60], [t for _x, t in conv] or "none"))
        if not from_pos:
            raise AnalysisBroken("%s: the minuend `%s` is not derived from the position parameter" % (fn["qname"], facts.ntext(lhs)[:80]))
        if ("getBoxCenter" if centre_form else "getBoxCorner") not in rhs_txt:
            res.violation(R, tbf.rel(facts.path_of(arg)), fn["qname"], "corner", arg["l"][1], "the relative position subtracts `%s`, not the box corner" % rhs_txt[:80])
        if conv:
            x, t = conv[0]
            res.violation(R, tbf.rel(facts.path_of(x)), fn["qname"], "converted-before-subtraction", x["l"][1],
                          "the particle's absolute coordinate is converted to `%s` before the box corner is subtracted: with a data type wider than the coordinate type and a box away from the origin the relative position loses the bits that select the leaf (the particle is stored in a leaf whose box does not contain it)" % t)
    res.floor(R, n, 2, "position -> index conversions")


def header_coordinates(facts, res):
    """C06.8: the grid coordinates stored in a cell / leaf header are the decoding of the index stored in the same header
    (the list builders and the kernels may read either).  Returns True when it holds (other rules rely on it)."""
    R = "C06.8.header-coordinates"
    n = 0
    ok = True
    for cls in ("TbfCellsContainer", "TbfParticlesContainer"):
        for fn in facts.methods_of(cls):
            b = tbf.body(fn)
            if b is None:
                continue
            tbf.link_parents(b)
            asg = [x for x in walk(b) if x.get("k") == "BinaryOperator" and x.get("op") == "=" and strip(kids(x)[0]).get("k") in ("MemberExpr", "CXXDependentScopeMemberExpr")
                   and strip(kids(x)[0]).get("name") in ("boxCoord", "spaceIndex")]
            for x in asg:
                lhs = strip(kids(x)[0])
                rec = facts.ntext(kids(lhs)[0])
                blk = x.get("_p")
                while blk is not None and blk.get("k") != "CompoundStmt":
                    blk = blk.get("_p")
                sib = [y for y in asg if y is not x and facts.ntext(kids(strip(kids(y)[0]))[0]) == rec and any(z is y for z in walk(blk))]
                f = tbf.rel(facts.path_of(x))
                if lhs["name"] == "spaceIndex":
                    if not any(strip(kids(y)[0])["name"] == "boxCoord" and (y["l"][1], y.get("b", 0)) > (x["l"][1], x.get("b", 0)) for y in sib):
                        ok = False
                        res.violation(R, f, fn["qname"], "index-without-coordinates@%s" % rec, x["l"][1], "`%s.spaceIndex` is written but the coordinates of the same header are not refreshed after it in the same block: header index and header coordinates disagree" % rec)
                    continue
                n += 1
                rhs = strip(kids(x)[1])
                arg = None
                if rhs.get("k") in ("CallExpr", "CXXMemberCallExpr") and tbf.callee_name(rhs) == "getBoxPosFromIndex" and len(tbf.call_args(rhs)) == 1:
                    arg = facts.ntext(strip(tbf.call_args(rhs)[0]))
                srcs = [facts.ntext(strip(kids(y)[1])) for y in sib if strip(kids(y)[0])["name"] == "spaceIndex" and (y["l"][1], y.get("b", 0)) < (x["l"][1], x.get("b", 0))]
                good = arg is not None and srcs and (arg == rec + ".spaceIndex" or arg == srcs[-1])
                res.instance(R, "%s::%s@%d" % (cls, fn["name"], x["l"][1]), facts.loc(x), "%s.boxCoord = decode(%s); index written just before from %s" % (rec, arg, srcs[-1:] or None))
                if not good:
                    ok = False
                    res.violation(R, f, fn["qname"], "coordinates-not-decoded@%s" % rec, x["l"][1],
                                  "`%s.boxCoord` is not getBoxPosFromIndex of the index stored in the same header just before (found `%s`): the per-group list builders and kernels that read the stored coordinates would use a different cell than the stored index names" % (rec, facts.ntext(rhs)[:120]))
        # accessors read exactly these fields of the item they are asked for
        pairs = {"TbfCellsContainer": (("getCellSpacialIndex", "spaceIndex"), ("getCellBoxCoord", "boxCoord")),
                 "TbfParticlesContainer": (("getLeafSpacialIndex", "spaceIndex"), ("getLeafBoxCoord", "boxCoord"))}[cls]
        for name, fld in pairs:
            ms = [m for m in facts.methods_of(cls) if m["name"] == name and tbf.body(m) is not None]
            if len(ms) != 1:
                raise AnalysisBroken("%s::%s not found" % (cls, name))
            rets = [r for r in walk(tbf.body(ms[0])) if r.get("k") == "ReturnStmt"]
            t = facts.ntext(strip(kids(rets[0])[0])) if len(rets) == 1 and kids(rets[0]) else ""
            par = ms[0]["params"][0]["name"] if ms[0].get("params") else "?"
            n += 1
            res.instance(R, "%s::%s" % (cls, name), facts.loc(ms[0]), "returns %s" % t)
            if not re.match(r"^objectData\.(template ?)?getViewerForBlock(Const)?<1>\(\)\.getItem\(%s\)\.%s$" % (re.escape(par), fld), t):
                ok = False
                res.violation(R, tbf.rel(facts.path_of(ms[0])), ms[0]["qname"], "accessor:" + name, ms[0]["l"][1], "%s does not return the `%s` field of header `%s` of block 1 (found `%s`)" % (name, fld, par, t[:120]))
    res.floor(R, n, 6, "header coordinate writes and accessors")
    return ok


def leaf_assignment(facts, res):
    """C06.9: the leaf a particle is stored in is decided by the sorter: particles are sorted by the index getIndexFromPosition gave them and
    leaves are cut where that same key changes (rule C07.5, same engine; a packed integer key must keep every bit of the index)"""
    import c07
    sub = tbf.Result("C07")
    c07.sort_key(facts, sub)
    R = "C06.9.leaf-assignment"
    n = 0
    for i in sub.instances:
        if i["rule"] == "C07.5.sorted-leaves":
            n += 1
            res.instance(R, i["key"], i["at"], i["detail"])
    for v in sub.violations:
        if v["rule"] == "C07.5.sorted-leaves":
            res.violation(R, v["file"], v["function"], v["key"], v["line"], v["msg"])
    res.floor(R, n, 1, "sorter key facts")


def run(res, tier):
    facts = tbf.scan("core")
    res.units.append("umbrella TU 'core': TbfMemoryBlock, group constructors, shipped kernels, ordering classes; witnesses c06_narrow, c06_probe")
    res.rule("C06.1 group memory allocated only in resetBlocksFromSizes; memset(all) unconditionally between (re)allocation and constructAllItems (value-init); group constructors size every block through it; rhs = RhsType()")
    res.rule("C06.2 -Wconversion witness <real=float,data=double,...>: no narrowing diagnostic under src/core or src/containers")
    res.rule("C06.3 probe kernel through 6 executor classes: headers const, particle data pointers-to-const at every operator; const_cast in shipped kernels only into const callee parameters")
    res.rule("C06.4 Morton<->curve domain typing in ordering classes with converters")
    zero_init(facts, res)
    res.rule("C06.11 a rebuilt tree is built like a fresh one: rebuild() starts from empty containers and creates every group through the same zero-initialising constructors, with the same arguments, as the tree's constructor (rules C13.3 / C13.4) - a group carried over from before the rebuild keeps the expansions of the previous execution")
    import c13
    sub13 = tbf.Result("C13")
    ok13 = tbf.donor_run(res, c13, sub13)
    k13 = 0
    for i in sub13.instances:
        if i["rule"].startswith(("C13.3", "C13.4")):
            k13 += 1
    for v in sub13.violations:
        if v["rule"].startswith(("C13.3", "C13.4")):
            res.violation("C06.11.rebuild-constructs-afresh", v["file"], v["function"], v["key"], v["line"], v["msg"])
    res.instance("C06.11.rebuild-constructs-afresh", "TbfTree::rebuild vs constructor", "src/core/tbftree.hpp", "%d construction / reset facts compared" % k13)
    if ok13:
        res.floor("C06.11", k13, 20, "construction facts of rebuild()")
    res.rule("C06.5 group constructor: slot p stores orig(p) = groupInfo.getParticleIndex(p) and the data row of input particle orig(p), value by value")
    copy_provenance(facts, res)
    res.rule("C06.6 grid range (interval analysis, exact arithmetic, symbolic in box width and cells per dimension): every relative position of the closed box maps to a coordinate in [0, N-1]")
    grid_range(facts, res)
    res.rule("C06.7 relative position: the box corner is subtracted from the particle's coordinate before any conversion of that coordinate to the tree's coordinate type")
    relative_position(facts, res)
    res.rule("C06.8 header coordinates: every write of a header's boxCoord is getBoxPosFromIndex of the index written to the same header just before; every index write is followed by a coordinates write; accessors return those fields")
    header_coordinates(facts, res)
    res.rule("C06.9 leaf assignment: particles are sorted by the index getIndexFromPosition gave them (a packed key must keep all 63 index bits, in order, above everything else - bit provenance) and leaves are cut where that key changes")
    leaf_assignment(facts, res)
    res.rule("C06.12 the leaf index stored for a particle is the exact interleave of its grid coordinates (rule C11.4 bit provenance of getIndexFromBoxPos / getBoxPosFromIndex for Dim 1..4): a conversion that drops or moves a bit files the particle under another cell's index")
    import c11 as _c11
    _sub = tbf.Result("C11")
    _c11.bit_laws(facts, _sub)
    tbf.reexport(res, _sub, ("C11.4",), "C06.12.index-of-coordinates", min_instances=8)
    res.rule("C06.10 row addressing: the pointer the accessors hand out for row v of a particle block is the viewer's own address of an item of row v, moved along that row only (the constructor writes value (p, v) at getItem(p, v); a hand-made row stride reads other bytes when it differs from the viewer's aligned leading dimension)")
    row_addressing(facts, res)
    narrowing(res, tier)
    k = constcast_lint(facts, res)
    curve_domains(facts, res)
    for comp in (("g++",) if tier == "quick" else ("g++", "clang++")):
        rc, err = tbf.compile_witness(PROBE_TU, compiler=comp, name="c06_probe.cpp", max_errors=8)
        res.instance("C06.3.probe-kernel", comp, "witness:c06_probe", "sequential, OpenMP, target/source x2, periodic top tree x2")
        if rc != 0:
            f, line, msg, _ = witness.first_src_error(err)
            allerr = [l for l in err.splitlines() if "static assertion" in l or "static_assert" in l]
            res.violation("C06.3.probe-kernel", f, "<witness c06_probe>", "%s:%d" % (f, line), line, "symbolic data reaches a kernel operator as mutable: " + ((allerr[0] if allerr else msg)[:300]))
