"""`bitdep` engine: abstract interpretation of integer code over a per-bit provenance domain.

Each of the 64 bits of a value is 0, 1, or a pair (set of input bits it may depend on, exact?) where
`exact` means "is a copy of that single input bit".  Shifts by constants move entries, masks with
constants select them, or/xor/and/add combine them (anything that is not a plain copy becomes
inexact).  Template parameters are instantiated to concrete integers by the caller (Dim = 1..4),
counted loops run concretely, loops whose condition depends on the data are unrolled a fixed number
of times (64: every shipped loop consumes at least one bit per turn) and *their termination is not
decided*.  No solver, no path enumeration: one pass per function, joins at data-dependent branches.
"""
import tbf
from tbf import kids, strip, AnalysisBroken

W = 64
M = (1 << W) - 1


class Unknown:
    def __init__(self, why=""):
        self.why = why

    def __repr__(self):
        return "Unknown(%s)" % self.why


class Undefined(Unknown):
    """a value the language leaves undefined for a valid input (over-wide shift, ...)"""


class Bits:
    __slots__ = ("b",)

    def __init__(self, b):
        self.b = list(b)

    @staticmethod
    def input(name, width):
        return Bits([(frozenset([(name, k)]), True) if k < width else 0 for k in range(W)])

    @staticmethod
    def const(v):
        v &= M
        return Bits([(v >> k) & 1 for k in range(W)])

    def __eq__(self, o):
        return isinstance(o, Bits) and self.b == o.b


def as_bits(v):
    if isinstance(v, Bits):
        return v
    if isinstance(v, bool):
        return Bits.const(int(v))
    if isinstance(v, int):
        return Bits.const(v)
    raise TypeError


def _sym(*es):
    d = frozenset()
    for e in es:
        if isinstance(e, tuple):
            d |= e[0]
    return (d, False)


def e_and(a, b):
    if a == 0 or b == 0:
        return 0
    if a == 1:
        return b
    if b == 1:
        return a
    if a == b and a[1]:
        return a
    return _sym(a, b)


def e_or(a, b):
    if a == 0:
        return b
    if b == 0:
        return a
    if a == 1 or b == 1:
        return 1
    if a == b and a[1]:
        return a
    return _sym(a, b)


def e_xor(a, b):
    if a == 0:
        return b
    if b == 0:
        return a
    if a == 1 and b == 1:
        return 0
    if a == b and isinstance(a, tuple) and a[1]:
        return 0
    return _sym(a, b)


def e_not(a):
    if a == 0:
        return 1
    if a == 1:
        return 0
    return _sym(a)


def v_map2(f, a, b):
    a, b = as_bits(a), as_bits(b)
    return Bits([f(x, y) for x, y in zip(a.b, b.b)])


def v_shl(a, n):
    a = as_bits(a)
    if n >= W:
        return Bits([0] * W)
    return Bits([0] * n + a.b[:W - n])


def v_shr(a, n, signed=False):
    a = as_bits(a)
    fill = 0
    if signed and a.b[W - 1] != 0:
        fill = _sym(a.b[W - 1]) if a.b[W - 1] != 1 else 1
    if n >= W:
        return Bits([fill] * W)
    return Bits(a.b[n:] + [fill] * n)


def v_add(a, b, cin=0):
    a, b = as_bits(a), as_bits(b)
    out = []
    c = cin
    for x, y in zip(a.b, b.b):
        t = e_xor(x, y)
        out.append(e_xor(t, c))
        c = e_or(e_and(x, y), e_and(c, t))
    return Bits(out)


def v_not(a):
    return Bits([e_not(x) for x in as_bits(a).b])


def v_top(*vs):
    d = frozenset()
    for v in vs:
        if isinstance(v, Bits):
            for e in v.b:
                if isinstance(e, tuple):
                    d |= e[0]
    return Bits([(d, False)] * W)


def join(a, b):
    if isinstance(a, Unknown) or isinstance(b, Unknown):
        return a if isinstance(a, Unknown) else b
    if isinstance(a, list) and isinstance(b, list):
        return [join(x, y) for x, y in zip(a, b)]
    if isinstance(a, (int, bool)) and isinstance(b, (int, bool)) and not isinstance(a, Bits) and a == b:
        return a
    a, b = as_bits(a), as_bits(b)
    return Bits([x if x == y else _sym(x, y) if (isinstance(x, tuple) or isinstance(y, tuple)) else (frozenset(), False) for x, y in zip(a.b, b.b)])


def norm(v):
    """a Bits whose entries are all constants is a concrete integer"""
    if isinstance(v, Bits) and all(e == 0 or e == 1 for e in v.b):
        x = sum((1 << k) for k, e in enumerate(v.b) if e == 1)
        return x - (1 << W) if x >> (W - 1) else x
    return v


def guard_of(v):
    """the single input bit that decides whether v != 0, or None"""
    if isinstance(v, Bits):
        nz = [e for e in v.b if e != 0]
        if len(nz) == 1 and isinstance(nz[0], tuple) and nz[0][1]:
            return nz[0]
    return None


def mux(g, a, b):
    """value that equals a when the input bit g is 1 and b when it is 0"""
    if isinstance(a, Unknown) or isinstance(b, Unknown):
        return a if isinstance(a, Unknown) else b
    if isinstance(a, list) and isinstance(b, list):
        return [mux(g, x, y) for x, y in zip(a, b)]
    if not isinstance(a, Bits) and not isinstance(b, Bits) and a == b:
        return a
    a, b = as_bits(a), as_bits(b)
    out = []
    for x, y in zip(a.b, b.b):
        if x == y:
            out.append(x)
        elif x == 1 and y == 0:
            out.append(g)
        elif x == g and y == 0:
            out.append(g)          # g ? g : 0
        elif x == 1 and y == g:
            out.append(g)          # g ? 1 : g
        else:
            out.append(_sym(x, y, g))
    return Bits(out)


class NonTerminating(Exception):
    """the loop condition is constantly true and the state no longer changes"""

    def __init__(self, node, turns):
        Exception.__init__(self, "loop cycles")
        self.node = node
        self.turns = turns


def srange(v, signed=True):
    """[lo, hi] of the values a Bits / int can take"""
    if not isinstance(v, Bits):
        return (int(v), int(v))
    lo = sum((1 << k) for k, e in enumerate(v.b[:W - 1]) if e == 1)
    hi = sum((1 << k) for k, e in enumerate(v.b[:W - 1]) if e != 0)
    top = v.b[W - 1]
    if not signed:
        return (lo + ((1 << (W - 1)) if top == 1 else 0), hi + ((1 << (W - 1)) if top != 0 else 0))
    if top == 0:
        return (lo, hi)
    if top == 1:
        return (lo - (1 << (W - 1)), hi - (1 << (W - 1)))
    return (lo - (1 << (W - 1)), hi)


class Ref:
    """a reference bound to an element of an array (range-for variable)"""
    __slots__ = ("cont", "key")

    def __init__(self, cont, key):
        self.cont, self.key = cont, key


class Interp:
    """one abstract run of a function pattern; consts: name -> int for template parameters / static members"""

    def __init__(self, facts, consts, opaque=(), unroll=W, cls=None):
        self.facts = facts
        self.consts = consts
        self.opaque = set(opaque)
        self.opaque_calls = []     # (name, [arg values])
        self.unroll = unroll
        self.cls = cls
        self.unrolled = []         # loops whose condition was data-dependent
        self._slices = {}
        self.loop_status = {}      # id(loop) -> (node, "exits" | "capped" | "cycles", turns)
        self.depth = 0

    # ---- entry
    def call(self, fn, args):
        env = {}
        for p, a in zip(fn["params"], args):
            env[p["did"]] = a
        rets = []
        self.depth += 1
        if self.depth > 8:
            raise AnalysisBroken("bitdep: inlining depth exceeded at %s" % fn["qname"])
        live = self.exec(tbf.body(fn), env, rets)
        self.depth -= 1
        if not rets:
            return None
        r = rets[0]
        for x in rets[1:]:
            r = join(r, x)
        return r

    def bad(self, n, what):
        raise AnalysisBroken("%s: bit-provenance engine: %s: %s" % (self.facts.loc(n), what, self.facts.ntext(n)[:80]))

    # ---- statements; returns False when control cannot continue (returned on every path)
    def exec(self, s, env, rets):
        if s is None:
            return True
        k = s.get("k")
        if k == "CompoundStmt":
            for c in kids(s):
                if not self.exec(c, env, rets):
                    return False
            return True
        if k == "DeclStmt":
            for v in kids(s):
                if v.get("k") != "VarDecl":
                    continue
                init = kids(v)
                t = v.get("t", "")
                if "array<" in t or "[" in t:
                    n = self.array_len(t, v)
                    if init and strip(init[0]).get("k") not in ("InitListExpr", "CXXConstructExpr", "ParenListExpr"):
                        env[v["did"]] = self.eval(init[0], env)
                    else:
                        env[v["did"]] = [Unknown("uninitialised")] * n
                        if init and strip(init[0]).get("k") == "InitListExpr":
                            vals = [self.eval(x, env) for x in kids(strip(init[0]))]
                            env[v["did"]] = (vals + [0] * n)[:n]
                elif init:
                    env[v["did"]] = self.eval(init[0], env)
                else:
                    env[v["did"]] = Unknown("uninitialised")
            return True
        if k == "ReturnStmt":
            rets.append(self.eval(kids(s)[0], env) if kids(s) else None)
            return False
        if k == "IfStmt":
            c = s["c"]
            cond = self.eval(c[-3] if len(c) >= 3 else c[0], env)
            then, els = (c[-2], c[-1]) if len(c) >= 3 else (c[1], None)
            cond = norm(cond)
            g = guard_of(cond)
            if isinstance(cond, Bits):
                cond = Unknown("data")
            if not isinstance(cond, Unknown):
                return self.exec(then if cond else els, env, rets)
            e1, e2 = self.copy(env), self.copy(env)
            l1 = self.exec(then, e1, rets)
            l2 = self.exec(els, e2, rets)
            if l1 and l2:
                for d in set(e1) | set(e2):
                    if d in e1 and d in e2:
                        env[d] = mux(g, e1[d], e2[d]) if g is not None else join(e1[d], e2[d])
            elif l1 or l2:
                env.clear()
                env.update(e1 if l1 else e2)
            return l1 or l2
        if k in ("ForStmt", "WhileStmt"):
            if k == "ForStmt":
                init, cond, inc, body = s["c"]
                self.exec(init, env, rets)
            else:
                cond, body = s["c"][-2], s["c"][-1]
                inc = None
            turns = 0
            data_dependent = False
            last = None
            while True:
                c = norm(self.eval(cond, env)) if cond is not None else True
                if isinstance(c, (Unknown, Bits)):
                    data_dependent = True
                    if s not in self.unrolled:
                        self.unrolled.append(s)
                elif not c:
                    if data_dependent:
                        self.loop_status[id(s)] = (s, "exits", turns)
                    break
                elif turns > 2 * self.unroll:
                    sl = self.slice_of(s, cond, body, inc)
                    snap = repr(sorted((d, snapshot(v)) for d, v in env.items() if d in sl))
                    if snap == last:
                        self.loop_status[id(s)] = (s, "cycles", turns)
                        if getattr(self, "stop_on_cycle", False):
                            break
                        raise NonTerminating(s, turns)
                    last = snap
                # a loop whose exit depends on the data is followed while it may continue, `4*unroll` turns at most
                if data_dependent and turns >= 4 * self.unroll:
                    self.loop_status[id(s)] = (s, "capped", turns)
                    break
                turns += 1
                if turns > 4096:
                    self.bad(s, "loop does not terminate under the abstract run")
                if not self.exec(body, env, rets):
                    return False
                if inc is not None:
                    self.eval(inc, env)
            return True
        if k == "CXXForRangeStmt":
            var, rng, body = s["c"][0], s["c"][1], s["c"][-1]
            cont, key = self.lval(rng, env)
            arr = cont.get(key) if isinstance(cont, dict) else cont[key]
            if not isinstance(arr, list) or var is None or var.get("k") != "VarDecl":
                self.bad(s, "range-for over something that is not a local array")
            byref = var.get("t", "").rstrip().endswith("&")
            for i in range(len(arr)):
                env[var["did"]] = Ref(arr, i) if byref else arr[i]
                if not self.exec(body, env, rets):
                    return False
            return True
        if k == "NullStmt":
            return True
        if k in ("BreakStmt", "ContinueStmt", "DoStmt", "SwitchStmt", "GotoStmt"):
            self.bad(s, "statement form not supported")
        # expression statement
        self.eval(s, env)
        return True

    def slice_of(self, loop, cond, body, inc):
        """variables the loop condition depends on through the assignments of the loop (syntactic backward slice)"""
        key = id(loop)
        if key in self._slices:
            return self._slices[key]
        from tbf import walk

        def reads(n):
            return set(x["did"] for x in walk(n) if isinstance(x, dict) and x.get("k") == "DeclRefExpr" and "did" in x) if n is not None else set()
        defs = []   # (target did, dids read)

        def rec(n, ctl):
            if n is None or not isinstance(n, dict):
                return
            k = n.get("k")
            if k == "IfStmt":
                c = n["c"]
                cnd = c[-3] if len(c) >= 3 else c[0]
                ctl2 = ctl | reads(cnd)
                for x in c:
                    if x is not cnd:
                        rec(x, ctl2)
                return
            if k in ("ForStmt", "WhileStmt", "DoStmt"):
                cs = [x for x in n["c"] if x is not None]
                ctl2 = set(ctl)
                for x in cs[:-1] if k != "DoStmt" else cs[1:]:
                    ctl2 |= reads(x)
                for x in cs:
                    rec(x, ctl2)
                return
            if k in ("BinaryOperator", "CompoundAssignOperator") and n.get("op", "").endswith("=") and n.get("op") not in ("==", "!=", "<=", ">="):
                l, r = kids(n)
                tg = [x for x in walk(l) if x.get("k") == "DeclRefExpr"]
                if tg:
                    defs.append((tg[0]["did"], reads(r) | reads(l) | ctl))
            if k == "UnaryOperator" and n.get("op") in ("++", "--"):
                tg = [x for x in walk(n) if x.get("k") == "DeclRefExpr"]
                if tg:
                    defs.append((tg[0]["did"], reads(n) | ctl))
            if k == "VarDecl" and kids(n):
                defs.append((n["did"], reads(kids(n)[0]) | ctl))
            for x in n.get("c", []) or []:
                rec(x, ctl)
        rec(body, set())
        rec(inc, set())
        sl = reads(cond)
        changed = True
        while changed:
            changed = False
            for t, rd in defs:
                if t in sl and not rd <= sl:
                    sl |= rd
                    changed = True
        self._slices[key] = sl
        return sl

    def copy(self, env):
        out = {d: (list(v) if isinstance(v, list) else v) for d, v in env.items()}
        for d, v in out.items():
            if isinstance(v, Ref):
                # re-point a reference into the copied array
                for d2, v2 in env.items():
                    if v2 is v.cont:
                        out[d] = Ref(out[d2], v.key)
        return out

    def array_len(self, t, n):
        import re
        m = re.search(r"array<[^,]+,\s*(\w+)>", t) or re.search(r"\[(\w+)\]", t)
        if not m:
            self.bad(n, "array length not understood in '%s'" % t)
        x = m.group(1)
        if x.isdigit():
            return int(x)
        if x in self.consts:
            return self.consts[x]
        self.bad(n, "array length '%s' is not a known constant" % x)

    # ---- lvalues: (container, key)
    def lval(self, n, env):
        n = strip(n)
        k = n.get("k")
        if k == "DeclRefExpr":
            v = env.get(n["did"])
            if isinstance(v, Ref):
                return v.cont, v.key
            return env, n["did"]
        if k == "ArraySubscriptExpr" or (k == "CXXOperatorCallExpr" and n.get("op") == "[]"):
            a, i = kids(n)[-2], kids(n)[-1]
            cont, key = self.lval(a, env)
            arr = cont.get(key) if isinstance(cont, dict) else cont[key]
            idx = self.eval(i, env)
            if not isinstance(arr, list) or isinstance(idx, (Unknown, Bits)):
                self.bad(n, "subscript of a non-array or with a data-dependent index")
            if not (0 <= idx < len(arr)):
                self.bad(n, "subscript %d outside the array of %d" % (idx, len(arr)))
            return arr, idx
        if k == "ParenExpr":
            return self.lval(kids(n)[0], env)
        self.bad(n, "assignment target not supported")

    def store(self, n, env, v):
        cont, key = self.lval(n, env)
        cont[key] = v

    # ---- expressions
    def eval(self, n, env):
        n = strip(n)
        k = n.get("k")
        if k == "IntegerLiteral":
            return int(n["val"])
        if k == "CXXBoolLiteralExpr":
            return bool(n.get("val"))
        if k == "DeclRefExpr":
            if n.get("name") in self.consts and n.get("did") not in env:
                return self.consts[n["name"]]
            if n.get("did") in env:
                v = env[n["did"]]
                return v.cont[v.key] if isinstance(v, Ref) else v
            self.bad(n, "value of '%s' unknown" % n.get("name"))
        if k in ("CXXFunctionalCastExpr", "CStyleCastExpr", "CXXStaticCastExpr", "CXXUnresolvedConstructExpr", "ParenExpr", "ImplicitCastExpr", "CXXConstructExpr", "MaterializeTemporaryExpr"):
            c = kids(n)
            if len(c) != 1:
                self.bad(n, "cast/constructor with %d operands" % len(c))
            v = self.eval(c[0], env)
            t = (n.get("tw") or n.get("t") or "").replace("const ", "").strip()
            if t in ("int", "unsigned int", "unsigned", "short", "char", "unsigned char", "unsigned short") and k != "ParenExpr":
                bits = {"int": 32, "unsigned int": 32, "unsigned": 32, "short": 16, "unsigned short": 16, "char": 8, "unsigned char": 8}[t]
                if isinstance(v, Bits):
                    top = v.b[bits - 1]
                    ext = 0 if t.startswith("unsigned") or top == 0 else (_sym(top) if top != 1 else 1)
                    return Bits(v.b[:bits] + [ext] * (W - bits))
                if isinstance(v, int) and not isinstance(v, bool):
                    v &= (1 << bits) - 1
                    if not t.startswith("unsigned") and v >> (bits - 1):
                        v -= 1 << bits
            return v
        if k in ("ArraySubscriptExpr",) or (k == "CXXOperatorCallExpr" and n.get("op") == "[]"):
            cont, key = self.lval(n, env)
            return cont[key]
        if k == "UnaryOperator":
            op = n.get("op")
            if op in ("++", "--"):
                cont, key = self.lval(kids(n)[0], env)
                old = cont[key]
                if not isinstance(old, int):
                    self.bad(n, "increment of a data value")
                cont[key] = old + (1 if op == "++" else -1)
                return old if n.get("postfix") else cont[key]
            v = self.eval(kids(n)[0], env)
            if isinstance(v, Unknown):
                return v
            if op == "~":
                if isinstance(v, Bits):
                    return v_not(v)
                ut = "unsigned" in (n.get("t") or "")
                return (~v) & M if ut else ~v
            if op == "-":
                return -v if isinstance(v, int) else v_add(v_not(v), 0, 1)
            if op == "!":
                return (not v) if not isinstance(v, Bits) else Unknown("data")
            if op == "+":
                return v
            self.bad(n, "unary operator")
        if k == "BinaryOperator":
            op = n.get("op")
            if op == "=":
                v = self.eval(kids(n)[1], env)
                self.store(kids(n)[0], env, list(v) if isinstance(v, list) else v)
                return v
            if op == ",":
                self.eval(kids(n)[0], env)
                return self.eval(kids(n)[1], env)
            a = self.eval(kids(n)[0], env)
            b = self.eval(kids(n)[1], env)
            return self.binop(n, op, a, b)
        if k == "CompoundAssignOperator":
            op = n["op"][:-1]
            a = self.eval(kids(n)[0], env)
            b = self.eval(kids(n)[1], env)
            v = self.binop(n, op, a, b)
            self.store(kids(n)[0], env, v)
            return v
        if k == "ConditionalOperator":
            c = self.eval(kids(n)[0], env)
            if isinstance(c, (Unknown, Bits)):
                return join(self.eval(kids(n)[1], env), self.eval(kids(n)[2], env))
            return self.eval(kids(n)[1 if c else 2], env)
        if k in ("CallExpr", "CXXMemberCallExpr"):
            nm = tbf.callee_name(n)
            args = [self.eval(a, env) for a in tbf.call_args(n)]
            if nm == "fill" and len(args) == 1 and kids(n) and strip(kids(n)[0]).get("k") in ("MemberExpr", "CXXDependentScopeMemberExpr") and kids(strip(kids(n)[0])):
                # std::array::fill on a local array: every element takes the value
                cont, key = self.lval(kids(strip(kids(n)[0]))[0], env)
                arr = cont.get(key) if isinstance(cont, dict) else cont[key]
                if isinstance(arr, list):
                    for i in range(len(arr)):
                        arr[i] = args[0]
                    return None
            if nm in self.opaque:
                tag = "%s#%d" % (nm, len(self.opaque_calls))
                self.opaque_calls.append((nm, tag, args))
                return Bits.input(tag, 63)
            cands = [g for g in self.facts.functions if g["name"] == nm and not g.get("inst") and tbf.body(g) is not None and len(g["params"]) == len(args)
                     and (g.get("cls") in (None, self.cls) or not self.cls)]
            if len(cands) > 1:
                cands = [g for g in cands if g.get("cls") == self.cls] or cands
            if len(cands) != 1:
                self.bad(n, "callee '%s' not resolved to one library function (%d candidates)" % (nm, len(cands)))
            return self.call(cands[0], [list(a) if isinstance(a, list) else a for a in args])
        self.bad(n, "expression form not supported (%s)" % k)

    def binop(self, n, op, a, b):
        if isinstance(a, Unknown) or isinstance(b, Unknown):
            other = b if isinstance(a, Unknown) else a
            if not isinstance(a, Undefined) and not isinstance(b, Undefined) and isinstance(other, bool) and (n.get("t") or "") in ("bool", "int"):
                if op in ("|", "||") and other is True:
                    return True
                if op in ("&", "&&") and other is False:
                    return False
            return a if isinstance(a, Undefined) else b if isinstance(b, Undefined) else Unknown("uses an unknown value")
        if isinstance(a, list) or isinstance(b, list):
            self.bad(n, "operator on a whole array")
        a, b = norm(a), norm(b)
        conc = not isinstance(a, Bits) and not isinstance(b, Bits)
        is_int = (n.get("t") or "") in ("int", "const int")
        if op in ("<", ">", "<=", ">=", "==", "!="):
            if conc:
                return {"<": a < b, ">": a > b, "<=": a <= b, ">=": a >= b, "==": a == b, "!=": a != b}[op]
            if op == "!=" and (a == 0 or b == 0) and not (isinstance(a, bool) or isinstance(b, bool)):
                g = guard_of(b if a == 0 else a)
                if g is not None:
                    return Bits([g] + [0] * (W - 1))
            ts = " ".join((x.get("t") or "") for x in kids(n))
            signed = not ("unsigned" in ts or "size_t" in ts)
            (alo, ahi), (blo, bhi) = srange(a, signed), srange(b, signed)
            if not signed and not isinstance(a, Bits):
                alo = ahi = a & M
            if not signed and not isinstance(b, Bits):
                blo = bhi = b & M
            if op in ("<", "<=", ">", ">="):
                if op in (">", ">="):
                    (alo, ahi), (blo, bhi), op = (blo, bhi), (alo, ahi), {">": "<", ">=": "<="}[op]
                if (ahi < blo) or (op == "<=" and ahi <= blo):
                    return True
                if (alo > bhi) or (op == "<" and alo >= bhi):
                    return False
            elif ahi < blo or bhi < alo:
                return op == "!="
            return Unknown("data-dependent comparison")
        if op in ("||", "&&"):
            if conc:
                return (a or b) if op == "||" else (a and b)
            for x in (a, b):
                if not isinstance(x, Bits) and bool(x) == (op == "||"):
                    return op == "||"
            return Unknown("data")
        if op in ("<<", ">>"):
            if isinstance(b, Bits):
                return v_top(a, b)
            if b < 0 or b >= (32 if is_int else 64):
                return Undefined("%s: shift by %d is wider than the %d-bit type of `%s`" % (self.facts.loc(n), b, 32 if is_int else 64, self.facts.ntext(n)[:60]))
            if conc and is_int:
                v = (a << b) & 0xFFFFFFFF if op == "<<" else (a >> b)
                return v - (1 << 32) if (op == "<<" and v >> 31) else v
            if conc:
                uns = "unsigned" in (n.get("t") or "") or "size_t" in (n.get("t") or "")
                if op == "<<":
                    v = (a << b) & M
                    return v if uns or not (v >> (W - 1)) else v - (1 << W)
                return (a & M) >> b if (uns or a >= 0) else a >> b
            tn_ = (n.get("t") or "")
            if "dependent" in tn_ and kids(n):
                # the expression's type is not known in the template pattern: the declared type of the shifted object decides
                tn_ = " ".join((y_.get("t") or "") for y_ in tbf.walk(kids(n)[0]) if y_.get("k") in ("DeclRefExpr", "MemberExpr"))
            signed = "unsigned" not in tn_ and "size_t" not in tn_
            if op == "<<" and signed and b > 0:
                lost = [x_ for x_ in as_bits(a).b[W - b:] if x_ != 0]
                if lost:
                    if not hasattr(self, "ub_events"):
                        self.ub_events = []
                    self.ub_events.append((n, "signed left shift `%s` by %d moves bits that can be set (%s) beyond bit 63" % (self.facts.ntext(n)[:50], b, ",".join(describe(x_) for x_ in lost[:2]))))
            return v_shl(a, b) if op == "<<" else v_shr(a, b, signed)
        if conc:
            if op == "/" or op == "%":
                if b == 0:
                    self.bad(n, "division by zero")
                return int(a / b) if op == "/" else a - b * int(a / b)
            return {"&": a & b, "|": a | b, "^": a ^ b, "+": a + b, "-": a - b, "*": a * b}[op]
        if op == "&":
            return v_map2(e_and, a, b)
        if op == "|":
            return v_map2(e_or, a, b)
        if op == "^":
            return v_map2(e_xor, a, b)
        if op == "+":
            return v_add(a, b)
        if op == "-":
            return v_add(a, v_not(b), 1)
        if op == "*":
            for x, y in ((a, b), (b, a)):
                if isinstance(y, int) and y > 0 and (y & (y - 1)) == 0:
                    return v_shl(x, y.bit_length() - 1)
            return v_top(a, b)
        if op in ("/", "%"):
            if isinstance(b, int) and b > 0 and (b & (b - 1)) == 0 and isinstance(a, Bits) and a.b[W - 1] == 0:
                s = b.bit_length() - 1
                return v_shr(a, s) if op == "/" else Bits(a.b[:s] + [0] * (W - s))
            return v_top(a, b)
        self.bad(n, "binary operator '%s'" % op)


def snapshot(v):
    if isinstance(v, Ref):
        return ("ref", v.key)
    if isinstance(v, list):
        return tuple(snapshot(x) for x in v)
    if isinstance(v, Bits):
        return tuple(v.b)
    return repr(v)


def describe(e):
    if e == 0 or e == 1:
        return "constant %d" % e
    d, ex = e
    s = ",".join("%s.bit%d" % x for x in sorted(d)[:4]) + ("..." if len(d) > 4 else "")
    return ("copy of " if ex else "mix of ") + (s or "nothing")
