"""C20 — direct particle-particle routines implement the pairwise law, symmetrically.

Scalar routines of FP2PR.hpp (the Inastemp path is not compiled in this build):
 1 loop shape: full rectangle [0,nT) x [0,nS) for the mutual and remote routines, strict upper
   triangle (inner loop from idxTarget+1) for the in-leaf routine -> self term excluded, n=0,1 empty
 2 per-pair update = the law: the straight-line innermost body (and the per-target accumulator
   flush) is summarised as sympy expressions over x_s, x_t, q_s, q_t and compared with
        dF_t = q_t q_s (x_s - x_t) s^3,  dPhi_t = q_s s,   s = sqrt(1/|x_s-x_t|^2)
   and, for mutual routines, dF_s = -dF_t, dPhi_s = q_t s; every store accumulates
 3 the shipped kernels forward their own (source, target) arguments to these routines in role order
"""
import sympy

import tbf
import algebra
import coherence
from algebra import Block, loop_parts
from tbf import walk, kids, strip, AnalysisBroken

LEVEL = "proof"
TECHNIQUE = "algebraic normal form (sympy) of the straight-line per-pair update + loop-shape rule over the clang AST"

# routine -> roles of its parameters (frozen by reading FP2PR.hpp; README kernel section: data[0..2] position, data[3] physical value, rhs[0..2] force, rhs[3] potential)
TWO_LOOP = {
    "FP2PR::FullMutualScalar": {"sdata": 0, "srhs": 1, "ns": 2, "tdata": 3, "trhs": 4, "nt": 5, "mutual": True, "shape": "rectangle"},
    "FP2PR::GenericFullRemoteScalar": {"sdata": 0, "srhs": None, "ns": 1, "tdata": 2, "trhs": 3, "nt": 4, "mutual": False, "shape": "rectangle"},
    "FP2PR::GenericInnerScalar": {"sdata": 0, "srhs": 1, "ns": 2, "tdata": 0, "trhs": 1, "nt": 2, "mutual": True, "shape": "triangle"},
}
PAIR = {
    "FP2PR::MutualParticles": {"s": [0, 1, 2, 3], "sout": [4, 5, 6, 7], "t": [8, 9, 10, 11], "tout": [12, 13, 14, 15]},
    "FP2PR::NonMutualParticles": {"s": [0, 1, 2, 3], "sout": None, "t": [4, 5, 6, 7], "tout": [8, 9, 10, 11]},
}
KERNELS = ["FRotationKernel", "FUnifKernel"]
FORWARD = {   # kernel operator -> (routine macro name, [role slots of the operator in the routine's parameter order])
    "P2P": ("FullMutual", [("source", "data"), ("source", "rhs"), ("source", "count"), ("target", "data"), ("target", "rhs"), ("target", "count")]),
    "P2PTsm": ("GenericFullRemote", [("source", "data"), ("source", "count"), ("target", "data"), ("target", "rhs"), ("target", "count")]),
    "P2PInner": ("GenericInner", [("leaf", "data"), ("leaf", "rhs"), ("leaf", "count")]),
}


def law(xs, xt, qs, qt):
    d = [a - b for a, b in zip(xs, xt)]
    r2 = sum(x * x for x in d)
    s = sympy.sqrt(1 / r2)
    return [qt * qs * di * s ** 3 for di in d], qs * s, [-qt * qs * di * s ** 3 for di in d], qt * s


def same(a, b):
    if a == b:
        return True
    d = sympy.simplify(sympy.expand(a - b))
    return d == 0


def check_stores(res, facts, fn, blk, expected, R):
    f = tbf.rel(facts.path_of(fn))
    for loc, node in blk.overwrites:
        res.violation(R, f, fn["qname"], "overwrite:%s" % (loc,), node["l"][1], "result %s is overwritten instead of accumulated" % (loc,))
    for loc, want in expected.items():
        res.obligations += 1
        got = blk.stores.get(loc)
        res.instance(R, "%s %s" % (fn["qname"], ".".join(str(x) for x in loc)), facts.loc(fn), "delta = %s" % (got,))
        if got is None:
            res.violation(R, f, fn["qname"], ".".join(str(x) for x in loc), fn["l"][1], "no contribution is added to %s (expected %s)" % (loc, want))
        elif not same(got, want):
            res.violation(R, f, fn["qname"], ".".join(str(x) for x in loc), fn["l"][1], "per-pair contribution to %s is %s, the pairwise law gives %s" % (loc, sympy.simplify(got), want))
        else:
            res.discharged += 1
    for loc, got in blk.stores.items():
        if loc not in expected and got != 0:
            res.violation(R, f, fn["qname"], "extra:" + ".".join(str(x) for x in loc), fn["l"][1], "unexpected contribution %s added to %s" % (got, loc))


def two_loop(facts, q, spec, res):
    fn = facts.fn(q)
    blk = Block(facts, fn)
    pn = [p["name"] for p in fn["params"]]
    body = tbf.body(fn)
    outer = None
    for s in kids(body):
        if s.get("k") == "ForStmt":
            if outer is not None:
                raise AnalysisBroken(q + ": more than one top-level loop")
            outer = s
        elif outer is None:
            blk.exec(s)
        else:
            raise AnalysisBroken(q + ": statements after the target loop")
    if outer is None:
        raise AnalysisBroken(q + ": no target loop")
    ov, oinit, oop, obound, obody = loop_parts(facts, outer)
    blk.idxname[ov["did"]] = "T"
    blk.env[ov["did"]] = sympy.Symbol("T", integer=True)
    pre, inner, post = [], None, []
    for s in kids(obody):
        if s.get("k") == "ForStmt":
            if inner is not None:
                raise AnalysisBroken(q + ": two source loops")
            inner = s
        elif inner is None:
            pre.append(s)
        else:
            post.append(s)
    if inner is None:
        raise AnalysisBroken(q + ": no source loop")
    for s in pre:
        blk.exec(s)
    accs = {}
    for s in pre:
        if s.get("k") == "DeclStmt":
            for v in kids(s):
                i = strip(kids(v)[0]) if kids(v) else None
                if v.get("k") == "VarDecl" and i is not None and i.get("k") in ("IntegerLiteral", "FloatingLiteral") and float(i["val"]) == 0:
                    accs[v["did"]] = v["name"]
    iv, iinit, iop, ibound, ibody = loop_parts(facts, inner)
    blk.idxname[iv["did"]] = "S"
    blk.env[iv["did"]] = sympy.Symbol("S", integer=True)
    # ---- clause 1: loop shape
    R1 = "C20.1.loop-shape"
    nT = sympy.Symbol(pn[spec["nt"]], real=True)
    nS = sympy.Symbol(pn[spec["ns"]], real=True)
    o_lo, o_hi = blk.eval(oinit), blk.eval(obound)
    i_lo, i_hi = blk.eval(iinit), blk.eval(ibound)
    f = tbf.rel(facts.path_of(fn))
    res.instance(R1, q, facts.loc(outer), "targets [%s,%s) %s ; sources [%s,%s) %s" % (o_lo, o_hi, oop, i_lo, i_hi, iop))
    res.obligations += 1
    okshape = oop == "<" and iop == "<" and o_lo == 0 and o_hi == nT
    if spec["shape"] == "rectangle":
        okshape = okshape and i_lo == 0 and i_hi == nS
        want = "[0,%s) x [0,%s)" % (nT, nS)
    else:
        okshape = okshape and sympy.simplify(i_lo - (sympy.Symbol("T", integer=True) + 1)) == 0 and i_hi == nT
        want = "strict upper triangle: sources from T+1 to %s" % nT
    if okshape:
        res.discharged += 1
    else:
        res.violation(R1, f, q, "shape", outer["l"][1], "loops cover targets [%s,%s) sources [%s,%s) (%s,%s); expected %s" % (o_lo, o_hi, i_lo, i_hi, oop, iop, want))
    # ---- clause 2: per-pair update
    try:
        blk.exec(ibody)
        for s in post:
            blk.exec(s)
    except algebra.DataDependent as e:
        res.violation("C20.2.pair-law", f, q, "data-dependent", e.node["l"][1],
                      "the per-pair contribution is not the pairwise law for every input: %s - pairs satisfying the condition get a different (or no) contribution" % e.text)
        return
    # accumulators seeded from the target's results and written back after the source loop: when the routine also updates the
    # source results (mutual) through another parameter, the two arrays may be the same (a leaf interacting with its own periodic
    # image): the source-side update of the target's own slot is then overwritten by the stale accumulator
    if blk.rmw and spec["mutual"] and spec["srhs"] is not None and spec["srhs"] != spec["trhs"]:
        loc, node = blk.rmw[0]
        res.violation("C20.2.pair-law", f, q, "stale-accumulator:%s" % ".".join(str(x) for x in loc), node["l"][1],
                      "the target's results are read before the source loop and written back after it (`%s`), while the source loop adds to '%s': the routine is called with the same "
                      "array for both sides (a leaf and its own periodic image), the update made through the source side is then lost - 'equivalent to two one-sided calls' no longer holds"
                      % (facts.ntext(node)[:60], pn[spec["srhs"]]))
    sd, td = pn[spec["sdata"]], pn[spec["tdata"]]

    def ld(p, k, i):
        return sympy.Symbol("%s.%s@%s" % (p, k, i), real=True)
    xs = [ld(sd, k, "S") for k in range(3)]
    xt = [ld(td, k, "T") for k in range(3)]
    qs, qt = ld(sd, 3, "S"), ld(td, 3, "T")
    dFt, dPt, dFs, dPs = law(xs, xt, qs, qt)
    tr = pn[spec["trhs"]]
    expected = {}
    for k in range(3):
        expected[(tr, k, "T")] = dFt[k]
    expected[(tr, 3, "T")] = dPt
    if spec["mutual"]:
        sr = pn[spec["srhs"]]
        for k in range(3):
            expected[(sr, k, "S")] = dFs[k]
        expected[(sr, 3, "S")] = dPs
    skip_guards(res, facts, fn, blk, expected, q)
    check_stores(res, facts, fn, blk, expected, "C20.2.pair-law")


def skip_guards(res, facts, fn, blk, expected, q):
    """a guard that skips pairs (`if(E == 0) continue;`) is exact only if the law gives those pairs nothing: every expected update, on both
    sides, must vanish identically when E = 0"""
    for e, node in blk.guards:
        res.obligations += 1
        left = {loc: sympy.simplify(v.subs(e, 0)) for loc, v in expected.items()}
        bad = {loc: v for loc, v in left.items() if v != 0}
        res.instance("C20.2.pair-law", "%s skip guard@%d" % (q, node["l"][1]), facts.loc(node), "pairs with %s == 0 are skipped; the law gives them %s" % (e, "nothing" if not bad else "non-zero updates of %s" % sorted(".".join(str(x) for x in l) for l in bad)))
        if not bad:
            res.discharged += 1
            continue
        loc, v = sorted(bad.items(), key=lambda kv: str(kv[0]))[0]
        res.violation("C20.2.pair-law", tbf.rel(facts.path_of(fn)), q, "skip-guard:%s" % e, node["l"][1],
                      "pairs with `%s == 0` are skipped, but for them the pairwise law still adds %s to %s (%d of %d outputs do not vanish): the skipped particles keep a wrong %s"
                      % (e, v, ".".join(str(x) for x in loc), len(bad), len(expected), "potential" if loc[1] == 3 else "force"))


def pair_routine(facts, q, spec, res):
    fn = facts.fn(q)
    blk = Block(facts, fn)
    pn = [p["name"] for p in fn["params"]]
    try:
        blk.exec(tbf.body(fn))
    except algebra.DataDependent as e:
        res.violation("C20.2.pair-law", tbf.rel(facts.path_of(fn)), q, "data-dependent", e.node["l"][1],
                      "the per-pair contribution is not the pairwise law for every input: %s" % e.text)
        return
    xs = [sympy.Symbol(pn[i], real=True) for i in spec["s"][:3]]
    qs = sympy.Symbol(pn[spec["s"][3]], real=True)
    xt = [sympy.Symbol(pn[i], real=True) for i in spec["t"][:3]]
    qt = sympy.Symbol(pn[spec["t"][3]], real=True)
    dFt, dPt, dFs, dPs = law(xs, xt, qs, qt)
    expected = {}
    for k in range(3):
        expected[(pn[spec["tout"][k]],)] = dFt[k]
    expected[(pn[spec["tout"][3]],)] = dPt
    if spec["sout"]:
        for k in range(3):
            expected[(pn[spec["sout"][k]],)] = dFs[k]
        expected[(pn[spec["sout"][3]],)] = dPs
    check_stores(res, facts, fn, blk, expected, "C20.2.pair-law")


def kernel_forwarding(facts, res):
    R = "C20.3.kernel-forwarding"
    n = 0
    for cls in KERNELS:
        for op, (routine, slots) in FORWARD.items():
            ms = [m for m in facts.methods_of(cls) if m["name"] == op]
            if len(ms) != 1:
                raise AnalysisBroken("%s::%s not found" % (cls, op))
            m = ms[0]
            roles = coherence.ROLES[op]
            pidx = {(r, p): i for i, (r, p, io) in enumerate(roles)}
            want = [m["params"][pidx[s]]["did"] for s in slots]
            calls = [c for c in walk(tbf.body(m)) if c.get("k") in ("CallExpr", "CXXMemberCallExpr") and (tbf.callee_name(c) or "").startswith(routine)]
            if not calls:
                raise AnalysisBroken("%s::%s does not call FP2PR::%s" % (cls, op, routine))
            decls = {x["did"]: x for x in walk(tbf.body(m)) if x.get("k") == "VarDecl"}
            for c in calls:
                n += 1
                args = [strip(a) for a in tbf.call_args(c)]
                got = []
                for a in args:
                    did = a.get("did")
                    d = decls.get(did)
                    # the periodic branch substitutes a shifted copy of the source positions for the source data
                    if d is not None and kids(d) and tbf.callee_name(strip(kids(d)[0])) == "DuplicatePositionsAndApplyShift":
                        inner = [strip(x) for x in tbf.call_args(strip(kids(d)[0]))]
                        srcs = [x.get("did") for x in inner if x.get("did") in want]
                        did = srcs[0] if srcs else did
                    got.append(did)
                res.instance(R, "%s::%s@%d" % (cls, op, c["l"][1]), facts.loc(c), facts.ntext(c)[:140])
                res.obligations += 1
                if got == want:
                    res.discharged += 1
                else:
                    res.violation(R, tbf.rel(facts.path_of(c)), m["qname"], "%s@%d" % (routine, c["l"][1]), c["l"][1],
                                  "arguments handed to FP2PR::%s are not the operator's (%s) parameters in role order" % (routine, ", ".join("%s %s" % s for s in slots)))
    return n


def run(res, tier):
    facts = tbf.scan("core")
    res.units.append("umbrella TU 'core': FP2PR scalar routines (5), P2P/P2PTsm/P2PInner of the rotation and uniform kernels")
    res.rule("C20.1 loop shape: rectangle [0,nT)x[0,nS) / strict upper triangle for the in-leaf routine")
    res.rule("C20.2 per-pair update equals dF_t=q_t q_s (x_s-x_t) s^3, dPhi_t=q_s s (and the opposite on the source for mutual routines), s=sqrt(1/r^2), as sympy normal forms; every store accumulates")
    res.rule("C20.3 shipped kernels forward (source data, source results, n_s, target data, target results, n_t) in role order")
    res.trusted += ["clang 14 front end + tbfscan", "sympy normal form (expand/simplify)", "role table of the routines' parameters (rules/c20.py)", "induction over the loops (shape clause) lifts the per-pair identity to the sums"]
    res.checker_cmds.append("./check C20  (sympy.simplify(found - law) == 0 per output)")
    res.assumptions.append("Inastemp (vectorised) path is not compiled in this build and is not analysed; agreement 'to rounding' with extended precision is not decided")
    for q, spec in TWO_LOOP.items():
        two_loop(facts, q, spec, res)
    for q, spec in PAIR.items():
        pair_routine(facts, q, spec, res)
    k = kernel_forwarding(facts, res)
    res.floor("C20.3", k, 10, "routine call sites in kernels")
    res.floor("C20.2", res.obligations, 40, "obligations")
    res.explanation = "per-pair algebraic identities and loop shapes of the 5 scalar direct-interaction routines, kernel->routine role forwarding: %d obligations, %d discharged" % (res.obligations, res.discharged)
