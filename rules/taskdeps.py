"""C03.b — the dependencies a task declares cover what the wrapper calls in its body read / write.

A task unit is an `#pragma omp task` directive (OpenMP executors) or a `runtime.task(...)` call whose
last argument is a lambda (Specx executors).  Declared dependencies are resolved, through the
single-assignment chain  ptr_x <- reinterpret_cast(&y[0]) <- g->get<Buffer>Ptr(), to
(group origin, memory block); the wrapper calls inside the body are matched against the effect
summaries of `effects.wrapper_effects`.
"""
import re

import tbf
import effects
import stages
from tbf import walk, kids, strip, AnalysisBroken

WRITE_KINDS = {"inout", "out", "mutexinoutset", "commute", "write", "commutativewrite"}


def omp_task_deps(st, task, cmap):
    deps = []
    for cl in task.get("clauses", []):
        if cl.get("clause") != "depend":
            continue
        kind = cl.get("depkind")
        for e in kids(cl):
            o = st.fm.origin(e)
            # the first byte of the buffer, reached as ptr[0] or through a byte pointer to &ptr[0]
            m = re.match(r"^&?(.*)\.(get\w+Ptr)\(\)(?:\[0\])?\[0\]$", o)
            if not m:
                # the address of ONE element of a group's block (a cell's local / multipole, a leaf's rows): not the handle the other tasks name
                m2 = re.match(r"^&*(.*?)\.(getCell\w+|getParticle\w+|getLeaf\w+)\(", o)
                if m2:
                    deps.append({"group": m2.group(1), "field": None, "kind": kind, "node": e, "element": m2.group(2)})
                    continue
                raise AnalysisBroken("%s: depend expression '%s' does not resolve to <group>.get<Buffer>Ptr()[0] (resolved: %s)" % (st.ex.facts.loc(e), st.ex.facts.ntext(e), o))
            deps.append({"group": m.group(1), "field": effects.ptr_accessor_field(cmap, m.group(2)), "kind": kind, "node": e})
    return deps


def specx_task_deps(st, call, cmap):
    deps = []
    for a in tbf.call_args(call):
        a = strip(a)
        if a.get("k") != "CallExpr":
            continue
        nm = tbf.callee_name(a)
        if nm in ("SpRead", "SpCommutativeWrite", "SpWrite"):
            o = st.fm.origin(tbf.call_args(a)[0])
            m = re.match(r"^\*(.*)\.(get\w+Ptr)\(\)$", o)
            if not m:
                raise AnalysisBroken("%s: Specx dependency '%s' does not resolve to *<group>.get<Buffer>Ptr() (resolved: %s)" % (st.ex.facts.loc(a), st.ex.facts.ntext(a), o))
            deps.append({"group": m.group(1), "field": effects.ptr_accessor_field(cmap, m.group(2)),
                         "kind": {"SpRead": "in", "SpCommutativeWrite": "commutativewrite", "SpWrite": "write"}[nm], "node": a})
    return deps


def check_stage(st, weff, cmap, res, rule="C03.b"):
    """returns number of task units examined"""
    facts = st.ex.facts
    written = effects.written_fields(weff)
    units = {}
    for c in st.wrapper_calls:
        t = c["in_task"]
        if t is None:
            continue
        units.setdefault(id(t), (t, []))[1].append(c)
    n = 0
    for t, calls in units.values():
        n += 1
        if t.get("k") == "OMPTaskDirective":
            deps = omp_task_deps(st, t, cmap)
        else:
            deps = specx_task_deps(st, t, cmap)
        need = {}   # (group, field) -> 'R'|'W'
        for c in calls:
            e = weff.get(c["method"])
            if e is None:
                raise AnalysisBroken("%s: wrapper method %s has no effect summary" % (facts.loc(c["node"]), c["method"]))
            if len(e["params"]) != len(c["args"]):
                raise AnalysisBroken("%s: %s called with %d args, wrapper has %d params" % (facts.loc(c["node"]), c["method"], len(c["args"]), len(e["params"])))
            for arg, pe in zip(c["args"], e["params"]):
                if not pe:
                    continue
                for f, mode in pe.items():
                    if f not in written:
                        continue
                    key = (canon_group(arg), f)
                    if mode == "W" or need.get(key) != "W":
                        need[key] = mode if need.get(key) != "W" else "W"
        declared = {}
        for d in [d_ for d_ in deps if d_.get("element")]:
            res.violation(rule + ".deps-cover-effects", tbf.rel(facts.path_of(d["node"])), st.fn["qname"], "element-key:%s:%s" % (short(canon_group(d["group"])), d["element"]), d["node"]["l"][1],
                          "the dependency names the address of one element of the group (`%s` -> %s(...)), not the first byte of the block the other tasks of the graph name: OpenMP orders tasks whose list items are the SAME storage location, so this task is neither ordered with the tasks that write the block under its handle nor with those that read it - a reader can run before this task's update" % (facts.ntext(d["node"])[:50], d["element"]))
        deps = [d_ for d_ in deps if not d_.get("element")]
        for d in deps:
            key = (canon_group(d["group"]), d["field"])
            w = d["kind"] in WRITE_KINDS
            declared[key] = "W" if (w or declared.get(key) == "W") else "R"
        where = facts.loc(t)
        fnq = st.fn["qname"]
        res.instance(rule + ".deps-cover-effects", "%s task@%s" % (fnq, where.split(":")[-1]), where,
                     "calls=%s need=%s declared=%s" % ([c["method"] for c in calls],
                                                       sorted("%s:%s:%s" % (short(g), f, m) for (g, f), m in need.items()),
                                                       sorted("%s:%s:%s" % (short(g), f, m) for (g, f), m in declared.items())))
        for (g, f), mode in sorted(need.items()):
            have = declared.get((g, f))
            if have is None:
                res.violation(rule + ".deps-cover-effects", tbf.rel(facts.path_of(t)), fnq, "%s:%s" % (short(g), f), t["l"][1],
                              "task %s block %s of group %s but declares no dependency on it" % ("writes" if mode == "W" else "reads", f, short(g)))
            elif mode == "W" and have != "W":
                res.violation(rule + ".deps-cover-effects", tbf.rel(facts.path_of(t)), fnq, "%s:%s" % (short(g), f), t["l"][1],
                              "task writes block %s of group %s but only declares a read dependency" % (f, short(g)))
    return n


def _split_args(t):
    out, d, cur = [], 0, ""
    for ch in t:
        if ch in "([{":
            d += 1
        elif ch in ")]}":
            d -= 1
        if ch == "," and d == 0:
            out.append(cur)
            cur = ""
        else:
            cur += ch
    out.append(cur)
    return out


def canon_group(g):
    """the first argument a group mapper hands to its callback is the working group: `targets[idxWorkingGroup]` with idxWorkingGroup =
    distance(begin(targets), current iterator) - the very group the enclosing loop is at.  A dependency handle taken from that group
    outside the callback names the same object as one taken from the callback's argument."""
    m = re.match(r"^cb0\{TbfMapIndexesAndBlocks(?:Indexes)?\((.*)\)\}$", g)
    if not m:
        return g
    a = _split_args(m.group(1))
    if len(a) < 3:
        return g
    md = re.match(r"^std::distance\(it\((.*)\),it\((.*)\)\)$", a[2].strip())
    if not md or md.group(1) != md.group(2):
        return g
    T = md.group(1)
    targets = a[3].strip() if len(a) >= 4 and not a[3].strip().startswith("lambda") else a[1].strip()
    if targets != T:
        return g
    return "each(%s)" % T


def short(g):
    """compact printable form of a group origin"""
    g = re.sub(r"cb(\d)\{TbfMapIndexesAndBlocks\(.*\)\}", r"mapper.arg\1", g)
    g = g.replace("tree.", "").replace("each(", "grp(")
    return g
