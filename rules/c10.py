"""C10 — periodic mode: one contribution from every image in the repetition cube.

Decided consistency clauses (one contribution per image and the displacement values are counting /
numerics: NOT decided):
 1 interval/count agreement: per branch of the repetition-count function (-1, 0, >=1 extra levels)
   the interval reported by getRepetitionsIntervals satisfies hi - lo + 1 == count, as an identity
   in p = 2^n
 2 window/extent agreement: for every transfer window [lo,hi]^Dim minus the [-1,1]^Dim core filled
   into a stack array, (hi-lo+1)^Dim - 3^Dim equals the extent the array is declared with
   (7^Dim-3^Dim resp. getNbInteractionsPerCell() = 6^Dim-3^Dim), so the fill cannot overrun and no
   image of the window is dropped
 3 sibling agreement: the single-tree and target/source top-tree executors agree on the repetition
   formulas, the windows and the virtual-level structure
"""
import re

import sympy

import tbf
import stages
from tbf import walk, kids, strip, AnalysisBroken

LEVEL = "other"
TECHNIQUE = "branch-wise polynomial identities or constant folding of the repetition functions + window-vs-extent agreement + sibling comparison by value + interval tiling argument over the virtual levels with constants read from the clang AST + mutable-member rule"

CLASSES = ["TbfAlgorithmPeriodicTopTree", "TbfAlgorithmPeriodicTopTreeTsm"]
P = sympy.Symbol("p", positive=True)   # 2^n


def val(facts, n, env):
    n = strip(n)
    k = n.get("k")
    if k == "IntegerLiteral":
        return sympy.Integer(n["val"])
    if k == "UnaryOperator" and n.get("op") == "-":
        return -val(facts, kids(n)[0], env)
    if (k.endswith("CastExpr") or k in ("ParenExpr", "CXXUnresolvedConstructExpr", "InitListExpr", "CXXConstructExpr")) and len(kids(n)) == 1:
        return val(facts, kids(n)[0], env)
    if k == "BinaryOperator":
        a, b = kids(n)
        if n.get("op") == "<<" and strip(a).get("k") == "IntegerLiteral" and strip(a)["val"] == 1:
            return P
        x, y = val(facts, a, env), val(facts, b, env)
        if n["op"] == "/":
            return x / y
        return {"+": x + y, "-": x - y, "*": x * y}[n["op"]]
    if k == "DeclRefExpr":
        if n.get("did") in env:
            return env[n["did"]]
    if k in ("CallExpr", "CXXMemberCallExpr"):
        nm = tbf.callee_name(n)
        if nm in env:
            return env[nm]
    raise AnalysisBroken("%s: cannot evaluate '%s'" % (facts.loc(n), facts.ntext(n)))


def branches(facts, fn, varname):
    """if-chain on `var == c` -> {c: block, 'else': block}"""
    out = {}
    b = tbf.body(fn)
    cur = [s for s in kids(b) if s.get("k") in ("IfStmt", "ReturnStmt")]
    node = cur[0] if cur else None
    rest = cur[1:]
    while node is not None and node.get("k") == "IfStmt":
        cond = strip(node["c"][0])
        if cond.get("k") != "BinaryOperator" or cond.get("op") != "==":
            raise AnalysisBroken("%s: branch condition not of the form x == c" % facts.loc(node))
        a, c = [strip(x) for x in kids(cond)]
        if a.get("name") != varname:
            raise AnalysisBroken("%s: branch does not test %s" % (facts.loc(node), varname))
        out[int(val(facts, c, {}))] = node["c"][1]
        node = node["c"][2]
    if node is not None:
        out["else"] = node
    elif rest:
        out["else"] = rest[0]
    return out


def ret_expr(block):
    r = [x for x in walk(block) if x.get("k") == "ReturnStmt"]
    return kids(r[0])[0] if r and kids(r[0]) else None


def _ancestors(fm, n):
    return list(tbf.ancestors(n))


class _Return(Exception):
    def __init__(self, v):
        self.v = v


def fold_call(facts, cls, fname, args, members, depth=0):
    """constant folding of a pure integer function of the class for concrete arguments (no loops, no state: if-chains, local constants,
    arithmetic, shifts, calls to other such functions of the class); returns an int or a tuple (pair / array arguments)"""
    if depth > 6:
        raise AnalysisBroken("%s::%s: folding recursion too deep" % (cls, fname))
    ms = [m for m in facts.methods_of(cls) if m["name"] == fname and tbf.body(m) is not None and not m.get("inst")]
    if len(ms) != 1:
        raise AnalysisBroken("%s::%s: %d definitions, cannot fold" % (cls, fname, len(ms)))
    fn = ms[0]
    if len(fn["params"]) != len(args):
        raise AnalysisBroken("%s::%s: folded with %d arguments" % (cls, fname, len(args)))
    env = {p_["did"]: a for p_, a in zip(fn["params"], args)}

    def ev(n):
        n = strip(n)
        k = n.get("k")
        if k == "IntegerLiteral":
            return int(n["val"])
        if k == "CXXBoolLiteralExpr":
            return bool(n.get("val"))
        if k == "UnaryOperator" and n.get("op") in ("-", "+", "!"):
            v = ev(kids(n)[0])
            return {"-": lambda: -v, "+": lambda: v, "!": lambda: (not v)}[n["op"]]()
        if k == "ConditionalOperator":
            c_, a_, b_ = kids(n)
            return ev(a_) if ev(c_) else ev(b_)
        if k == "BinaryOperator":
            op = n.get("op")
            if op == "&&":
                return bool(ev(kids(n)[0])) and bool(ev(kids(n)[1]))
            if op == "||":
                return bool(ev(kids(n)[0])) or bool(ev(kids(n)[1]))
            a, b = ev(kids(n)[0]), ev(kids(n)[1])
            if op == "/":
                if b == 0:
                    raise AnalysisBroken("%s: folding divides by zero" % facts.loc(n))
                q = abs(a) // abs(b)
                return q if (a >= 0) == (b >= 0) else -q
            if op == "%":
                if b == 0:
                    raise AnalysisBroken("%s: folding divides by zero" % facts.loc(n))
                return a - b * (abs(a) // abs(b) if (a >= 0) == (b >= 0) else -(abs(a) // abs(b)))
            if op in ("<<", ">>") and not (0 <= b < 63):
                raise AnalysisBroken("%s: shift by %s while folding" % (facts.loc(n), b))
            f = {"+": lambda: a + b, "-": lambda: a - b, "*": lambda: a * b, "<<": lambda: a << b, ">>": lambda: a >> b,
                 "==": lambda: a == b, "!=": lambda: a != b, "<": lambda: a < b, "<=": lambda: a <= b, ">": lambda: a > b, ">=": lambda: a >= b}.get(op)
            if f is None:
                raise AnalysisBroken("%s: operator %s not folded" % (facts.loc(n), op))
            return f()
        if k == "DeclRefExpr" and n.get("did") in env:
            return env[n["did"]]
        if k == "MemberExpr" and n.get("name") in members:
            return members[n["name"]]
        if k in ("CallExpr", "CXXMemberCallExpr"):
            nm = tbf.callee_name(n)
            a = tbf.call_args(n)
            if nm == "make_array" and len(a) == 1:
                return ev(a[0])
            if nm in ("make_pair",) and len(a) == 2:
                return (ev(a[0]), ev(a[1]))
            if nm in ("max", "min") and len(a) == 2:
                return (max if nm == "max" else min)(ev(a[0]), ev(a[1]))
            if nm == "lipow" and len(a) == 2:
                return ev(a[0]) ** ev(a[1])
            if any(m["name"] == nm for m in facts.methods_of(cls)):
                return fold_call(facts, cls, nm, [ev(x) for x in a], members, depth + 1)
        if k in ("CXXConstructExpr", "CXXTemporaryObjectExpr", "CXXUnresolvedConstructExpr", "InitListExpr", "CXXFunctionalCastExpr", "ParenListExpr"):
            kk = kids(n)
            if len(kk) == 1:
                return ev(kk[0])
            if len(kk) == 2:
                return (ev(kk[0]), ev(kk[1]))
        if (k.endswith("CastExpr") or k in ("ParenExpr", "ExprWithCleanups", "MaterializeTemporaryExpr", "CXXBindTemporaryExpr")) and len(kids(n)) == 1:
            return ev(kids(n)[0])
        raise AnalysisBroken("%s: cannot fold '%s' (%s)" % (facts.loc(n), facts.ntext(n)[:60], k))

    def ex(st):
        k = st.get("k")
        if k == "CompoundStmt":
            for c_ in kids(st):
                ex(c_)
        elif k == "IfStmt":
            cc = [y for y in kids(st) if y.get("k") != "DeclStmt"]
            if ev(cc[0]):
                ex(cc[1])
            elif len(cc) > 2:
                ex(cc[2])
        elif k == "DeclStmt":
            for v in kids(st):
                if v.get("k") == "VarDecl":
                    if not kids(v):
                        raise AnalysisBroken("%s: local without initialiser while folding" % facts.loc(v))
                    env[v["did"]] = ev(kids(v)[0])
        elif k == "ReturnStmt":
            raise _Return(ev(kids(st)[0]))
        elif k in ("NullStmt",):
            pass
        elif k in ("ForStmt", "WhileStmt", "DoStmt", "CXXForRangeStmt", "SwitchStmt") or (k in ("BinaryOperator", "CompoundAssignOperator", "CXXOperatorCallExpr") and st.get("op", "").endswith("=") and st.get("op") not in ("==", "<=", ">=", "!=")):
            raise AnalysisBroken("%s: %s is not a loop-free constant function (%s)" % (facts.loc(st), fname, k))
        # anything else (assert expansions, static_assert, using) has no effect on the value
    try:
        ex(tbf.body(fn))
    except _Return as r:
        return r.v
    raise AnalysisBroken("%s::%s: folding reached the end without a return" % (cls, fname))


def repetition_fold(facts, cls, res, cnt, itv, nmax=12):
    """the repetition functions are not the three-branch chain on the number of extra levels: fold both for n = -1 .. nmax"""
    R = "C10.1.interval-count"
    byn = {}
    for n in range(-1, nmax + 1):
        count = fold_call(facts, cls, cnt["name"], [n], {})
        iv = fold_call(facts, cls, itv["name"], [], {"nbLevelsAbove0": n})
        if not (isinstance(count, int) and isinstance(iv, tuple) and len(iv) == 2 and all(isinstance(x, int) for x in iv)):
            raise AnalysisBroken("%s: folded repetition functions give %r / %r" % (cls, count, iv))
        lo, hi = iv
        byn[n] = (count, lo, hi)
        res.instance(R, "%s n=%d" % (cls, n), facts.loc(itv), "count %d interval [%d, %d] (constant folding of %s / %s)" % (count, lo, hi, cnt["name"], itv["name"]))
        if hi - lo + 1 != count:
            res.violation(R, tbf.rel(facts.path_of(itv)), itv["qname"], "n:%d" % n, itv["l"][1],
                          "for %d extra levels the library reports %d repetitions per dimension but the interval [%d, %d] holds %d boxes" % (n, count, lo, hi, hi - lo + 1))
        if lo > 0 or hi < 0:
            res.violation(R, tbf.rel(facts.path_of(itv)), itv["qname"], "n:%d:origin" % n, itv["l"][1], "the repetition interval [%d, %d] does not contain the central box" % (lo, hi))
    summary = {"byn": byn, -1: tuple(str(x) for x in byn[-1]), 0: tuple(str(x) for x in byn[0])}
    return summary


def repetition_formulas(facts, cls, res):
    R = "C10.1.interval-count"
    cnt = [m for m in facts.methods_of(cls) if m["name"] == "GetNbRepetitionsPerDim"]
    itv = [m for m in facts.methods_of(cls) if m["name"] == "getRepetitionsIntervals"]
    if len(cnt) != 1 or len(itv) != 1:
        raise AnalysisBroken("%s: repetition functions not found" % cls)
    try:
        cb = branches(facts, cnt[0], cnt[0]["params"][0]["name"])
        ib = branches(facts, itv[0], "nbLevelsAbove0")
        classic = set(cb) == set(ib) and set(cb) == {-1, 0, "else"}
    except AnalysisBroken:
        classic = False
    summary = {}
    if not classic:
        summary = repetition_fold(facts, cls, res, cnt[0], itv[0])
        cb = ib = {}
    for key in ((-1, 0, "else") if classic else ()):
        count = sympy.simplify(val(facts, ret_expr(cb[key]) if cb[key].get("k") != "ReturnStmt" else kids(cb[key])[0], {}))
        blk = ib[key]
        env = {"getNbRepetitionsPerDim": count, "GetNbRepetitionsPerDim": count}
        for v in walk(blk):
            if v.get("k") == "VarDecl" and kids(v):
                env[v["did"]] = val(facts, kids(v)[0], env)
        arrs = [x for x in walk(blk) if x.get("k") == "CallExpr" and tbf.callee_name(x) == "make_array"]
        if len(arrs) != 2:
            raise AnalysisBroken("%s::getRepetitionsIntervals branch %s: %d make_array calls (2 expected)" % (cls, key, len(arrs)))
        lo = sympy.simplify(val(facts, tbf.call_args(arrs[0])[0], env))
        hi = sympy.simplify(val(facts, tbf.call_args(arrs[1])[0], env))
        res.instance(R, "%s branch %s" % (cls, key), facts.loc(blk), "count %s interval [%s, %s]" % (count, lo, hi))
        summary[key] = (str(count), str(lo), str(hi))
        if sympy.simplify(hi - lo + 1 - count) != 0:
            res.violation(R, tbf.rel(facts.path_of(itv[0])), itv[0]["qname"], "branch:%s" % key, blk["l"][1],
                          "for %s extra levels the library reports %s repetitions per dimension but the interval [%s, %s] holds %s boxes" % (key if key != "else" else ">=1 (p=2^n)", count, lo, hi, sympy.simplify(hi - lo + 1)))
        if any(lo.subs(P, pv) > 0 or hi.subs(P, pv) < 0 for pv in (2, 4, 1 << 20)):
            res.violation(R, tbf.rel(facts.path_of(itv[0])), itv[0]["qname"], "branch:%s:origin" % key, blk["l"][1], "the repetition interval [%s, %s] does not contain the central box" % (lo, hi))
    # total = count^Dim
    tot = [m for m in facts.methods_of(cls) if m["name"] == "getNbTotalRepetitions"]
    if len(tot) != 1:
        raise AnalysisBroken("%s::getNbTotalRepetitions not found" % cls)
    fmt_ = stages.FnModel(facts, tot[0])
    okt = False
    for x in walk(fmt_.body):
        if x.get("k") == "CompoundAssignOperator" and x.get("op") == "*=":
            acc = strip(kids(x)[0])
            factor = fmt_.origin(kids(x)[1])
            accd = fmt_.decls.get(acc.get("did"))
            init1 = accd is not None and kids(accd) and strip(kids(accd)[0]).get("val") == 1
            inloop = any(a.get("k") == "ForStmt" and facts.ntext(a["c"][1]).endswith("<Dim") for a in _ancestors(fmt_, x))
            rets = [r for r in walk(fmt_.body) if r.get("k") == "ReturnStmt" and kids(r) and strip(kids(r)[0]).get("did") == acc.get("did")]
            if init1 and inloop and rets and "getNbRepetitionsPerDim()" in factor:
                okt = True
    res.instance(R, "%s total" % cls, facts.loc(tot[0]), "product over Dim of the per-dimension count: %s" % okt)
    if not okt:
        res.violation(R, tbf.rel(facts.path_of(tot[0])), tot[0]["qname"], "total", tot[0]["l"][1], "total repetitions is not the per-dimension count to the power Dim")
    return summary


def extent_base(facts, t, morton_nb):
    """array extent text -> (a, b) meaning a^Dim - b^Dim"""
    m = re.match(r"^long\[(.*)\]$", t)
    if not m:
        return None
    e = m.group(1).replace(" ", "")
    mm = re.match(r"^(?:TbfUtils::)?lipow\((\d+),Dim\)-(?:TbfUtils::)?lipow\((\d+),Dim\)$", e)
    if mm:
        return int(mm.group(1)), int(mm.group(2))
    if e.endswith("getNbInteractionsPerCell()"):
        return morton_nb
    return None


def morton_interactions(facts):
    """(a, b) of getNbInteractionsPerCell = a^Dim - b^Dim from its loop"""
    fn = [m for m in facts.methods_of("TbfMortonSpaceIndex") if m["name"] == "getNbInteractionsPerCell"]
    if len(fn) != 1:
        raise AnalysisBroken("TbfMortonSpaceIndex::getNbInteractionsPerCell not found")
    mults = {}
    for x in walk(tbf.body(fn[0])):
        if x.get("k") == "CompoundAssignOperator" and x.get("op") == "*=":
            mults[strip(kids(x)[0])["name"]] = strip(kids(x)[1])["val"]
    r = facts.ntext(ret_expr(tbf.body(fn[0])))
    m = re.match(r"^(\w+)-(\w+)$", r)
    if not m or m.group(1) not in mults or m.group(2) not in mults:
        raise AnalysisBroken("getNbInteractionsPerCell: form a^Dim - b^Dim not recognised (%s)" % r)
    return mults[m.group(1)], mults[m.group(2)]


def windows(facts, cls, res, morton_nb):
    R = "C10.2.window-extent"
    fn = [m for m in facts.methods_of(cls) if m["name"] == "M2L"]
    if len(fn) != 1:
        raise AnalysisBroken("%s::M2L not found" % cls)
    b = tbf.body(fn[0])
    tbf.link_parents(b)
    out = []
    arrays = [v for v in walk(b) if v.get("k") == "VarDecl" and v.get("name") == "positionsOfNeighbors"]
    if len(arrays) != 2:
        raise AnalysisBroken("%s::M2L: %d position arrays (2 confirmed by reading)" % (cls, len(arrays)))
    for arr in arrays:
        blk = arr["_p"]
        while blk.get("k") != "CompoundStmt":
            blk = blk["_p"]
        ext = extent_base(facts, arr["t"], morton_nb)
        if ext is None:
            raise AnalysisBroken("%s: extent '%s' of the position array not recognised" % (facts.loc(arr), arr["t"]))
        # windows: make_array<..>(c) initialisers or .fill(c) calls on minLimits / maxLimits inside this block
        los, his = [], []
        for v in walk(blk):
            if v.get("k") == "VarDecl" and v.get("name") in ("minLimits", "maxLimits") and kids(v):
                for c in walk(v):
                    if c.get("k") == "CallExpr" and tbf.callee_name(c) == "make_array":
                        (los if v["name"] == "minLimits" else his).append((int(val(facts, tbf.call_args(c)[0], {})), c))
            if v.get("k") in ("CallExpr", "CXXMemberCallExpr") and tbf.callee_name(v) == "fill":
                base = tbf.call_base(v)
                nm = strip(base).get("name") if base is not None else None
                if nm in ("minLimits", "maxLimits"):
                    (los if nm == "minLimits" else his).append((int(val(facts, tbf.call_args(v)[0], {})), v))
        if len(los) != len(his) or not los:
            raise AnalysisBroken("%s: transfer window limits not recognised" % facts.loc(arr))
        # the excluded core: |x| > 1 test
        core = None
        for x in _with_callees(facts, cls, blk):
            if x.get("k") == "BinaryOperator" and x.get("op") == ">" and "abs" in facts.ntext(kids(x)[0]):
                core = 2 * int(val(facts, kids(x)[1], {})) + 1
        if core is None:
            raise AnalysisBroken("%s: too-close core test not found" % facts.loc(arr))
        los.sort(key=lambda t: t[1]["l"][1])
        his.sort(key=lambda t: t[1]["l"][1])
        for (lo, ln), (hi, hn) in zip(los, his):
            width = hi - lo + 1
            out.append((lo, hi, core, ext))
            res.instance(R, "%s::M2L window [%d,%d]" % (cls, lo, hi), facts.loc(ln), "width %d, core %d, array extent %d^Dim - %d^Dim" % (width, core, ext[0], ext[1]))
            if (width, core) != ext:
                res.violation(R, tbf.rel(facts.path_of(ln)), fn[0]["qname"], "window[%d,%d]" % (lo, hi), ln["l"][1],
                              "transfer window [%d,%d]^Dim minus the %d^Dim core generates %d^Dim - %d^Dim codes but the position array holds %d^Dim - %d^Dim: %s" % (
                                  lo, hi, core, width, core, ext[0], ext[1], "the fill overruns the array" if width > ext[0] else "images of the window are not representable / sizes disagree"))
            if not (lo <= -core // 2 - 0 and hi >= core // 2):
                res.violation(R, tbf.rel(facts.path_of(ln)), fn[0]["qname"], "window[%d,%d]:core" % (lo, hi), ln["l"][1], "window does not contain the excluded core")
    return out


def _with_callees(facts, cls, block):
    """nodes of a block and of the bodies of the class's own member functions it calls (a too-close test extracted into a static helper)"""
    for x in walk(block):
        yield x
        if x.get("k") in ("CallExpr", "CXXMemberCallExpr"):
            b_ = tbf.call_base(x)
            if b_ is None or strip(b_).get("k") == "CXXThisExpr":
                for g in facts.methods_of(cls):
                    if g["name"] == tbf.callee_name(x) and tbf.body(g) is not None and not g.get("inst") and len(g["params"]) == len(tbf.call_args(x)):
                        for y in walk(tbf.body(g)):
                            yield y


def virtual_levels(facts, cls):
    """summary of the virtual-level loops (for the sibling comparison)"""
    out = {}
    for name in ("M2M", "M2L", "L2L"):
        fn = [m for m in facts.methods_of(cls) if m["name"] == name][0]
        fm = stages.FnModel(facts, fn)
        loops = []
        for x in walk(fm.body):
            if x.get("k") == "ForStmt" and fm.is_level_loop(x):
                lo, hi, d = fm.loop_interval(x)
                loops.append((str(lo), str(hi), d))
        out[name] = sorted(loops)
    for name in ("getExtendedTreeHeight", "getExtendedTreeHeightBoundary", "GetExtendedBoxWidth", "GetExtendedBoxWidthBoundary", "GetExtendedBoxCenter", "GetExtendedBoxCenterBoundary", "getExtendedLevel"):
        fn = [m for m in facts.methods_of(cls) if m["name"] == name]
        if fn:
            out[name] = re.sub(r"Source|Target", "", facts.ntext(tbf.body(fn[0])))
    return out


N = sympy.Symbol("n", integer=True)


def nval(facts, n, env):
    """integer expression in the number of extra levels n; `a << b` is a * 2**b"""
    n = strip(n)
    k = n.get("k")
    if k == "IntegerLiteral":
        return sympy.Integer(n["val"])
    if k == "FloatingLiteral":
        return sympy.nsimplify(n["val"])
    if k == "UnaryOperator" and n.get("op") == "-":
        return -nval(facts, kids(n)[0], env)
    if (k.endswith("CastExpr") or k in ("ParenExpr", "CXXUnresolvedConstructExpr", "CXXConstructExpr", "InitListExpr")) and len(kids(n)) == 1:
        return nval(facts, kids(n)[0], env)
    if k == "BinaryOperator":
        a, b = [nval(facts, c, env) for c in kids(n)]
        op = n.get("op")
        if op == "<<":
            return a * 2 ** b
        if op in ("+", "-", "*"):
            return {"+": a + b, "-": a - b, "*": a * b}[op]
    if k == "DeclRefExpr" and n.get("did") in env:
        return env[n["did"]]
    if k in ("CallExpr", "CXXMemberCallExpr") and tbf.callee_name(n) in env:
        return env[tbf.callee_name(n)]
    raise AnalysisBroken("%s: cannot evaluate '%s' as a function of the number of extra levels" % (facts.loc(n), facts.ntext(n)[:80]))


def extension_geometry(facts, cls, res):
    """C10.4: the extended (virtual) tree places the original box at its level (height - 2), so every
    extended box width must be  original width x 2^(extended height - 2)  - a multiplicative update of
    the original widths by exactly that factor, on every branch of the extra-level parameter"""
    R = "C10.4.extension-geometry"
    for wname, hname in (("GetExtendedBoxWidth", "getExtendedTreeHeight"), ("GetExtendedBoxWidthBoundary", "getExtendedTreeHeightBoundary")):
        wf = [m for m in facts.methods_of(cls) if m["name"] == wname]
        hf = [m for m in facts.methods_of(cls) if m["name"] == hname]
        if len(wf) != 1 or len(hf) != 1:
            raise AnalysisBroken("%s::%s / %s not found" % (cls, wname, hname))
        wf, hf = wf[0], hf[0]
        hn = [p for p in hf["params"] if p["t"].replace("const ", "") in ("long", "int")]
        hr = [r for r in walk(tbf.body(hf)) if r.get("k") == "ReturnStmt" and kids(r)]
        if len(hn) != 1 or len(hr) != 1:
            raise AnalysisBroken("%s::%s: form not recognised" % (cls, hname))
        height = nval(facts, kids(hr[0])[0], {hn[0]["did"]: N})
        wn = [p for p in wf["params"] if p["t"].replace("const ", "") in ("long", "int")]
        if len(wn) != 1:
            raise AnalysisBroken("%s::%s: extra-level parameter not found" % (cls, wname))
        env = {wn[0]["did"]: N, hname: height}
        fm = stages.FnModel(facts, wf)
        rets = [r for r in walk(fm.body) if r.get("k") == "ReturnStmt" and kids(r)]
        rv = strip(kids(rets[-1])[0]) if rets else None
        rd = fm.decls.get(rv.get("did")) if rv is not None else None
        f = tbf.rel(facts.path_of(wf))
        if rd is None or not kids(rd) or not fm.origin(kids(rd)[0]).endswith(".getBoxWidths()"):
            res.violation(R, f, wf["qname"], "provenance", wf["l"][1], "the extended box widths are not derived from the original configuration's box widths")
            continue
        ups = []
        for x in walk(fm.body):
            if x.get("k") in ("BinaryOperator", "CompoundAssignOperator") and x.get("op", "").endswith("=") and x.get("op") not in ("==", "!=", "<=", ">="):
                l = strip(kids(x)[0])
                if l.get("k") in ("ArraySubscriptExpr", "CXXOperatorCallExpr") and strip(kids(l)[-2]).get("did") == rd["did"]:
                    ups.append(x)
        if len(ups) != 1:
            raise AnalysisBroken("%s::%s: %d updates of the returned widths (1 confirmed by reading)" % (cls, wname, len(ups)))
        u = ups[0]
        want = 2 ** (height - 2)
        if u["op"] != "*=":
            res.instance(R, "%s::%s" % (cls, wname), facts.loc(u), facts.ntext(u))
            res.violation(R, f, wf["qname"], "update-form", u["l"][1],
                          "the extended width is set with `%s` instead of scaling the original width: for any box whose width is not 1 the images are displaced by the wrong multiples" % facts.ntext(u)[:80])
            continue
        # factor, branch by branch
        fac = strip(kids(u)[1])
        fd = fm.decls.get(fac.get("did")) if fac.get("k") == "DeclRefExpr" else None
        e = strip(kids(fd)[0]) if fd is not None and kids(fd) else fac
        while e.get("k", "").endswith("CastExpr") or e.get("k") == "ParenExpr":
            e = strip(kids(e)[0])
        branches_ = []
        if e.get("k") == "ConditionalOperator":
            c, a, b = kids(e)
            c = strip(c)
            if not (c.get("k") == "BinaryOperator" and c.get("op") == "==" and strip(kids(c)[0]).get("did") == wn[0]["did"]):
                raise AnalysisBroken("%s: branch condition of the width factor not recognised" % facts.loc(e))
            cv = int(nval(facts, kids(c)[1], {}))
            branches_.append(("n == %d" % cv, nval(facts, a, env).subs(N, cv), want.subs(N, cv)))
            branches_.append(("n != %d" % cv, nval(facts, b, env), want))
        else:
            branches_.append(("all n", nval(facts, e, env), want))
        for name, got, exp in branches_:
            ok = sympy.simplify(got - exp) == 0
            res.instance(R, "%s::%s %s" % (cls, wname, name), facts.loc(u), "factor %s, 2^(height-2) = %s" % (got, sympy.simplify(exp)))
            if not ok:
                res.violation(R, f, wf["qname"], "factor:" + name, u["l"][1],
                              "for %s the extended width factor is %s but the extended tree height %s places the original box at level height-2, i.e. factor %s" % (name, got, height, sympy.simplify(exp)))


# ---------------------------------------------------------------------------------------------- C10.5 shift decision = shift values
def shift_agreement(facts, res):
    """The kernels ask NeedToShift() whether a neighbour leaf is reached across the box and, only if so, displace its particles by
    GetShiftCoef().  Both must be the same decision: NeedToShift is true exactly when some dimension gets a non-zero coefficient.
    Decided structurally: the per-dimension conditions under which a coefficient is non-zero (one loop over [0,Dim), every
    iteration assigns its slot) are the only conditions under which NeedToShift answers yes, its loop covers all dimensions, and it
    has no other way of answering no."""
    R = "C10.5.shift-decision"
    fns = {}
    for q in ("NeedToShift", "GetShiftCoef"):
        c = [g for g in facts.functions if g["name"] == q and "TbfPeriodicShifter" in g["qname"] and not g.get("inst") and tbf.body(g) is not None]
        if len(c) != 1:
            raise AnalysisBroken("TbfPeriodicShifter::Neighbor::%s: %d definitions" % (q, len(c)))
        fns[q] = c[0]
    g = fns["GetShiftCoef"]
    gm = stages.FnModel(facts, g)
    gl = [l for l in walk(gm.body) if l.get("k") == "ForStmt"]
    if len(gl) != 1:
        raise AnalysisBroken("GetShiftCoef: %d loops (1 confirmed by reading)" % len(gl))
    lo, hi, d = gm.loop_interval(gl[0]) if "&&" not in facts.ntext(gl[0]["c"][1]) else (None, None, None)
    # per-dimension chain: condition -> value assigned to the slot of this dimension
    chain = []

    def collect(st, conds):
        st_ = st
        if st_ is None:
            return
        if st_.get("k") == "CompoundStmt":
            for c_ in kids(st_):
                collect(c_, conds)
            return
        if st_.get("k") == "IfStmt":
            c0 = gm.cond_origin(st_["c"][0])
            collect(st_["c"][1], conds + [c0])
            if len(st_["c"]) > 2 and st_["c"][2] is not None:
                collect(st_["c"][2], conds + ["!" + c0])
            else:
                chain.append((conds + ["!" + c0], None, st_))
            return
        if st_.get("k") == "BinaryOperator" and st_.get("op") == "=":
            l = strip(kids(st_)[0])
            if l.get("k") in ("ArraySubscriptExpr", "CXXOperatorCallExpr") and gm.origin(kids(l)[-1]) == "loopvar":
                chain.append((conds, gm.origin(kids(st_)[1]), st_))
    collect(gl[0]["c"][3], [])
    pos = [(c, v, n_) for c, v, n_ in chain if v not in (None, "0")]
    zero = [(c, v, n_) for c, v, n_ in chain if v == "0"]
    unassigned = [(c, v, n_) for c, v, n_ in chain if v is None]
    res.instance(R, "GetShiftCoef", facts.loc(gl[0]), "non-zero under %s; zero under %d path(s); unassigned paths %d" % ([c[-1] for c, _v, _n in pos], len(zero), len(unassigned)))
    fpath = tbf.rel(facts.path_of(g))
    if unassigned:
        res.violation(R, fpath, g["qname"], "slot-unassigned", unassigned[0][2]["l"][1], "some path of the per-dimension loop of GetShiftCoef leaves the coefficient of its dimension unassigned")
    cond_txt = gm.cond_origin(gl[0]["c"][1]).replace(" ", "")
    if not re.fullmatch(r"(\(!false&&)?\(?loopvar<global:Dim\)?\)?", cond_txt):
        res.violation(R, fpath, g["qname"], "all-dimensions", gl[0]["l"][1], "the loop of GetShiftCoef runs while `%s`: it can stop before every dimension has its coefficient" % cond_txt)
    if len(pos) != 2:
        raise AnalysisBroken("GetShiftCoef: %d non-zero branches (2 confirmed by reading: below 0, at or above the box limit)" % len(pos))
    nz = set(c[-1] for c, _v, _n in pos)
    # sign convention: a neighbour reached below coordinate 0 lies one box width LOWER (-W), beyond the limit one box width HIGHER (+W)
    for c, v, n_ in pos:
        below = c[-1].endswith("<0)")
        want_neg = below
        is_neg = v.startswith("-") or v.startswith("(-")
        if want_neg != is_neg:
            res.violation(R, fpath, g["qname"], "shift-sign", n_["l"][1], "under `%s` the coefficient is `%s`: an image reached %s is displaced by %s one box width" % (c[-1], v, "below coordinate 0" if below else "beyond the box limit", "minus" if below else "plus"))
        if "getBoxWidths()[loopvar]" not in v:
            res.violation(R, fpath, g["qname"], "shift-width", n_["l"][1], "the coefficient `%s` is not the box width of the dimension being decided" % v)
    # ---- NeedToShift
    n = fns["NeedToShift"]
    nm = stages.FnModel(facts, n)
    npath = tbf.rel(facts.path_of(n))
    loops = [l for l in walk(nm.body) if l.get("k") == "ForStmt"]
    yes = []      # (conditions, node) under which the answer becomes yes
    flags = set()
    for x in walk(nm.body):
        if x.get("k") == "BinaryOperator" and x.get("op") == "=" and facts.ntext(kids(x)[1]) == "true" and strip(kids(x)[0]).get("k") == "DeclRefExpr":
            flags.add(strip(kids(x)[0])["did"])
            yes.append(x)
        if x.get("k") == "ReturnStmt" and kids(x) and facts.ntext(kids(x)[0]) == "true":
            yes.append(x)
    rets = [x for x in walk(nm.body) if x.get("k") == "ReturnStmt" and kids(x)]
    ycond = set()
    for y in yes:
        ifs = [a for a in tbf.ancestors(y) if a.get("k") == "IfStmt"]
        fl = [a for a in tbf.ancestors(y) if a.get("k") == "ForStmt"]
        if not ifs or len(fl) != 1:
            res.violation(R, npath, n["qname"], "yes-unconditional", y["l"][1], "NeedToShift answers yes outside a per-dimension test")
            continue
        c0 = nm.cond_origin(ifs[0]["c"][0])
        # else-if chains: the enclosing ifs contribute their negation, the innermost its condition
        ycond.add(c0)
    res.instance(R, "NeedToShift", facts.loc(n), "answers yes under %s" % sorted(ycond))
    if ycond != nz:
        res.violation(R, npath, n["qname"], "yes-conditions", n["l"][1], "NeedToShift answers yes under %s but a coefficient is non-zero under %s" % (sorted(ycond), sorted(nz)))
    # the yes-loop covers every dimension (it may stop early only once the answer is yes)
    yl = [l for l in loops if any(any(a is l for a in tbf.ancestors(y)) for y in yes)]
    if len(yl) != 1:
        raise AnalysisBroken("NeedToShift: the loop that decides was not identified")
    ct = nm.cond_origin(yl[0]["c"][1]).replace(" ", "")
    if not re.fullmatch(r"(\(!mutable:\w+&&)?\(?loopvar<global:Dim\)?\)?", ct):
        res.violation(R, npath, n["qname"], "all-dimensions", yl[0]["l"][1], "the deciding loop of NeedToShift runs while `%s`: a dimension that needs a shift can be skipped" % ct)
    # every way of answering no: the fall-through after the deciding loop; any other `return false` / `return flag` before it cannot know about the remaining dimensions
    for r in rets:
        t = facts.ntext(kids(r)[0])
        if t == "true":
            continue
        after = r["l"][1] > yl[0]["l"][1] and not any(a is yl[0] for a in tbf.ancestors(r)) and not [a for a in tbf.ancestors(r) if a.get("k") in ("IfStmt", "ForStmt", "WhileStmt")]
        is_flag = strip(kids(r)[0]).get("did") in flags
        if after and (t == "false" or is_flag):
            continue
        guards = [nm.cond_origin(a["c"][0]) for a in tbf.ancestors(r) if a.get("k") == "IfStmt"]
        res.violation(R, npath, n["qname"], "early-no@%d" % r["l"][1], r["l"][1],
                      "NeedToShift answers `%s` %s before every dimension has been tested against %s: a leaf on a face of the box whose neighbour lies across another face is told that no shift is needed" % (
                          t, ("under `%s`" % guards[0][:90]) if guards else "unconditionally", sorted(nz)))


def tiling(facts, cls, res, formulas, nmax=10):
    """C10.6: the near field and the transfer windows of the virtual levels tile the repetition interval: every image box of the
    interval reported by the library is received exactly once, for every number of extra levels.

    What is read from the code: the extended height H(n) handed to the configuration; M2M: level-(H-2) expansion = the real root, each
    level L < H-2 built from 2^Dim copies of level L+1 at all child positions (self-similar, width doubles); M2L: per level the
    window [lo, hi] of cells of that level's width whose expansion is that level's own, minus the |k| <= 1 core; L2L: level L hands
    its local expansion to level L+1 as the child at position c.  The argument, in one dimension and in units of the original box
    (windows are cubes and the core is the cube of the too-close test, so the Dim-dimensional statement follows): let a_L be the
    lower end and w_L the width of the chain cell at level L (a_(H-2) = 0, w = 1, a_L = a_(L+1) - c w_(L+1)).  Going from the finest
    virtual level to the coarsest, the core of level L, [a_L - w_L, a_L + 2 w_L), must be exactly the region already received
    (initially the interval the periodic real tree covers alone, i.e. the library's interval for n = -1) - a larger core leaves
    images out, a smaller one receives images twice - and the window then becomes the received region.  After the coarsest level the
    received region must be the interval the library reports for that n.  Decided for n = 0..10 (the loops and windows depend on n
    only through H, so the pattern is periodic from n = 2 on; n = -1 is the real tree alone)."""
    R = "C10.6.tiling"
    Hs = sympy.Symbol("H", integer=True)
    Ls = sympy.Symbol("L", integer=True)

    def SY(text):
        return sympy.sympify(text, locals={"H": Hs, "p": P, "n": N})
    f = "src/algorithms/periodic/" + ("tbfalgorithmperiodictoptreetsm.hpp" if cls.endswith("Tsm") else "tbfalgorithmperiodictoptree.hpp")

    def one(name):
        ms = [m for m in facts.methods_of(cls) if m["name"] == name and tbf.body(m) is not None and not m.get("inst")]
        if len(ms) != 1:
            raise AnalysisBroken("%s::%s not found" % (cls, name))
        return ms[0]

    def hval(n, env):
        n = strip(n)
        k = n.get("k")
        if k == "IntegerLiteral":
            return sympy.Integer(n["val"])
        if k == "UnaryOperator" and n.get("op") == "-":
            return -hval(kids(n)[0], env)
        if (k.endswith("CastExpr") or k == "ParenExpr") and len(kids(n)) == 1:
            return hval(kids(n)[0], env)
        if k == "BinaryOperator" and n.get("op") in ("+", "-"):
            a, b = hval(kids(n)[0], env), hval(kids(n)[1], env)
            return a + b if n["op"] == "+" else a - b
        if k == "DeclRefExpr":
            if n.get("did") in env:
                return env[n["did"]]
        if k in ("CallExpr", "CXXMemberCallExpr") and tbf.callee_name(n) in ("getTreeHeight",):
            return Hs
        raise AnalysisBroken("%s: cannot read '%s' as a level" % (facts.loc(n), facts.ntext(n)[:60]))

    # H(n)
    gen = one("GenerateAboveTreeConfiguration")
    rets = [r for r in walk(tbf.body(gen)) if r.get("k") == "ReturnStmt" and kids(r)]
    if len(rets) != 1:
        raise AnalysisBroken("%s::GenerateAboveTreeConfiguration: single return expected" % cls)
    firstarg = [y for y in walk(rets[0]) if y.get("k") == "DeclRefExpr" and y.get("dk") == "Var"]
    decls = {v["did"]: v for v in walk(tbf.body(gen)) if v.get("k") == "VarDecl"}
    if not firstarg or firstarg[0].get("did") not in decls:
        raise AnalysisBroken("%s::GenerateAboveTreeConfiguration: height argument not recognised" % cls)
    hinit = [c for c in walk(decls[firstarg[0]["did"]]) if c.get("k") in ("CallExpr", "CXXMemberCallExpr")]
    if not hinit:
        raise AnalysisBroken("%s::GenerateAboveTreeConfiguration: height is not obtained from a height function" % cls)
    hf = one(tbf.callee_name(hinit[0]))
    hr = [r for r in walk(tbf.body(hf)) if r.get("k") == "ReturnStmt" and kids(r)]
    Hn = nval(facts, kids(hr[0])[0], {hf["params"][-1]["did"]: N})
    res.instance(R, "%s height" % cls, facts.loc(hf), "the top tree's configuration has height H(n) = %s (from %s)" % (Hn, hf["name"]))

    def kcalls(fn, op):
        return [c for c in walk(tbf.body(fn)) if c.get("k") in ("CallExpr", "CXXMemberCallExpr") and tbf.callee_name(c) == op and tbf.call_base(c) is not None and "kernel" in facts.ntext(tbf.call_base(c))]

    def enclosing_for(fn, node):
        tbf.link_parents(tbf.body(fn))
        out = []
        p_ = node.get("_p")
        while p_ is not None:
            if p_.get("k") == "ForStmt":
                out.append(p_)
            p_ = p_.get("_p")
        return out

    def subscript_of(node, arr):
        """level expression e of the first `arr[e]` inside node"""
        for y in walk(node):
            if y.get("k") in ("ArraySubscriptExpr", "CXXOperatorCallExpr") and len(kids(y)) >= 2:
                b_ = strip(kids(y)[-2])
                if b_.get("k") == "MemberExpr" and b_.get("name") == arr or (b_.get("k") == "DeclRefExpr" and b_.get("name") == arr):
                    return kids(y)[-1]
        return None

    def loopvar_env(fn, loops):
        env = {}
        for v in walk(tbf.body(fn)):
            if v.get("k") == "VarDecl" and v.get("name") in ("idxLevel",) and kids(v) and not any(v in [x for x in kids(kids(l)[0])] for l in loops if kids(l) and kids(l)[0] is not None and kids(l)[0].get("k") == "DeclStmt"):
                try:
                    env[v["did"]] = hval(kids(v)[0], env)
                except AnalysisBroken:
                    pass
        for l in loops:
            init = kids(l)[0]
            for v in kids(init):
                if v.get("k") == "VarDecl":
                    env[v["did"]] = Ls
        return env

    # ---- M2M: self-similar levels
    m2m = one("M2M")
    fm = stages.FnModel(facts, m2m)
    cs = kcalls(m2m, "M2M")
    if len(cs) != 2:
        raise AnalysisBroken("%s::M2M: %d kernel calls (2 confirmed by reading)" % (cls, len(cs)))
    base = [c for c in cs if not enclosing_for(m2m, c)]
    rec = [c for c in cs if enclosing_for(m2m, c)]
    if len(base) != 1 or len(rec) != 1:
        raise AnalysisBroken("%s::M2M: base / self-similar calls not recognised" % cls)
    base_level = hval(tbf.call_args(base[0])[1], {})
    base_out = hval(subscript_of(tbf.call_args(base[0])[3], "multipoles"), {})
    loop = enclosing_for(m2m, rec[0])[-1]
    lo_, hi_, d_ = fm.loop_interval(loop)
    env = loopvar_env(m2m, [loop])
    rec_level = hval(tbf.call_args(rec[0])[1], env)
    rec_out = hval(subscript_of(tbf.call_args(rec[0])[3], "multipoles"), env)
    src = None
    allpos = False
    for x in walk(kids(loop)[-1]):
        if x.get("k") in ("CallExpr", "CXXMemberCallExpr") and tbf.callee_name(x) == "emplace_back":
            e_ = subscript_of(x, "multipoles")
            if e_ is not None:
                src = hval(e_, env)
                inner = [l for l in enclosing_for(m2m, x) if l is not loop]
                if len(inner) == 1:
                    ilo, ihi, _d = fm.loop_interval(inner[0])
                    iv = [v for v in kids(kids(inner[0])[0]) if v.get("k") == "VarDecl"][0]
                    asg = [y for y in walk(kids(inner[0])[-1]) if y.get("k") == "BinaryOperator" and y.get("op") == "=" and "positionsOfChildren" in facts.ntext(kids(y)[0])]
                    bt = facts.ntext(kids(inner[0])[1])
                    nchild = "getNbChildrenPerCell" in bt
                    if not nchild:
                        # a class constant equal to 2^Dim
                        for st_ in (facts.cls(cls) or {}).get("statics", []):
                            if re.search(r"\b%s\b" % re.escape(st_["name"]), bt) and st_.get("c") and re.fullmatch(r"\(?\(?1L?\)?<<\(?Dim\)?\)?", facts.ntext(st_["c"][0]).replace(" ", "")):
                                nchild = True
                    allpos = str(ilo) == "0" and nchild and len(asg) == 1 and strip(kids(asg[0])[1]).get("did") == iv["did"]
    okm = base_level == Hs - 2 and base_out == base_level and rec_level == Ls and rec_out == Ls and src == Ls + 1 and allpos and str(hi_) == "H - 3" and d_ == "down"
    res.instance(R, "%s::M2M" % cls, facts.loc(m2m), "real root -> level %s; level L in [%s, %s] = all 2^Dim child positions filled with level %s: %s" % (base_level, lo_, hi_, src, "self-similar" if okm else "NOT recognised as self-similar"))
    if not okm:
        res.violation(R, f, m2m["qname"], "self-similar", m2m["l"][1], "the virtual levels are not built as: level H-2 = the real root, level L = 2^Dim copies of level L+1 at all child positions for L = H-3 .. (found base level %s -> multipoles[%s], level %s from multipoles[%s], all positions: %s, loop [%s, %s] %s): the expansion of a virtual level is then not the expansion of 2^(H-2-L) boxes per dimension" % (base_level, base_out, rec_level, src, allpos, lo_, hi_, d_))
    m2m_top = sympy.Integer(int(str(lo_))) if str(lo_).lstrip("-").isdigit() else None

    # ---- M2L: windows per level
    m2l = one("M2L")
    fm2 = stages.FnModel(facts, m2l)
    top = [x for x in kids(tbf.body(m2l)) if x.get("k") == "IfStmt"]
    if len(top) != 1:
        raise AnalysisBroken("%s::M2L: the branch on the number of extra levels was not recognised" % cls)
    tc = [y for y in kids(top[0]) if y.get("k") != "DeclStmt"]
    cond0 = strip(tc[0])
    if not (cond0.get("k") == "BinaryOperator" and cond0.get("op") == "==" and "nbLevelsAbove0" in facts.ntext(kids(cond0)[0]) and strip(kids(cond0)[1]).get("val") == 0) or len(tc) != 3:
        raise AnalysisBroken("%s::M2L: expected `if(nbLevelsAbove0 == 0) ... else ...`" % cls)

    def window_in(block):
        lo = hi = None
        for v in walk(block):
            if v.get("k") == "VarDecl" and v.get("name") in ("minLimits", "maxLimits") and kids(v):
                for c in walk(v):
                    if c.get("k") == "CallExpr" and tbf.callee_name(c) == "make_array":
                        if v["name"] == "minLimits":
                            lo = int(val(facts, tbf.call_args(c)[0], {}))
                        else:
                            hi = int(val(facts, tbf.call_args(c)[0], {}))
            if v.get("k") in ("CallExpr", "CXXMemberCallExpr") and tbf.callee_name(v) == "fill":
                b_ = tbf.call_base(v)
                nm = strip(b_).get("name") if b_ is not None else None
                if nm == "minLimits":
                    lo = int(val(facts, tbf.call_args(v)[0], {}))
                if nm == "maxLimits":
                    hi = int(val(facts, tbf.call_args(v)[0], {}))
        return lo, hi

    def core_in(block):
        for x in _with_callees(facts, cls, block):
            if x.get("k") == "BinaryOperator" and x.get("op") == ">" and "abs" in facts.ntext(kids(x)[0]):
                return int(val(facts, kids(x)[1], {}))
        raise AnalysisBroken("%s::M2L: too-close test not found" % cls)

    def m2l_call(block, env):
        c_ = [c for c in walk(block) if c.get("k") in ("CallExpr", "CXXMemberCallExpr") and tbf.callee_name(c) == "M2L" and tbf.call_base(c) is not None and "kernel" in facts.ntext(tbf.call_base(c))]
        if len(c_) != 1:
            raise AnalysisBroken("%s::M2L: kernel call not found in a branch" % cls)
        a_ = tbf.call_args(c_[0])
        lvl = hval(a_[1], env)
        out_ = hval(subscript_of(a_[5], "locals"), env)
        srcs = [hval(subscript_of(x, "multipoles"), env) for x in walk(block) if x.get("k") in ("CallExpr", "CXXMemberCallExpr") and tbf.callee_name(x) == "emplace_back" and subscript_of(x, "multipoles") is not None]
        return lvl, out_, srcs

    # n == 0 branch
    env0 = {}
    for v in walk(tc[1]):
        if v.get("k") == "VarDecl" and v.get("name") == "idxLevel" and kids(v):
            env0[v["did"]] = hval(kids(v)[0], {})
    w0 = window_in(tc[1])
    lvl0, out0, src0 = m2l_call(tc[1], env0)
    core0 = core_in(tc[1])
    # n >= 1 branch
    loops = [x for x in walk(tc[2]) if x.get("k") == "ForStmt" and fm2.is_level_loop(x)]
    if len(loops) != 1:
        raise AnalysisBroken("%s::M2L: the loop over the virtual levels was not recognised" % cls)
    llo, lhi, ld = fm2.loop_interval(loops[0])
    envl = loopvar_env(m2l, [loops[0]])
    lv = [v for v in kids(kids(loops[0])[0]) if v.get("k") == "VarDecl"][0]
    sel = [x for x in walk(kids(loops[0])[-1]) if x.get("k") == "IfStmt" and any(y.get("k") == "DeclRefExpr" and y.get("did") == lv["did"] for y in walk([z for z in kids(x) if z.get("k") != "DeclStmt"][0]))
           and any(tbf.callee_name(y) == "fill" for y in walk(x) if y.get("k") in ("CallExpr", "CXXMemberCallExpr"))]
    per_level = []       # (predicate on L as (op, const) or None for default, (lo, hi))
    if len(sel) == 1:
        sc = [y for y in kids(sel[0]) if y.get("k") != "DeclStmt"]
        c1 = strip(sc[0])
        if not (c1.get("k") == "BinaryOperator" and c1.get("op") == "==" and strip(kids(c1)[0]).get("did") == lv["did"]) or len(sc) != 3:
            raise AnalysisBroken("%s::M2L: the level test selecting the window is not `idxLevel == c` with an else branch" % cls)
        per_level.append((int(strip(kids(c1)[1])["val"]), window_in(sc[1])))
        per_level.append((None, window_in(sc[2])))
    elif not sel:
        per_level.append((None, window_in(kids(loops[0])[-1])))
    else:
        raise AnalysisBroken("%s::M2L: %d level tests selecting windows" % (cls, len(sel)))
    lvl1, out1, src1 = m2l_call(kids(loops[0])[-1], envl)
    core1 = core_in(kids(loops[0])[-1])
    okl = lvl0 == out0 and all(s_ == lvl0 for s_ in src0) and src0 and lvl1 == Ls and out1 == Ls and src1 and all(s_ == Ls for s_ in src1)
    res.instance(R, "%s::M2L" % cls, facts.loc(m2l), "n = 0: level %s window %s core %d; n >= 1: levels [%s, %s], windows %s core %d; sources and target of level L are level L's: %s" % (lvl0, w0, core0, llo, lhi, per_level, core1, okl))
    if not okl:
        res.violation(R, f, m2l["qname"], "level-coherence", m2l["l"][1], "a transfer of virtual level L must read multipoles[L] and add to locals[L] with the level argument L (found level %s / sources %s -> locals[%s]; loop level %s / sources %s -> locals[%s])" % (lvl0, src0, out0, lvl1, src1, out1))

    # ---- L2L: which child the chain cell is
    l2l = one("L2L")
    fm3 = stages.FnModel(facts, l2l)
    cs = kcalls(l2l, "L2L")
    rec = [c for c in cs if enclosing_for(l2l, c)]
    base = [c for c in cs if not enclosing_for(l2l, c)]
    if len(rec) != 1 or len(base) != 1:
        raise AnalysisBroken("%s::L2L: chain / base calls not recognised" % cls)
    loop3 = enclosing_for(l2l, rec[0])[-1]
    l3lo, l3hi, l3d = fm3.loop_interval(loop3)
    env3 = loopvar_env(l2l, [loop3])
    par = hval(subscript_of(tbf.call_args(rec[0])[2], "locals"), env3)
    lvl3 = hval(tbf.call_args(rec[0])[1], env3)
    child = None
    cpos = None
    for x in walk(kids(loop3)[-1]):
        if x.get("k") in ("CallExpr", "CXXMemberCallExpr") and tbf.callee_name(x) == "emplace_back" and subscript_of(x, "locals") is not None:
            child = hval(subscript_of(x, "locals"), env3)
        if x.get("k") == "BinaryOperator" and x.get("op") == "=" and "positionsOfChildren" in facts.ntext(kids(x)[0]):
            try:
                cpos = int(val(facts, kids(x)[1], {}))
            except Exception:
                cpos = None
    bpar = hval(subscript_of(tbf.call_args(base[0])[2], "locals"), {})
    blvl = hval(tbf.call_args(base[0])[1], {})
    ok3 = par == Ls and lvl3 == Ls and child == Ls + 1 and cpos in (0, 1) and bpar == Hs - 2 and blvl == Hs - 2 and str(l3hi) == "H - 3" and l3d == "up"
    res.instance(R, "%s::L2L" % cls, facts.loc(l2l), "levels [%s, %s]: locals[L] -> locals[%s] as child %s; level %s -> the real level-1 cells: %s" % (l3lo, l3hi, child, cpos, bpar, "chain" if ok3 else "NOT recognised"))
    if not ok3:
        res.violation(R, f, l2l["qname"], "chain", l2l["l"][1], "the downward pass over the virtual levels is not: locals[L] into locals[L+1] as one fixed child (position 0 or 1 per dimension), L = .. H-3, then locals[H-2] into the real level-1 cells (found locals[%s] -> locals[%s] as child %s with level %s over [%s, %s]; base locals[%s] level %s)" % (par, child, cpos, lvl3, l3lo, l3hi, bpar, blvl))
    if not (okm and okl and ok3):
        return
    # ---- the tiling, n = 0 .. 10
    near = formulas.get(-1)
    if near is None:
        raise AnalysisBroken("%s: interval of the real periodic tree alone (n = -1) not available" % cls)
    nlo, nhi = int(SY(near[1])), int(SY(near[2]))
    checked = 0
    for n in range(0, nmax + 1):
        H = int(Hn.subs(N, n))
        if "byn" in formulas:
            if n not in formulas["byn"]:
                break
            want = (formulas["byn"][n][1], formulas["byn"][n][2] + 1)
        else:
            fl = formulas[0] if n == 0 else formulas["else"]
            want = (int(SY(fl[1]).subs(P, 2 ** n)), int(SY(fl[2]).subs(P, 2 ** n)) + 1)
        # levels at which a transfer happens, finest first
        if n == 0:
            levels = [(int(lvl0.subs(Hs, H)), w0, core0)]
        else:
            a_, b_ = int(SY(str(llo)).subs(Hs, H)), int(SY(str(lhi)).subs(Hs, H))
            levels = []
            for L in range(b_, a_ - 1, -1):
                w_ = [w for (c_, w) in per_level if c_ == L] or [w for (c_, w) in per_level if c_ is None]
                levels.append((L, w_[0], core1))
        # the levels that exist: M2M builds H-2 down to its loop's lower bound; L2L carries lower bound .. H-3 down
        got = (nlo, nhi + 1)
        a_L, w_L, prev = 0, 1, H - 2
        bad = None
        for (L, (wlo, whi), core) in levels:
            if L > H - 2 or (m2m_top is not None and L < int(m2m_top)) and L != H - 2:
                bad = "level %d has no expansion (M2M builds levels %s .. H-2 = %d)" % (L, lo_, H - 2)
                break
            while prev > L:
                a_L -= cpos * w_L
                w_L *= 2
                prev -= 1
            if L < H - 2 and not (int(SY(str(l3lo)).subs(Hs, H)) <= L <= int(SY(str(l3hi)).subs(Hs, H))):
                bad = "the local expansion of level %d is never handed down (L2L carries levels %s .. %s)" % (L, l3lo, l3hi)
                break
            core_iv = (a_L - core * w_L, a_L + (core + 1) * w_L)
            if core_iv != got:
                more = "; ".join(t for t in ("images in %s are received twice" % _iv_minus(got, core_iv) if _iv_minus(got, core_iv) else "", "images in %s are never received" % _iv_minus(core_iv, got) if _iv_minus(core_iv, got) else "") if t)
                bad = "at virtual level %d (cells of %d boxes, chain cell at %d) the excluded core covers boxes [%d, %d] but the finer levels and the near field have covered [%d, %d]: %s" % (L, w_L, a_L, core_iv[0], core_iv[1] - 1, got[0], got[1] - 1, more)
                break
            got = (a_L + wlo * w_L, a_L + (whi + 1) * w_L)
        if bad is None and got != want:
            bad = "the levels together cover the boxes [%d, %d] but the library reports the repetition interval [%d, %d]" % (got[0], got[1] - 1, want[0], want[1] - 1)
        checked += 1
        if bad is not None:
            res.violation(R, f, cls, "n=%d" % n if n < 3 else "n>=3", m2l["l"][1], "with %d extra level(s): %s - not every image of the reported interval contributes exactly once" % (n, bad))
            if n >= 3:
                break
    res.instance(R, "%s tiling" % cls, facts.loc(m2l), "n = 0 .. %d: core of each virtual level == region already received, final region == reported interval" % (checked - 1))


def _iv_minus(a, b):
    """boxes of interval a (half open) not in interval b, as text; '' when none"""
    out = []
    if a[0] < min(b[0], a[1]):
        out.append("[%d, %d]" % (a[0], min(b[0], a[1]) - 1))
    if a[1] > max(b[1], a[0]):
        out.append("[%d, %d]" % (max(b[1], a[0]), a[1] - 1))
    return " and ".join(out)


def run(res, tier):
    facts = tbf.scan("core")
    res.units.append("umbrella TU 'core': TbfAlgorithmPeriodicTopTree, TbfAlgorithmPeriodicTopTreeTsm, TbfMortonSpaceIndex::getNbInteractionsPerCell")
    res.rule("C10.1 per branch (-1, 0, >=1 extra levels): hi - lo + 1 == repetitions per dimension (identity in p=2^n), interval contains 0, total = count^Dim")
    res.rule("C10.2 (window width)^Dim - (core)^Dim == declared extent of the position array for every transfer window")
    res.rule("C10.4 extended box width = original width x 2^(extended tree height - 2), as a multiplicative update, on every branch")
    res.rule("C10.3 the single-tree and target/source top trees agree on formulas, windows and virtual-level loops")
    res.rule("C10.5 the shift decision (NeedToShift) is true exactly under the per-dimension conditions that give a non-zero shift coefficient (GetShiftCoef), both cover all dimensions, -W below 0 / +W beyond the limit")
    res.rule("C10.6 tiling: with the height, windows, cores, child position and level loops read from the code, the core of each virtual level is exactly the region the finer levels and the near field have already covered and the final region is the reported repetition interval, for n = 0..10 extra levels (one-dimensional argument in units of the original box; windows and cores are cubes)")
    shift_agreement(facts, res)
    res.rule("C10.7 shifted copies private: no function the numerical kernels' operators reach (the periodic shifter in particular) keeps a mutable static local that is not thread_local - the shifted image of a source leaf must belong to the task that asked for it, whatever the executor")
    import c05
    for kcls in ("FUnifKernel", "FRotationKernel"):
        c05.operator_static_locals(facts, res, kcls, "C10.7.shifted-copies-private")
    res.rule("C10.8 the real periodic tree alone covers the images -1 .. 1 exactly once: model built from the periodic side of the list builders (window, parent wrap and child shift, too-close threshold, empty-below level) and transfers from TbfDefaultLastLevelPeriodic; every unwrapped leaf cell of the 3^Dim images reaches every target exactly once, nothing outside does (Dim 1 heights 2..6, Dim 2 heights 2..4) - the premise of C10.6")
    import decomp
    gl = [g_ for g_ in facts.globals if g_["name"] == "TbfDefaultLastLevelPeriodic" and g_.get("c")]
    lit = [z for z in walk(gl[0]["c"][0]) if z.get("k") == "IntegerLiteral"] if len(gl) == 1 else []
    if len(lit) != 1:
        raise AnalysisBroken("TbfDefaultLastLevelPeriodic not found as an integer constant")
    npairs = decomp.check_periodic(facts, res, "C10.8.periodic-real-tree", "TbfMortonSpaceIndex", int(lit[0]["val"]), thorough=(tier == "thorough"))
    res.floor("C10.8.periodic-real-tree", npairs, 1000, "(target, unwrapped source) pairs")
    res.instance("C10.8.periodic-real-tree", "model size", "rules/decomp.py", "%d (target leaf cell, unwrapped source leaf cell) pairs examined" % npairs)
    res.obligations += npairs
    res.discharged += npairs if not any(v["rule"].startswith("C10.8") for v in res.violations) else 0
    res.rule("C10.9 the box expansion is assembled from / handed down to the level-1 cells at their true child positions: every kernel call of the two top trees has role-coherent arguments (rule C02.1 on the 2 x 6 top-tree call sites: expansions and position codes of the same cells, codes = child position of the cell's index, never a running counter)")
    import c02
    import effects
    import coherence
    sub = tbf.Result("C02")
    cmap9 = effects.container_map(facts)
    n9 = 0
    for tcls in CLASSES:
        for fn9, sr9, call9, op9, slots9 in c02.toptree_calls(facts, tcls, cmap9):
            c02.role_coherence(facts, fn9, sr9, call9, op9, slots9, sub)
            n9 += 1
    for v in sub.violations:
        res.violation("C10.9.true-child-positions", v["file"], v["function"], v["key"], v["line"], v["msg"] + " - the images handled by the virtual levels reach the particles displaced by fractions of the box width")
    res.instance("C10.9.true-child-positions", "top-tree kernel calls", "src/algorithms/periodic", "%d call sites role-coherent" % n9)
    res.floor("C10.9", n9, 12, "top-tree kernel call sites")
    res.rule("C10.10 the periodic ordering bins a particle by the cell that CONTAINS its stored position (rule C06.6: coordinate = min(floor(x / leaf width), N-1) for every x in the closed box, decided over the abstract cell number): the +-box-width shift of the near field and the leaf centres of P2M / L2P are relative to that cell; a wrapped coordinate puts an upper-face particle a box width away from its leaf")
    import c06
    sub10 = tbf.Result("C06")
    c06.grid_range(facts, sub10)
    for i in sub10.instances:
        if i["rule"].startswith("C06.6.cell-of-position"):
            res.instance("C10.10.cell-of-position", i["key"], i["at"], i["detail"])
    for v in sub10.violations:
        res.violation("C10.10.cell-of-position", v["file"], v["function"], v["key"], v["line"], v["msg"])
    res.floor("C10.10", len([i for i in sub10.instances if i["rule"].startswith("C06.6.cell-of-position")]), 2, "returns of getTreeCoordinate")
    res.rule("C10.11 the shifted images handed to the near field are computed from the current particles on every call: the numeric kernels and the periodic shifter keep no mutable member (rule C04.5b) that could hand out the images of an earlier execution")
    import c04 as _c04
    sub11 = tbf.Result("C04")
    n11 = sum(_c04.no_mutable_members(facts, sub11, "C04.5b", pre_) for pre_ in ("src/kernels/rotationkernel/", "src/kernels/unifkernel/", "src/utils/tbfperiodicshifter"))
    for v in sub11.violations:
        res.violation("C10.11.images-of-current-particles", v["file"], v["function"], v["key"], v["line"], v["msg"])
    res.instance("C10.11.images-of-current-particles", "classes", "src/kernels, src/utils/tbfperiodicshifter.hpp", "%d classes examined, no mutable member" % n11)
    res.floor("C10.11", n11, 8, "classes examined for mutable members")
    morton_nb = morton_interactions(facts)
    res.instance("C10.2.window-extent", "getNbInteractionsPerCell", "src/spacial/tbfmortonspaceindex.hpp", "%d^Dim - %d^Dim" % morton_nb)
    summ = {}
    for cls in CLASSES:
        f1 = repetition_formulas(facts, cls, res)
        w = windows(facts, cls, res, morton_nb)
        v = virtual_levels(facts, cls)
        extension_geometry(facts, cls, res)
        tiling(facts, cls, res, f1, nmax=(30 if tier == "thorough" else 10))
        summ[cls] = {"formulas": f1, "windows": w, "virtual": v}
    a, b = summ[CLASSES[0]], summ[CLASSES[1]]
    R = "C10.3.sibling-agreement"
    def _canon_formulas(fm_):
        """the repetition functions as values for -1 .. 12 extra levels, whichever way they were read (branch-wise closed forms or constant folding)"""
        if "byn" in fm_:
            return {n_: tuple(int(x_) for x_ in v_) for n_, v_ in fm_["byn"].items()}
        out_ = {}
        for n_ in range(-1, 13):
            t_ = fm_[n_] if n_ in (-1, 0) else fm_["else"]
            out_[n_] = tuple(int(sympy.sympify(x_, locals={"p": P}).subs(P, 2 ** n_)) for x_ in t_)
        return out_
    for part in ("formulas", "windows"):
        res.instance(R, part, "src/algorithms/periodic", "%s" % (a[part],))
        if (_canon_formulas(a[part]) != _canon_formulas(b[part])) if part == "formulas" else (a[part] != b[part]):
            res.violation(R, "src/algorithms/periodic/tbfalgorithmperiodictoptreetsm.hpp", CLASSES[1], part, 1,
                          "%s of the target/source top tree (%s) differ from the single-tree top tree (%s)" % (part, b[part], a[part]))
    for key in sorted(set(a["virtual"]) | set(b["virtual"])):
        res.instance(R, "virtual:" + key, "src/algorithms/periodic", str(a["virtual"].get(key))[:160])
        if a["virtual"].get(key) != b["virtual"].get(key):
            res.violation(R, "src/algorithms/periodic/tbfalgorithmperiodictoptreetsm.hpp", CLASSES[1] + "::" + key, "virtual:" + key, 1,
                          "'%s' differs between the two top-tree executors: %s vs %s" % (key, str(a["virtual"].get(key))[:200], str(b["virtual"].get(key))[:200]))
