"""C16 — cell and leaf lookup finds exactly what exists.

Only the *soundness of positive answers* is decided (a necessary condition of "returns a handle if
and only if it exists"); completeness - that an existing element is always found - rests on the
sortedness of groups and cells (C07, run-time data) and on the binary-search helper, and is NOT
decided.

 1 in-group lookup (cells by index, cells by parent index, leaves by index): every return of a
   position is dominated by (a) `position != number of elements` and (b) an equality test between the
   query and the key stored AT THAT POSITION; every other exit returns the empty optional; the key
   compared by the search comparator is the key verified in (b), and the search runs over
   [0, number of elements)
 2 tree-level lookup: a (group, position) pair is returned only under `iterator != end`,
   `first <= query <= last` of that group and a successful in-group lookup whose position is the one
   returned; groups are searched by their last index; the fall-through return is empty
 3 the target/source tree forwards each lookup to the corresponding tree
"""
import re

import tbf
import stages
from tbf import walk, kids, strip, AnalysisBroken

LEVEL = "other"
TECHNIQUE = "dominance / key-agreement rules on the lookup functions over the clang AST + integer constraint systems for arithmetic exits + derived-state rules of C13 restricted to the members the lookups name"

INGROUP = [("TbfCellsContainer", "getElementFromSpacialIndex", "nbCells"), ("TbfCellsContainer", "getElementFromParentIndex", "nbCells"),
           ("TbfParticlesContainer", "getElementFromSpacialIndex", "nbLeaves")]


def is_empty_return(facts, r):
    e = strip(kids(r)[0]) if kids(r) else None
    if e is not None and e.get("k") in ("CXXUnresolvedConstructExpr", "CXXTemporaryObjectExpr", "CXXConstructExpr", "CXXScalarValueInitExpr", "InitListExpr") and not kids(e):
        return True      # T(): value-initialised result, whatever T is spelled like
    t = facts.ntext(r)
    return "nullopt" in t or re.search(r"optional<[^;]*>\(\)\s*;?$", t.replace(" ", "")) is not None


def ingroup(facts, cls, name, countfield, res):
    R = "C16.1.ingroup-lookup"
    fns = [m for m in facts.methods_of(cls) if m["name"] == name]
    if len(fns) != 1:
        raise AnalysisBroken("%s::%s not found" % (cls, name))
    fn = fns[0]
    fm = stages.FnModel(facts, fn)
    f = tbf.rel(facts.path_of(fn))
    top = kids(fm.body)
    query = fn["params"][-1]
    rets = [x for x in walk(fm.body, into_lambdas=False) if x.get("k") == "ReturnStmt"]
    succ = [r for r in rets if not is_empty_return(facts, r)]
    if len(succ) > 1:
        # additional positive exits (fast paths): a position may only be returned on a path that tested the query against something
        main = [r for r in succ if any(fm.decls.get(y.get("did")) is not None and kids(fm.decls[y["did"]]) and tbf.callee_name(strip(kids(fm.decls[y["did"]])[0])) == "lower_bound_indexes"
                                       for y in walk(r) if y.get("k") == "DeclRefExpr" and y.get("dk") == "Var")]
        if len(main) != 1:
            raise AnalysisBroken("%s::%s: %d non-empty returns, %d of them from the search (1 / 1 confirmed by reading)" % (cls, name, len(succ), len(main)))
        lk0 = _Look(facts, fn)
        for r in succ:
            if r is main[0]:
                continue
            conds = []
            p = r.get("_p")
            while p is not None:
                if p.get("k") == "IfStmt":
                    conds.append(p["c"][-3] if len(p["c"]) >= 3 else p["c"][0])
                p = p.get("_p")
            for st in top:
                if st["l"][1] >= r["l"][1]:
                    break
                if st.get("k") == "IfStmt" and any(x.get("k") == "ReturnStmt" for x in walk(st)) and not any(x is r for x in walk(st)):
                    conds.append(st["c"][-3] if len(st["c"]) >= 3 else st["c"][0])
            # guards of every enclosing block (early returns before this exit) count as conditions on its path
            cur_ = r
            p_ = cur_.get("_p")
            while p_ is not None:
                if p_.get("k") == "CompoundStmt":
                    for st in kids(p_):
                        if st is cur_:
                            break
                        if st.get("k") == "IfStmt" and any(x.get("k") == "ReturnStmt" for x in walk(st)):
                            conds.append(st["c"][-3] if len(st["c"]) >= 3 else st["c"][0])
                cur_ = p_
                p_ = p_.get("_p")
            tests_query = any(y.get("k") == "DeclRefExpr" and y.get("did") == query["did"] for c in conds for y in walk(c)) or \
                any(re.search(r"(^|[^\w])q([^\w]|$)", lk0.desc(y)) for c in conds for y in walk(c) if y.get("k") == "DeclRefExpr" and y.get("dk") == "Var")
            res.instance(R, "%s::%s extra positive exit@%d" % (cls, name, r["l"][1]), facts.loc(r), "conditions on its path mention the query: %s" % tests_query)
            if not tests_query:
                res.violation(R, f, fn["qname"], "untested-positive-exit@%d" % r["l"][1], r["l"][1],
                              "a position is returned (`%s`) on a path where the queried index was never compared with anything: indices outside the group, or absent from it, are reported as found" % facts.ntext(r)[:90])
            else:
                # a probe: the key stored at the returned position was compared with the query on this path - sound whatever led there
                # (that the position is inside the group is rule C15.10)
                rv = [y for y in walk(r) if y.get("k") == "DeclRefExpr" and y.get("dk") == "Var"]
                probed = False
                if len(rv) == 1:
                    for c_ in conds:
                        for part in _conjuncts(c_):
                            pt = strip(part)
                            if pt is not None and pt.get("k") == "BinaryOperator" and pt.get("op") == "==":
                                sides = [strip(kids(pt)[0]), strip(kids(pt)[1])]
                                for a_, b_ in (sides, sides[::-1]):
                                    key_at_p = a_.get("k") in ("MemberExpr", "CXXDependentScopeMemberExpr") and a_.get("name") == "spaceIndex" and kids(a_) \
                                        and strip(kids(a_)[0]).get("k") in ("CallExpr", "CXXMemberCallExpr") and tbf.callee_name(strip(kids(a_)[0])) == "getItem" \
                                        and len(tbf.call_args(strip(kids(a_)[0]))) == 1 and strip(tbf.call_args(strip(kids(a_)[0]))[0]).get("did") == rv[0].get("did")
                                    if key_at_p and b_.get("k") == "DeclRefExpr" and b_.get("did") == query["did"] and "Parent" not in name:
                                        probed = True
                if probed:
                    res.instance(R, "%s::%s probed exit@%d" % (cls, name, r["l"][1]), facts.loc(r), "returns a position whose stored key was compared with the query on the same path")
                    continue
                verdict = arithmetic_exit(facts, cls, fn, fm, r, query, countfield, by_parent=("Parent" in name))
                if verdict is None:
                    raise AnalysisBroken("%s::%s: an additional positive exit at line %d tests the query in a way the rule does not model; re-confirm C16.1 by reading" % (cls, name, r["l"][1]))
                ok, text = verdict
                res.instance(R, "%s::%s arithmetic exit@%d" % (cls, name, r["l"][1]), facts.loc(r), text[:200])
                if not ok:
                    res.violation(R, f, fn["qname"], "arithmetic-exit@%d" % r["l"][1], r["l"][1], text)
        succ = main
    if len(succ) != 1:
        raise AnalysisBroken("%s::%s: %d non-empty returns (1 confirmed by reading)" % (cls, name, len(succ)))
    s = succ[0]
    retvars = [y for y in walk(s) if y.get("k") == "DeclRefExpr" and y.get("dk") == "Var"]
    if len(retvars) != 1:
        raise AnalysisBroken("%s::%s: returned position is not a single local" % (cls, name))
    pos = retvars[0]
    posdecl = fm.decls.get(pos["did"])
    # the search call
    search = strip(kids(posdecl)[0]) if posdecl is not None and kids(posdecl) else None
    if search is None or tbf.callee_name(search) != "lower_bound_indexes":
        raise AnalysisBroken("%s::%s: returned position is not the result of lower_bound_indexes" % (cls, name))
    sargs = tbf.call_args(search)
    lo, hi, val = facts.ntext(sargs[0]), facts.ntext(sargs[1]), strip(sargs[2])
    lam = strip(sargs[3])
    res.instance(R, "%s::%s search" % (cls, name), facts.loc(search), "range [%s, %s) value %s" % (lo, hi, facts.ntext(sargs[2])))
    mnar = re.match(r"^(?:std::)?min\((.*)\)$", hi)
    if lo == "0" and mnar and val.get("did") == query["did"] and any(a_.strip().endswith("." + countfield) for a_ in re.split(r",(?![^()]*\))", mnar.group(1))):
        # a search over a prefix of the group: positive answers stay sound (the key at the result is verified below); that nothing is missed
        # depends on why the rest was excluded, which this rule does not model
        raise AnalysisBroken("%s::%s: the binary search runs over [0, %s), a prefix of the group: whether an existing element can lie outside it depends on what was tested before - re-confirm by reading" % (cls, name, hi))
    if lo != "0" or not hi.endswith("." + countfield) or val.get("did") != query["did"]:
        res.violation(R, f, fn["qname"], "search-range", search["l"][1], "the search does not run over [0, %s) for the queried index (got [%s, %s) value %s)" % (countfield, lo, hi, facts.ntext(sargs[2])))
    # comparator: key(it) < value
    if lam.get("k") != "LambdaExpr" or len(lam.get("params", [])) != 2:
        raise AnalysisBroken("%s::%s: search comparator is not a two-parameter lambda" % (cls, name))
    lrets = [x for x in walk(lam) if x.get("k") == "ReturnStmt"]
    lcmp = strip(kids(lrets[0])[0]) if lrets else None
    if lcmp is None or lcmp.get("k") != "BinaryOperator" or lcmp.get("op") != "<":
        res.violation(R, f, fn["qname"], "comparator", lam["l"][1], "the search comparator is not `key(position) < value`")
        return
    lkey = facts.ntext(kids(lcmp)[0])
    lval = strip(kids(lcmp)[1])
    if lval.get("did") != lam["params"][1]["did"]:
        res.violation(R, f, fn["qname"], "comparator-value", lam["l"][1], "the search comparator does not compare against the searched value")
    # guards dominating the success return: top-level `if(cond){ return empty; }` before it
    guards = []
    for st in top:
        if st["l"][1] >= s["l"][1]:
            break
        if st.get("k") == "IfStmt":
            then = st["c"][1]
            trets = [x for x in walk(then) if x.get("k") == "ReturnStmt"]
            if trets and all(is_empty_return(facts, r) for r in trets):
                guards.append(st)
    if s.get("_p") is not fm.body:
        res.violation(R, f, fn["qname"], "success-not-toplevel", s["l"][1], "the position is returned from inside a branch the analyser does not relate to the guards")
    bound_ok = False
    key_ok = False
    gkey = None
    def disjuncts(e):
        e = strip(e)
        if e.get("k") == "BinaryOperator" and e.get("op") == "||":
            return disjuncts(kids(e)[0]) + disjuncts(kids(e)[1])      # left to right: the order in which a short-circuit evaluates them
        return [e]
    flat = []
    for g in guards:
        flat += disjuncts(g["c"][0])
    for c in flat:
        if c.get("k") != "BinaryOperator":
            continue
        a, b = [strip(x) for x in kids(c)]
        if c["op"] == "==" and a.get("did") == pos["did"] and facts.ntext(b).endswith("." + countfield):
            bound_ok = True
        elif not bound_ok and re.search(r"getItem\(%s\)" % re.escape(pos["name"]), facts.ntext(c)):
            # the record at the position is read before (or without) the bound test: `a || b` evaluates a first
            break
        if c["op"] == "!=" and (b.get("did") == query["did"] or a.get("did") == query["did"]):
            keyexpr = a if b.get("did") == query["did"] else b
            gkey = facts.ntext(keyexpr)
            # the key must be read at the returned position: a local bound to getItem(pos)
            if re.search(r"getItem\(%s\)" % re.escape(pos["name"]), gkey):
                key_ok = True          # read at the returned position directly, without a named local
            used = [y for y in walk(keyexpr) if y.get("k") == "DeclRefExpr" and y.get("dk") == "Var"]
            for u in used:
                d = fm.decls.get(u["did"])
                if d is not None and kids(d):
                    it = facts.ntext(kids(d)[0])
                    if re.search(r"getItem\(%s\)" % re.escape(pos["name"]), it):
                        key_ok = True
    res.instance(R, "%s::%s guards" % (cls, name), facts.loc(s), "bound test: %s, key test at the returned position: %s (%s); comparator key: %s" % (bound_ok, key_ok, gkey, lkey))
    if not bound_ok:
        res.violation(R, f, fn["qname"], "bound-guard", s["l"][1], "a position equal to the number of elements can be returned / dereferenced: no dominating `position == %s -> empty` test" % countfield)
    if not key_ok:
        res.violation(R, f, fn["qname"], "key-guard", s["l"][1], "a position is returned without verifying that the key stored at that position equals the queried index: absent indices would be reported as found")
    if key_ok and gkey is not None:
        # same key expression in the comparator and in the verification (modulo the name of the header local)
        norm = lambda t: re.sub(r"\b\w*[Hh]eader\b", "HDR", re.sub(r"\b[\w.]+(?:\(\))?(?:\.template\s*\w+<\d+>\(\)|\.?template\w+<\d+>\(\))?\.getItem\([^()]*\)", "HDR", t))
        if norm(gkey) != norm(lkey):
            res.violation(R, f, fn["qname"], "key-agreement", lam["l"][1], "the search orders elements by `%s` but the result is verified with `%s`" % (lkey, gkey))


def arithmetic_exit(facts, cls, fn, fm, ret, query, countfield, by_parent):
    """A positive exit that computes the position instead of verifying the stored key (fast path of a group without holes).
    The guards on its path and the returned position are translated into integer arithmetic over S (first index), E (last
    index), N (count), Q (query), B = 2^Dim; a group whose keys are strictly increasing (C07) with E - S + 1 == N holds exactly
    the keys S .. E, so key(i) = S + i.  The obligation - the position is inside the group and the key there is the query
    (resp. has the query as parent: Q*B <= key <= Q*B + B - 1) - is then a quantifier-free formula of linear integer arithmetic
    with small constants; it is decided by enumerating a box of values that contains a counter-model whenever one exists.
    Returns (proved?, explanation) or None when the path cannot be translated."""
    import sympy
    import itertools
    S, E, N, Q, B = sympy.symbols("S E N Q B", integer=True)
    lk = _Look(facts, fn)

    class Untranslatable(Exception):
        pass

    def tr(n, bind=None, depth=0):
        n = strip(n)
        bind = bind or {}
        if n is None or depth > 14:
            raise Untranslatable()
        k = n.get("k")
        if k == "IntegerLiteral":
            return sympy.Integer(n["val"])
        if k in ("CXXStaticCastExpr", "CStyleCastExpr", "CXXFunctionalCastExpr", "CXXConstructExpr", "CXXTemporaryObjectExpr", "CXXUnresolvedConstructExpr", "MaterializeTemporaryExpr") and len(kids(n)) == 1:
            return tr(kids(n)[0], bind, depth + 1)
        if k == "DeclRefExpr":
            if n.get("did") in bind:
                return bind[n["did"]]
            if n.get("did") == query["did"]:
                return Q
            i = lk.local_init(n)
            if i is not None:
                return tr(i, bind, depth + 1)
            raise Untranslatable()
        if k in ("MemberExpr", "CXXDependentScopeMemberExpr"):
            nm = n.get("name")
            if nm == "startingSpaceIndex":
                return S
            if nm == "endingSpaceIndex":
                return E
            if nm == countfield:
                return N
            raise Untranslatable()
        if k == "UnaryOperator" and n.get("op") == "!":
            return sympy.Not(tr(kids(n)[0], bind, depth + 1))
        if k == "UnaryOperator" and n.get("op") == "-":
            return -tr(kids(n)[0], bind, depth + 1)
        if k == "BinaryOperator":
            a, b = tr(kids(n)[0], bind, depth + 1), tr(kids(n)[1], bind, depth + 1)
            op = n.get("op")
            if op in ("+", "-", "*"):
                return {"+": a + b, "-": a - b, "*": a * b}[op]
            if op in ("<", "<=", ">", ">=", "==", "!="):
                return {"<": sympy.Lt, "<=": sympy.Le, ">": sympy.Gt, ">=": sympy.Ge, "==": sympy.Eq, "!=": sympy.Ne}[op](a, b)
            if op == "&&":
                return sympy.And(a, b)
            if op == "||":
                return sympy.Or(a, b)
            raise Untranslatable()
        if k in ("CallExpr", "CXXMemberCallExpr"):
            nm = tbf.callee_name(n)
            args = tbf.call_args(n)
            if nm == "getChildIndexFromParent" and len(args) == 2:
                return tr(args[0], bind, depth + 1) * B + tr(args[1], bind, depth + 1)       # child = parent * 2^Dim + code (C11.4)
            if nm == "getParentIndex" and len(args) == 1:
                return sympy.floor(tr(args[0], bind, depth + 1) / B)
            if nm == "getNbChildrenPerCell" and not args:
                return B
            if nm in ("max", "min") and len(args) == 2:
                return (sympy.Max if nm == "max" else sympy.Min)(tr(args[0], bind, depth + 1), tr(args[1], bind, depth + 1))
            if nm in ("optional", "make_optional") and len(args) == 1:
                return tr(args[0], bind, depth + 1)
            cands = [g for g in facts.methods_of(cls) if g["name"] == nm and tbf.body(g) is not None and len(g["params"]) == len(args)]
            if len(cands) == 1:
                st = kids(tbf.body(cands[0]))
                if len(st) == 1 and st[0].get("k") == "ReturnStmt" and kids(st[0]):
                    b2 = {}
                    for p_, a in zip(cands[0]["params"], args):
                        a0 = strip(a)
                        # a header object handed to a helper: its members are read by name
                        try:
                            b2[p_["did"]] = tr(a, bind, depth + 1)
                        except Untranslatable:
                            b2[p_["did"]] = None
                    return tr(kids(st[0])[0], {k_: v_ for k_, v_ in b2.items() if v_ is not None}, depth + 1)
            raise Untranslatable()
        raise Untranslatable()

    try:
        pathc = []
        cur = ret
        p = cur.get("_p")
        while p is not None:
            if p.get("k") == "IfStmt":
                cond = p["c"][0]
                if len(p["c"]) > 1 and p["c"][1] is not None and (p["c"][1] is cur or any(y is cur for y in walk(p["c"][1]))):
                    pathc.append(tr(cond))
                elif len(p["c"]) > 2 and p["c"][2] is not None:
                    pathc.append(sympy.Not(tr(cond)))
            if p.get("k") == "CompoundStmt":
                for st in kids(p):
                    if st is cur:
                        break
                    if st.get("k") == "IfStmt" and (len(st["c"]) < 3 or st["c"][2] is None):
                        last = st["c"][1]
                        while last is not None and last.get("k") == "CompoundStmt" and kids(last):
                            last = kids(last)[-1]
                        if last is not None and last.get("k") == "ReturnStmt":
                            pathc.append(sympy.Not(tr(st["c"][0])))
            cur = p
            p = p.get("_p")
        pos = tr(kids(ret)[0])
    except Untranslatable:
        return None
    pc = sympy.And(*pathc) if pathc else sympy.true
    contiguous = sympy.Eq(E - S + 1, N)
    key = S + pos
    if by_parent:
        goal = sympy.And(pos >= 0, pos <= N - 1, Q * B <= key, key <= Q * B + B - 1)
    else:
        goal = sympy.And(pos >= 0, pos <= N - 1, sympy.Eq(key, Q))
    # does the path establish contiguity at all?  (a counter-model with N != E - S + 1 means key(i) = S + i is not known)
    def holds(expr, env):
        v = expr.subs(env)
        return bool(v)
    cm = None
    for b_ in (2, 4):
        for s_, e_ in itertools.product(range(0, 13), repeat=2):
            if e_ < s_:
                continue
            for n_ in set((e_ - s_ + 1, max(1, e_ - s_), 1)):
                if n_ > e_ - s_ + 1 or n_ < 1:
                    continue
                for q_ in range(0, 13):
                    env = {S: s_, E: e_, N: n_, Q: q_, B: b_}
                    if not holds(pc, env):
                        continue
                    if n_ != e_ - s_ + 1:
                        return None        # the path is reachable for a group with holes: key(i) = S + i is not known, nothing can be said
                    if not holds(goal, env):
                        cm = env
                        break
                if cm:
                    break
            if cm:
                break
        if cm:
            break
    what = "its parent is the queried index" if by_parent else "it is the queried index"
    if cm is None:
        return True, "position `%s` returned under `%s`: for a group without holes (key(i) = first + i) the position is inside the group and the key there is such that %s - proven for all values" % (pos, pc, what)
    kv = cm[S] + pos.subs(cm)
    return False, ("the fast path returns position %s for the query %s in a hole-free group holding the indices %s..%s%s, but %s: its guard `%s` does not exclude this case - "
                   "an index that is absent from the group is reported as found" % (
                       pos.subs(cm), cm[Q], cm[S], cm[E], (" (2^Dim = %s)" % cm[B]) if by_parent else "",
                       ("that position is outside the group" if not (0 <= pos.subs(cm) <= cm[N] - 1) else
                        ("the cell there, %s, has parent %s" % (kv, kv // cm[B]) if by_parent else "the cell there is %s" % kv)), pc))


# --------------------------------------------------------------------------- C16.2 (structural)

MUTATORS = {"emplace_back", "push_back", "clear", "resize", "erase", "insert", "pop_back", "assign", "swap", "emplace"}


class _Look:
    """descriptors of the expressions of one tree-level lookup function; local names never appear in them"""

    def __init__(self, facts, fn):
        self.facts = facts
        self.fn = fn
        self.fm = stages.FnModel(facts, fn)
        self.q = fn["params"][-1]["did"] if fn.get("params") else None
        self.pidx = {p["did"]: i for i, p in enumerate(fn["params"])}

    def local_init(self, n):
        n = strip(n)
        if n is not None and n.get("k") == "DeclRefExpr" and n.get("dk") == "Var":
            d = self.fm.decls.get(n.get("did"))
            if d is not None and d.get("k") == "VarDecl" and kids(d) and n["did"] not in self.fm.assigned:
                return kids(d)[0]
        return None

    def container(self, n, depth=0):
        """'field' / 'field[param i]' when n names a member container (through reference locals), else None"""
        n = strip(n)
        if n is None or depth > 8:
            return None
        k = n.get("k")
        if k == "MemberExpr" and n.get("dk") == "Field":
            return n["name"]
        if k in ("ArraySubscriptExpr", "CXXOperatorCallExpr") and len(kids(n)) >= 2:
            b = self.container(kids(n)[-2], depth + 1)
            if b is not None:
                return "%s[%s]" % (b, self.desc(kids(n)[-1], depth + 1))
        i = self.local_init(n)
        if i is not None:
            return self.container(i, depth + 1)
        if k in ("CXXStaticCastExpr", "CXXConstCastExpr", "CStyleCastExpr", "CXXFunctionalCastExpr") and kids(n):
            return self.container(kids(n)[0], depth + 1)
        return None

    def desc(self, n, depth=0):
        n = strip(n)
        if n is None or depth > 12:
            return "?"
        k = n.get("k")
        if k in ("CXXStaticCastExpr", "CXXConstCastExpr", "CStyleCastExpr", "CXXFunctionalCastExpr") and len(kids(n)) == 1:
            return self.desc(kids(n)[0], depth + 1)
        if k == "IntegerLiteral":
            return str(n["val"])
        if k == "DeclRefExpr":
            if n.get("did") == self.q:
                return "q"
            if n.get("did") in self.pidx:
                return "param%d" % self.pidx[n["did"]]
            if n.get("did") in self.fm.range_vars:
                return "each(%s)" % self.desc(self.fm.range_vars[n["did"]], depth + 1)
            i = self.local_init(n)
            if i is not None:
                return self.desc(i, depth + 1)
            return "var#%s" % n.get("did")
        c = self.container(n)
        if c is not None:
            return "C:" + c
        if k in ("CallExpr", "CXXMemberCallExpr"):
            nm = tbf.callee_name(n)
            base = tbf.call_base(n)
            args = tbf.call_args(n)
            if nm in ("size",) and (base is not None or len(args) == 1):
                return "size(%s)" % self.desc(base if base is not None else args[0], depth + 1)
            if nm in ("begin", "cbegin", "end", "cend") and (base is not None or len(args) == 1):
                return "%s(%s)" % (nm.lstrip("c"), self.desc(base if base is not None else args[0], depth + 1))
            if nm in ("ref", "cref", "move", "forward", "make_const") and len(args) == 1:
                return self.desc(args[0], depth + 1)
            if nm in ("distance",) and len(args) == 2:
                a, b = self.desc(args[0], depth + 1), self.desc(args[1], depth + 1)
                if a.startswith("begin("):
                    return "pos(%s)" % b
            # single-return helper of the same class: inline
            cands = [g for g in self.facts.methods_of(self.fn.get("cls")) if g["name"] == nm and tbf.body(g) is not None and len(g["params"]) == len(args)]
            if len(cands) == 1:
                g = cands[0]
                st = kids(tbf.body(g))
                if len(st) == 1 and st[0].get("k") == "ReturnStmt":
                    sub = _Look(self.facts, g)
                    sub.q = None
                    bind = {pp["did"]: self.desc(a, depth + 1) for pp, a in zip(g["params"], args)}
                    return sub._desc_bound(kids(st[0])[0], bind, depth + 1)
            if base is not None:
                return "%s(%s%s)" % (nm, self.desc(base, depth + 1), "".join("," + self.desc(a, depth + 1) for a in args))
            return "%s(%s)" % (nm, ",".join(self.desc(a, depth + 1) for a in args))
        if k == "UnaryOperator" and n.get("op") == "*":
            return "*" + self.desc(kids(n)[0], depth + 1)
        if k in ("ArraySubscriptExpr", "CXXOperatorCallExpr") and len(kids(n)) >= 2:
            return "%s[%s]" % (self.desc(kids(n)[-2], depth + 1), self.desc(kids(n)[-1], depth + 1))
        if k == "LambdaExpr":
            lr = [x for x in walk(n) if x.get("k") == "ReturnStmt"]
            ps = {pp["did"]: "arg%d" % i for i, pp in enumerate(n.get("params", []))}
            if len(lr) == 1:
                return "lambda{%s}" % self._desc_bound(kids(lr[0])[0], ps, depth + 1)
            return "lambda{?}"
        if k == "BinaryOperator":
            return "(%s%s%s)" % (self.desc(kids(n)[0], depth + 1), n.get("op"), self.desc(kids(n)[1], depth + 1))
        return self.facts.ntext(n)[:60]

    def _desc_bound(self, n, bind, depth):
        """desc with parameter / lambda-parameter bindings"""
        old_desc = self.desc

        def d2(x, dep=0):
            x0 = strip(x)
            if x0 is not None and x0.get("k") == "DeclRefExpr" and x0.get("did") in bind:
                return bind[x0["did"]]
            return old_desc(x, dep)
        self.desc = d2
        try:
            return d2(n, depth)
        finally:
            self.desc = old_desc


def _conjuncts(n):
    n = strip(n)
    if n is not None and n.get("k") == "BinaryOperator" and n.get("op") == "&&":
        return _conjuncts(kids(n)[0]) + _conjuncts(kids(n)[1])
    return [n]


def _relation(lk, n, neg=False):
    """canonical (rel, a, b) with rel in lt/le/eq/ne/true/false"""
    n = strip(n)
    if n is None:
        return ("?",)
    if n.get("k") == "UnaryOperator" and n.get("op") == "!":
        return _relation(lk, kids(n)[0], not neg)
    if n.get("k") == "BinaryOperator" and n.get("op") in ("<", "<=", ">", ">=", "==", "!="):
        a, b = lk.desc(kids(n)[0]), lk.desc(kids(n)[1])
        op = n["op"]
        if neg:
            op = {"<": ">=", "<=": ">", ">": "<=", ">=": "<", "==": "!=", "!=": "=="}[op]
        if op == ">":
            a, b, op = b, a, "<"
        if op == ">=":
            a, b, op = b, a, "<="
        if op in ("==", "!="):
            a, b = sorted([a, b])
        return ({"<": "lt", "<=": "le", "==": "eq", "!=": "ne"}[op], a, b)
    if n.get("k") in ("CallExpr", "CXXMemberCallExpr") and tbf.callee_name(n) == "has_value":
        return ("false" if neg else "true", lk.desc(tbf.call_base(n)))
    return ("false" if neg else "true", lk.desc(n))


def _facts_of(lk, cond, neg=False):
    """relations that hold when `cond` is true (neg=False) / false (neg=True); disjunctions yield nothing"""
    c = strip(cond)
    if c is None:
        return []
    if c.get("k") == "UnaryOperator" and c.get("op") == "!":
        return _facts_of(lk, kids(c)[0], not neg)
    if c.get("k") == "BinaryOperator" and c.get("op") == "&&":
        return [] if neg else _facts_of(lk, kids(c)[0]) + _facts_of(lk, kids(c)[1])
    if c.get("k") == "BinaryOperator" and c.get("op") == "||":
        return _facts_of(lk, kids(c)[0], True) + _facts_of(lk, kids(c)[1], True) if neg else []
    return [_relation(lk, c, neg)]


def _path_facts(lk, ret):
    """relations known to hold when `ret` executes: conditions of enclosing ifs (then side), negated conditions of
    enclosing ifs (else side) and of earlier `if(c) return ...;` guards in the enclosing blocks"""
    out = []
    cur = ret
    p = cur.get("_p")
    while p is not None:
        if p.get("k") == "IfStmt":
            cond = p["c"][0]
            if len(p["c"]) > 1 and p["c"][1] is not None and (p["c"][1] is cur or any(y is cur for y in walk(p["c"][1]))):
                out += _facts_of(lk, cond)
            elif len(p["c"]) > 2 and p["c"][2] is not None:
                out += _facts_of(lk, cond, True)
        if p.get("k") == "CompoundStmt":
            for st in kids(p):
                if st is cur:
                    break
                if st.get("k") == "IfStmt" and (len(st["c"]) < 3 or st["c"][2] is None):
                    th = st["c"][1]
                    last = th
                    while last is not None and last.get("k") == "CompoundStmt" and kids(last):
                        last = kids(last)[-1]
                    if last is not None and last.get("k") == "ReturnStmt":
                        out += _facts_of(lk, st["c"][0], True)
        cur = p
        p = p.get("_p")
    return out


def _directory_discipline(facts, fn, lk, dname, gcont, res, R, f):
    """the lookup searches a member `dname` that is not the group container: it must be a directory of the groups'
    last indices, refreshed after every modification of the group containers"""
    cls = fn.get("cls")
    gfield = gcont.split("[")[0]
    fillers = []
    for m in facts.methods_of(cls):
        b = tbf.body(m)
        if b is None:
            continue
        for x in walk(b):
            if x.get("k") in ("CallExpr", "CXXMemberCallExpr") and tbf.callee_name(x) in ("push_back", "emplace_back") and tbf.call_base(x) is not None:
                ml = _Look(facts, m)
                c = ml.container(tbf.call_base(x))
                if c is not None and c.split("[")[0] == dname:
                    fillers.append((m, x, ml))
    if not fillers or len(set(id(m) for m, _x, _l in fillers)) != 1:
        raise AnalysisBroken("%s: the lookup searches member '%s' which is filled by %d functions (a directory filled in one place was expected)" % (fn["qname"], dname, len(set(id(m) for m, _x, _l in fillers))))
    filler = fillers[0][0]
    ok_fill = False
    for m, x, ml in fillers:
        tbf.link_parents(tbf.body(m))
        a = tbf.call_args(x)
        if len(a) == 1:
            a0 = strip(a[0])
            if a0.get("k") in ("CallExpr", "CXXMemberCallExpr") and tbf.callee_name(a0) == "getEndingSpacialIndex":
                b0 = strip(tbf.call_base(a0))
                rf = [p for p in tbf.ancestors(x) if p.get("k") == "CXXForRangeStmt"]
                if rf and b0 is not None and b0.get("k") == "DeclRefExpr" and rf[0]["c"][0] is not None and rf[0]["c"][0].get("did") == b0.get("did"):
                    c = ml.container(rf[0]["c"][1])
                    if c is not None and c.split("[")[0] == gfield:
                        ok_fill = True
    res.instance(R, "%s directory '%s'" % (fn["name"], dname), facts.loc(filler), "filled by %s from the groups' last indices in container order: %s" % (filler["name"], ok_fill))
    if not ok_fill:
        res.violation(R, f, fn["qname"], "directory-content:" + dname, filler["l"][1],
                      "the lookup searches '%s' but that member is not filled with getEndingSpacialIndex() of the groups of '%s' in order" % (dname, gfield))
    # every function that modifies the group containers must refresh the directory afterwards, unconditionally
    for m in facts.methods_of(cls):
        b = tbf.body(m)
        if b is None or m is filler:
            continue
        tbf.link_parents(b)
        ml = _Look(facts, m)
        depth = gcont.count("[")
        muts = []
        for x in walk(b):
            if x.get("k") in ("CallExpr", "CXXMemberCallExpr") and tbf.callee_name(x) in MUTATORS and tbf.call_base(x) is not None:
                c_ = ml.container(tbf.call_base(x)) or ""
                if c_.split("[")[0] == gfield and (c_.count("[") == depth or tbf.callee_name(x) in ("clear", "assign", "swap", "erase")):
                    muts.append(x)
        if not muts:
            continue
        calls = [x for x in walk(b) if x.get("k") in ("CallExpr", "CXXMemberCallExpr") and tbf.callee_name(x) == filler["name"] and x.get("_p") is b]
        lastmut = max(x["l"][1] for x in muts)
        good = [c for c in calls if c["l"][1] >= lastmut]
        # no exit between the first modification and the refresh
        firstmut = min(x["l"][1] for x in muts)
        def config_guard(r):
            # `if(<condition on the configuration only>) return;` - a validity guard of the configuration (tree height <= 0), not a path of a valid tree
            p_ = r.get("_p")
            while p_ is not None and p_.get("k") == "CompoundStmt":
                p_ = p_.get("_p")
            if p_ is None or p_.get("k") != "IfStmt":
                return False
            names = set(y.get("name") for y in walk(p_["c"][0]) if y.get("k") in ("MemberExpr", "DeclRefExpr") and y.get("dk") in ("Field", "Var", "ParmVar"))
            return names == {"configuration"}
        def refreshed_before(r):
            # the exit is preceded, in its own block, by a refresh call that comes after every modification made so far
            blk = r.get("_p")
            if blk is None or blk.get("k") != "CompoundStmt":
                return False
            prior = [st for st in kids(blk) if st["l"][1] < r["l"][1] or st is r]
            rc = [st for st in prior if st.get("k") in ("CallExpr", "CXXMemberCallExpr") and tbf.callee_name(st) == filler["name"]]
            return bool(rc) and not any(mx["l"][1] > rc[-1]["l"][1] and mx["l"][1] < r["l"][1] for mx in muts)
        exits = [x for x in walk(b, into_lambdas=False) if x.get("k") == "ReturnStmt" and x["l"][1] > firstmut and (not good or x["l"][1] < good[-1]["l"][1])
                 and not config_guard(x) and not refreshed_before(x)]
        res.instance(R, "%s refresh after %s" % (dname, m["name"]), facts.loc(m), "%d modifications of '%s', refresh call after the last one: %s, exits in between: %d" % (len(muts), gfield, bool(good), len(exits)))
        if good and exits:
            raise AnalysisBroken("%s: %s() leaves through an early return (line %d) between a modification of '%s' and the refresh of the directory '%s'; "
                                 "whether that path can leave a stale directory depends on run-time state - re-confirm by reading" % (fn["qname"], m["name"], exits[0]["l"][1], gfield, dname))
        if not good:
            res.violation(R, f, m["qname"], "directory-stale:%s:%s" % (dname, m["name"]), (exits[0] if exits else muts[-1])["l"][1],
                          "%s modifies the groups in '%s' but %s: lookups through the directory '%s' then name the wrong group and report existing cells/leaves as absent"
                          % (m["name"], gfield, "never calls %s() afterwards" % filler["name"], dname))


def treelevel(facts, name, container_field, res):
    R = "C16.2.tree-lookup"
    fns = [m for m in facts.methods_of("TbfTree") if m["name"] == name]
    if len(fns) != 1:
        raise AnalysisBroken("TbfTree::%s not found" % name)
    fn = tbf.expand_member_helpers(facts, fns[0])       # a lookup that forwards to a shared helper is judged through it
    lk = _Look(facts, fn)
    fm = lk.fm
    f = tbf.rel(facts.path_of(fns[0]))
    rets = [x for x in walk(fm.body, into_lambdas=False) if x.get("k") == "ReturnStmt"]
    succ = [r for r in rets if not is_empty_return(facts, r)]
    empty = [r for r in rets if r not in succ]
    if not succ or not empty:
        raise AnalysisBroken("TbfTree::%s: %d pair-returning / %d empty returns" % (name, len(succ), len(empty)))
    last = kids(fm.body)[-1] if kids(fm.body) else None
    if last is None or last.get("k") != "ReturnStmt":
        res.violation(R, f, fn["qname"], "fall-through", fn["l"][1], "the lookup can run off its end without returning the empty optional")
    nsearch = 0
    for s in succ:
        facts_on_path = _path_facts(lk, s)
        # the returned pair: (group, position)
        mp = [x for x in walk(s) if x.get("k") == "CallExpr" and tbf.callee_name(x) in ("make_pair", "pair")]
        parts = tbf.call_args(mp[0]) if mp else []
        if not parts:
            inits = [x for x in walk(s) if x.get("k") in ("InitListExpr", "CXXUnresolvedConstructExpr", "CXXConstructExpr") and len(kids(x)) == 2]
            parts = kids(inits[-1]) if inits else []
        if len(parts) != 2:
            raise AnalysisBroken("TbfTree::%s: the positive return at line %d is not a (group, position) pair" % (name, s["l"][1]))
        gdesc = lk.desc(parts[0])
        pnode = strip(parts[1])
        holder = None
        if pnode.get("k") == "UnaryOperator" and pnode.get("op") == "*":
            holder = strip(kids(pnode)[0])
        elif pnode.get("k") in ("CallExpr", "CXXMemberCallExpr") and tbf.callee_name(pnode) == "value":
            holder = strip(tbf.call_base(pnode))
        hinit = lk.local_init(holder) if holder is not None else None
        hcall = strip(hinit) if hinit is not None else None
        if hcall is None or hcall.get("k") not in ("CallExpr", "CXXMemberCallExpr") or tbf.callee_name(hcall) != "getElementFromSpacialIndex":
            res.violation(R, f, fn["qname"], "returned-pair", s["l"][1], "the returned position is not the result of the in-group lookup: %s" % facts.ntext(s)[:120])
            continue
        if lk.desc(tbf.call_args(hcall)[0]) != "q":
            res.violation(R, f, fn["qname"], "lookup-query", s["l"][1], "the in-group lookup is not made with the queried index")
        gl = lk.desc(tbf.call_base(hcall))
        if gl != gdesc:
            res.violation(R, f, fn["qname"], "returned-pair", s["l"][1], "the returned group (%s) is not the group the position was found in (%s)" % (gdesc, gl))
        hd = "var#%s" % holder.get("did")
        need = {}
        need["in-group lookup succeeded"] = any(r[0] == "true" and r[1] in (hd, lk.desc(holder)) for r in facts_on_path) or \
            any(r[0] == "ne" and "nullopt" in "".join(r[1:]) for r in facts_on_path)
        need["first <= query <= last"] = ("le", "getStartingSpacialIndex(%s)" % gl, "q") in facts_on_path and ("le", "q", "getEndingSpacialIndex(%s)" % gl) in facts_on_path
        # how the group was obtained: *iterator (needs iterator != end) or container[position] (needs position < size)
        gnode = strip(tbf.call_base(hcall))
        gi = lk.local_init(gnode)
        gi = strip(gi) if gi is not None else gnode
        bound_ok, how, search_desc, gcont = False, "?", None, None
        if gi.get("k") == "UnaryOperator" and gi.get("op") == "*":
            itd = lk.desc(kids(gi)[0])
            how = "*iterator"
            search_desc = itd
            for r in facts_on_path:
                if r[0] == "ne" and itd in r[1:]:
                    other = r[1] if r[2] == itd else r[2]
                    if other.startswith("end(C:"):
                        bound_ok = True
                        gcont = other[len("end(C:"):-1]
        elif gi.get("k") in ("ArraySubscriptExpr", "CXXOperatorCallExpr") and len(kids(gi)) >= 2:
            gcont = lk.container(kids(gi)[-2])
            idx = lk.desc(kids(gi)[-1])
            how = "container[position]"
            search_desc = idx
            if gcont is not None:
                # a position found in a directory of the groups may be bounded by the directory's size: the directory discipline checked
                # below (filled from the groups in container order, refreshed after every modification) makes the two sizes equal
                mdir = re.search(r"lower_bound\(begin\(C:([^)]*)\)", idx)
                sizes = ["size(C:%s)" % gcont] + (["size(C:%s)" % mdir.group(1)] if mdir and mdir.group(1) != gcont else [])
                for r in facts_on_path:
                    for sz in sizes:
                        if r == ("lt", idx, sz) or (r[0] == "ne" and set(r[1:]) == {idx, sz}):
                            bound_ok = True
        need["group position is inside the container (%s)" % ("iterator != end" if how == "*iterator" else "position < size")] = bound_ok
        res.instance(R, "TbfTree::%s" % name, facts.loc(s), "positive return: group by %s; facts on its path: %s" % (how, ["%s(%s)" % (r[0], ",".join(r[1:])) for r in facts_on_path]))
        for k, ok in need.items():
            if not ok:
                res.violation(R, f, fn["qname"], k.split(" (")[0] if k.startswith("group position") else k, s["l"][1], "a (group, position) pair is returned without the guard `%s`" % k)
        if gcont is None:
            raise AnalysisBroken("TbfTree::%s: the group returned at line %d does not come (recognisably) from a container of the tree: re-confirm by reading" % (name, s["l"][1]))
        if gcont.split("[")[0] != container_field:
            res.violation(R, f, fn["qname"], "group-container", s["l"][1], "the group handed back does not come from the tree's '%s' (it comes from %s)" % (container_field, gcont))
            continue
        # ---- how the group was searched: lower_bound over the groups by last index, or over a directory of last indices
        # `it - begin(C)` is the position of `it` in C, as std::distance(begin(C), it) is
        md = re.match(r"^\((lower_bound\(begin\(C:([^)]*)\),.*\))-begin\(C:([^)]*)\)\)$", search_desc or "")
        if md and md.group(2) == md.group(3):
            search_desc = "pos(" + md.group(1) + ")"
        m_ = re.match(r"^(?:pos\()?lower_bound\(begin\(C:([^)]*)\),end\(C:([^)]*)\),q(?:,lambda\{(.*)\})?\)\)?$", search_desc or "")
        if not m_:
            raise AnalysisBroken("TbfTree::%s: group search not recognised (%s): re-confirm by reading" % (name, search_desc))
        nsearch += 1
        c1, c2, cmp_ = m_.group(1), m_.group(2), m_.group(3)
        res.instance(R, "TbfTree::%s group search" % name, facts.loc(fn), "lower_bound over %s with %s" % (c1, cmp_ or "operator<"))
        if c1 != c2:
            res.violation(R, f, fn["qname"], "group-search-range", fn["l"][1], "the group search runs from begin(%s) to end(%s)" % (c1, c2))
        elif c1 == gcont:
            if cmp_ != "(getEndingSpacialIndex(arg0)<arg1)":
                res.violation(R, f, fn["qname"], "group-search-key", fn["l"][1], "groups are not searched by `last index of the group < query` (comparator: %s)" % cmp_)
        else:
            if cmp_ is not None and cmp_ != "(arg0<arg1)":
                res.violation(R, f, fn["qname"], "group-search-key", fn["l"][1], "the directory '%s' is not searched with `entry < query` (comparator: %s)" % (c1, cmp_))
            if how != "container[position]":
                raise AnalysisBroken("TbfTree::%s: a directory search whose result is not used as a position in the group container" % name)
            dsub = c1.split("[", 1)[1] if "[" in c1 else None
            gsub = gcont.split("[", 1)[1] if "[" in gcont else None
            if dsub != gsub:
                res.violation(R, f, fn["qname"], "directory-level", fn["l"][1], "the directory is read at [%s but the groups at [%s" % (dsub, gsub))
            _directory_discipline(facts, fn, lk, c1.split("[")[0], gcont, res, R, f)
    for r in empty:
        if not is_empty_return(facts, r):
            res.violation(R, f, fn["qname"], "empty-return@%d" % r["l"][1], r["l"][1], "the fall-through return is not an empty optional")


def run(res, tier):
    facts = tbf.scan("core")
    res.units.append("umbrella TU 'core': 3 in-group lookup functions, TbfTree::findGroupWithCell/findGroupWithLeaf, 4 forwarding functions of TbfTreeTsm")
    res.rule("C16.1 in-group lookup: the returned position is dominated by `position != count` and `key at that position == query`; search over [0,count) with a comparator on the same key")
    res.rule("C16.2 tree lookup: pair returned only under iterator != end, first <= query <= last, successful in-group lookup of the same query in that group; groups searched by last index; fall-through empty")
    res.rule("C16.3 target/source tree forwards to the corresponding tree")
    res.assumptions.append("soundness of positive answers, arithmetic fast paths and the binary-search helper (C16.4) are decided; completeness further depends on the sortedness of groups and cells (C07), which is a property of the construction, not of the lookups")
    for cls, name, cnt in INGROUP:
        ingroup(facts, cls, name, cnt, res)
    res.rule("C16.4 the binary-search helper keeps first <= partition point <= first + count, probes only inside the range, makes progress and returns first: verification conditions of the loop body checked on every state with first 0..3, count 1..14 (completeness of the in-group lookups given sorted cells, C07, and the strict comparator, C16.1)")
    import bsearch
    nb = bsearch.check(facts, res, "C16.4.binary-search", maxcount=(64 if tier == "thorough" else 14))
    res.floor("C16.4", nb, 100, "states of the binary-search step")
    # what the tree-level lookups read besides the group containers must describe the current groups: members the tree fills from its
    # groups and rebuild() does not refresh (rules C13.5 derived state / C13.3 construction facts, restricted to members the two lookup
    # functions - with their helpers spliced in - name)
    res.rule("C16.5 the tree-level lookups read no member that rebuild() leaves describing the groups before it (rules C13.5 / C13.3 restricted to the members the lookups name)")
    import c13 as _c13
    _sub13 = tbf.Result("C13")
    tbf.donor_run(res, _c13, _sub13)
    named = set()
    for nm_ in ("findGroupWithCell", "findGroupWithLeaf"):
        fx_ = tbf.expand_member_helpers(facts, facts.fn("TbfTree::" + nm_))
        for y_ in walk(tbf.body(fx_)):
            if y_.get("k") in ("MemberExpr", "CXXDependentScopeMemberExpr") and y_.get("name"):
                named.add(y_["name"])
    n5 = 0
    for v_ in _sub13.violations:
        hit_ = [m_ for m_ in named if m_ not in ("cellBlocks", "particleGroups") and re.search(r"\b%s\b" % re.escape(m_), v_["key"] + " " + v_["msg"])]
        if v_["rule"].startswith(("C13.5", "C13.3")) and hit_:
            n5 += 1
            res.violation("C16.5.lookups-read-current-state", v_["file"], v_["function"], v_["key"], v_["line"], v_["msg"] + " - findGroupWithCell / findGroupWithLeaf read '%s': after a rebuild they are sent to the wrong group and report existing cells / leaves as absent" % hit_[0])
    res.instance("C16.5.lookups-read-current-state", "members named by the lookups", "src/core/tbftree.hpp", "%s; %d of them left stale by rebuild()" % (sorted(named), n5))
    for nm_, cont_ in (("findGroupWithCell", "cellBlocks"), ("findGroupWithLeaf", "particleGroups")):
        try:
            treelevel(facts, nm_, cont_, res)
        except AnalysisBroken as e_:
            if not hasattr(res, "deferred"):
                res.deferred = []
            res.deferred.append(e_)
    for q, want in (("findGroupWithCellSource", "treeSource.findGroupWithCell(inLevel,inMIndex)"), ("findGroupWithCellTarget", "treeTarget.findGroupWithCell(inLevel,inMIndex)"),
                    ("findGroupWithLeafSource", "treeSource.findGroupWithLeaf(inMIndex)"), ("findGroupWithLeafTarget", "treeTarget.findGroupWithLeaf(inMIndex)")):
        fn = facts.fn("TbfTreeTsm::" + q)
        t = facts.ntext(tbf.body(fn))
        res.instance("C16.3.tsm-forward", q, facts.loc(fn), t)
        if want not in t:
            res.violation("C16.3.tsm-forward", tbf.rel(facts.path_of(fn)), fn["qname"], "forward", fn["l"][1], "does not forward to %s" % want)
