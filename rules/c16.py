"""C16 — cell and leaf lookup finds exactly what exists.

Only the *soundness of positive answers* is decided (a necessary condition of "returns a handle if
and only if it exists"); completeness - that an existing element is always found - rests on the
sortedness of groups and cells (C07, run-time data) and on the binary-search helper, and is NOT
decided.

 1 in-group lookup (cells by index, cells by parent index, leaves by index): every return of a
   position is dominated by (a) `position != number of elements` and (b) an equality test between the
   query and the key stored AT THAT POSITION; every other exit returns the empty optional; the key
   compared by the search comparator is the key verified in (b), and the search runs over
   [0, number of elements)
 2 tree-level lookup: a (group, position) pair is returned only under `iterator != end`,
   `first <= query <= last` of that group and a successful in-group lookup whose position is the one
   returned; groups are searched by their last index; the fall-through return is empty
 3 the target/source tree forwards each lookup to the corresponding tree
"""
import re

import tbf
import stages
from tbf import walk, kids, strip, AnalysisBroken

LEVEL = "other"
TECHNIQUE = "dominance / key-agreement rules on the lookup functions over the clang AST"

INGROUP = [("TbfCellsContainer", "getElementFromSpacialIndex", "nbCells"), ("TbfCellsContainer", "getElementFromParentIndex", "nbCells"),
           ("TbfParticlesContainer", "getElementFromSpacialIndex", "nbLeaves")]


def is_empty_return(facts, r):
    t = facts.ntext(r)
    return "nullopt" in t or re.search(r"optional<[^;]*>\(\)\s*;?$", t.replace(" ", "")) is not None


def ingroup(facts, cls, name, countfield, res):
    R = "C16.1.ingroup-lookup"
    fns = [m for m in facts.methods_of(cls) if m["name"] == name]
    if len(fns) != 1:
        raise AnalysisBroken("%s::%s not found" % (cls, name))
    fn = fns[0]
    fm = stages.FnModel(facts, fn)
    f = tbf.rel(facts.path_of(fn))
    top = kids(fm.body)
    query = fn["params"][-1]
    rets = [x for x in walk(fm.body, into_lambdas=False) if x.get("k") == "ReturnStmt"]
    succ = [r for r in rets if not is_empty_return(facts, r)]
    if len(succ) > 1:
        # additional positive exits (fast paths): a position may only be returned on a path that tested the query against something
        main = [r for r in succ if any(fm.decls.get(y.get("did")) is not None and kids(fm.decls[y["did"]]) and tbf.callee_name(strip(kids(fm.decls[y["did"]])[0])) == "lower_bound_indexes"
                                       for y in walk(r) if y.get("k") == "DeclRefExpr" and y.get("dk") == "Var")]
        if len(main) != 1:
            raise AnalysisBroken("%s::%s: %d non-empty returns, %d of them from the search (1 / 1 confirmed by reading)" % (cls, name, len(succ), len(main)))
        for r in succ:
            if r is main[0]:
                continue
            conds = []
            p = r.get("_p")
            while p is not None:
                if p.get("k") == "IfStmt":
                    conds.append(p["c"][-3] if len(p["c"]) >= 3 else p["c"][0])
                p = p.get("_p")
            for st in top:
                if st["l"][1] >= r["l"][1]:
                    break
                if st.get("k") == "IfStmt" and any(x.get("k") == "ReturnStmt" for x in walk(st)) and not any(x is r for x in walk(st)):
                    conds.append(st["c"][-3] if len(st["c"]) >= 3 else st["c"][0])
            tests_query = any(y.get("k") == "DeclRefExpr" and y.get("did") == query["did"] for c in conds for y in walk(c))
            res.instance(R, "%s::%s extra positive exit@%d" % (cls, name, r["l"][1]), facts.loc(r), "conditions on its path mention the query: %s" % tests_query)
            if not tests_query:
                res.violation(R, f, fn["qname"], "untested-positive-exit@%d" % r["l"][1], r["l"][1],
                              "a position is returned (`%s`) on a path where the queried index was never compared with anything: indices outside the group, or absent from it, are reported as found" % facts.ntext(r)[:90])
            else:
                raise AnalysisBroken("%s::%s: an additional positive exit at line %d tests the query in a way the rule does not model; re-confirm C16.1 by reading" % (cls, name, r["l"][1]))
        succ = main
    if len(succ) != 1:
        raise AnalysisBroken("%s::%s: %d non-empty returns (1 confirmed by reading)" % (cls, name, len(succ)))
    s = succ[0]
    retvars = [y for y in walk(s) if y.get("k") == "DeclRefExpr" and y.get("dk") == "Var"]
    if len(retvars) != 1:
        raise AnalysisBroken("%s::%s: returned position is not a single local" % (cls, name))
    pos = retvars[0]
    posdecl = fm.decls.get(pos["did"])
    # the search call
    search = strip(kids(posdecl)[0]) if posdecl is not None and kids(posdecl) else None
    if search is None or tbf.callee_name(search) != "lower_bound_indexes":
        raise AnalysisBroken("%s::%s: returned position is not the result of lower_bound_indexes" % (cls, name))
    sargs = tbf.call_args(search)
    lo, hi, val = facts.ntext(sargs[0]), facts.ntext(sargs[1]), strip(sargs[2])
    lam = strip(sargs[3])
    res.instance(R, "%s::%s search" % (cls, name), facts.loc(search), "range [%s, %s) value %s" % (lo, hi, facts.ntext(sargs[2])))
    if lo != "0" or not hi.endswith("." + countfield) or val.get("did") != query["did"]:
        res.violation(R, f, fn["qname"], "search-range", search["l"][1], "the search does not run over [0, %s) for the queried index (got [%s, %s) value %s)" % (countfield, lo, hi, facts.ntext(sargs[2])))
    # comparator: key(it) < value
    if lam.get("k") != "LambdaExpr" or len(lam.get("params", [])) != 2:
        raise AnalysisBroken("%s::%s: search comparator is not a two-parameter lambda" % (cls, name))
    lrets = [x for x in walk(lam) if x.get("k") == "ReturnStmt"]
    lcmp = strip(kids(lrets[0])[0]) if lrets else None
    if lcmp is None or lcmp.get("k") != "BinaryOperator" or lcmp.get("op") != "<":
        res.violation(R, f, fn["qname"], "comparator", lam["l"][1], "the search comparator is not `key(position) < value`")
        return
    lkey = facts.ntext(kids(lcmp)[0])
    lval = strip(kids(lcmp)[1])
    if lval.get("did") != lam["params"][1]["did"]:
        res.violation(R, f, fn["qname"], "comparator-value", lam["l"][1], "the search comparator does not compare against the searched value")
    # guards dominating the success return: top-level `if(cond){ return empty; }` before it
    guards = []
    for st in top:
        if st["l"][1] >= s["l"][1]:
            break
        if st.get("k") == "IfStmt":
            then = st["c"][1]
            trets = [x for x in walk(then) if x.get("k") == "ReturnStmt"]
            if trets and all(is_empty_return(facts, r) for r in trets):
                guards.append(st)
    if s.get("_p") is not fm.body:
        res.violation(R, f, fn["qname"], "success-not-toplevel", s["l"][1], "the position is returned from inside a branch the analyser does not relate to the guards")
    bound_ok = False
    key_ok = False
    gkey = None
    for g in guards:
        c = strip(g["c"][0])
        if c.get("k") != "BinaryOperator":
            continue
        a, b = [strip(x) for x in kids(c)]
        if c["op"] == "==" and a.get("did") == pos["did"] and facts.ntext(b).endswith("." + countfield):
            bound_ok = True
        if c["op"] == "!=" and (b.get("did") == query["did"] or a.get("did") == query["did"]):
            keyexpr = a if b.get("did") == query["did"] else b
            gkey = facts.ntext(keyexpr)
            # the key must be read at the returned position: a local bound to getItem(pos)
            used = [y for y in walk(keyexpr) if y.get("k") == "DeclRefExpr" and y.get("dk") == "Var"]
            for u in used:
                d = fm.decls.get(u["did"])
                if d is not None and kids(d):
                    it = facts.ntext(kids(d)[0])
                    if re.search(r"getItem\(%s\)" % re.escape(pos["name"]), it):
                        key_ok = True
    res.instance(R, "%s::%s guards" % (cls, name), facts.loc(s), "bound test: %s, key test at the returned position: %s (%s); comparator key: %s" % (bound_ok, key_ok, gkey, lkey))
    if not bound_ok:
        res.violation(R, f, fn["qname"], "bound-guard", s["l"][1], "a position equal to the number of elements can be returned / dereferenced: no dominating `position == %s -> empty` test" % countfield)
    if not key_ok:
        res.violation(R, f, fn["qname"], "key-guard", s["l"][1], "a position is returned without verifying that the key stored at that position equals the queried index: absent indices would be reported as found")
    if key_ok and gkey is not None:
        # same key expression in the comparator and in the verification (modulo the name of the header local)
        norm = lambda t: re.sub(r"\b\w*[Hh]eader\b", "HDR", t)
        if norm(gkey) != norm(lkey):
            res.violation(R, f, fn["qname"], "key-agreement", lam["l"][1], "the search orders elements by `%s` but the result is verified with `%s`" % (lkey, gkey))


def treelevel(facts, name, container_field, res):
    R = "C16.2.tree-lookup"
    fns = [m for m in facts.methods_of("TbfTree") if m["name"] == name]
    if len(fns) != 1:
        raise AnalysisBroken("TbfTree::%s not found" % name)
    fn = fns[0]
    fm = stages.FnModel(facts, fn)
    f = tbf.rel(facts.path_of(fn))
    query = fn["params"][-1]
    rets = [x for x in walk(fm.body, into_lambdas=False) if x.get("k") == "ReturnStmt"]
    succ = [r for r in rets if "make_pair" in facts.ntext(r)]
    empty = [r for r in rets if r not in succ]
    if len(succ) != 1 or not empty:
        raise AnalysisBroken("TbfTree::%s: %d pair-returning / %d empty returns" % (name, len(succ), len(empty)))
    s = succ[0]
    conds = [facts.ntext(a["c"][0]) for a in tbf.ancestors(s) if a.get("k") == "IfStmt"]
    q = query["name"]
    need = {
        "iterator != end": any(re.match(r"^\w+!=\w+$", c) for c in conds),
        "first <= query <= last": any((re.search(r"getStartingSpacialIndex\(\)<=%s(\W|$)" % q, c) or re.search(r"(\W|^)%s>=\w+\.getStartingSpacialIndex\(\)" % q, c))
                                      and (re.search(r"(\W|^)%s<=\w+\.getEndingSpacialIndex\(\)" % q, c) or re.search(r"getEndingSpacialIndex\(\)>=%s(\W|$)" % q, c)) for c in conds),
        "in-group lookup succeeded": any(re.match(r"^\w+$", c) for c in conds),
    }
    res.instance(R, "TbfTree::%s" % name, facts.loc(s), "success return under %s" % conds)
    for k, ok in need.items():
        if not ok:
            res.violation(R, f, fn["qname"], k, s["l"][1], "a (group, position) pair is returned without the guard `%s`" % k)
    # position returned is the in-group lookup's result for the same query in the same group
    st = facts.ntext(s)
    lookups = [x for x in walk(fm.body) if x.get("k") in ("CallExpr", "CXXMemberCallExpr") and tbf.callee_name(x) == "getElementFromSpacialIndex"]
    oklook = len(lookups) == 1 and facts.ntext(tbf.call_args(lookups[0])[0]) == q
    if not oklook:
        res.violation(R, f, fn["qname"], "lookup-query", s["l"][1], "the in-group lookup is not made with the queried index")
    else:
        grp = facts.ntext(tbf.call_base(lookups[0]))
        holder = [v["name"] for v in fm.decls.values() if v.get("k") == "VarDecl" and kids(v) and any(y is lookups[0] for y in walk(v))]
        if ("std::ref(%s)" % grp) not in st or not holder or ("*%s)" % holder[0]) not in st:
            res.violation(R, f, fn["qname"], "returned-pair", s["l"][1], "the returned pair is not (the searched group, the position found in it): %s" % st[:120])
    # groups are searched by their last index
    lbs = [x for x in walk(fm.body) if x.get("k") == "CallExpr" and tbf.callee_name(x) == "lower_bound"]
    oks = False
    for lb in lbs:
        lam = [strip(a) for a in tbf.call_args(lb) if strip(a).get("k") == "LambdaExpr"]
        if lam:
            lr = [x for x in walk(lam[0]) if x.get("k") == "ReturnStmt"]
            t = facts.ntext(kids(lr[0])[0]) if lr else ""
            oks = re.match(r"^\w+\.getEndingSpacialIndex\(\)<\w+$", t) is not None
            res.instance(R, "TbfTree::%s group search" % name, facts.loc(lb), t)
    if not oks:
        res.violation(R, f, fn["qname"], "group-search-key", fn["l"][1], "groups are not searched by `last index of the group < query`")
    for r in empty:
        t = facts.ntext(r).replace(" ", "")
        if not re.search(r"optional<.*>\(\);?$", t):
            res.violation(R, f, fn["qname"], "empty-return@%d" % r["l"][1], r["l"][1], "the fall-through return is not an empty optional")


def run(res, tier):
    facts = tbf.scan("core")
    res.units.append("umbrella TU 'core': 3 in-group lookup functions, TbfTree::findGroupWithCell/findGroupWithLeaf, 4 forwarding functions of TbfTreeTsm")
    res.rule("C16.1 in-group lookup: the returned position is dominated by `position != count` and `key at that position == query`; search over [0,count) with a comparator on the same key")
    res.rule("C16.2 tree lookup: pair returned only under iterator != end, first <= query <= last, successful in-group lookup of the same query in that group; groups searched by last index; fall-through empty")
    res.rule("C16.3 target/source tree forwards to the corresponding tree")
    res.assumptions.append("only the soundness of positive answers is decided; completeness depends on sortedness (C07) and on TbfUtils::lower_bound_indexes, both value-level")
    for cls, name, cnt in INGROUP:
        ingroup(facts, cls, name, cnt, res)
    treelevel(facts, "findGroupWithCell", "cellBlocks", res)
    treelevel(facts, "findGroupWithLeaf", "particleGroups", res)
    for q, want in (("findGroupWithCellSource", "treeSource.findGroupWithCell(inLevel,inMIndex)"), ("findGroupWithCellTarget", "treeTarget.findGroupWithCell(inLevel,inMIndex)"),
                    ("findGroupWithLeafSource", "treeSource.findGroupWithLeaf(inMIndex)"), ("findGroupWithLeafTarget", "treeTarget.findGroupWithLeaf(inMIndex)")):
        fn = facts.fn("TbfTreeTsm::" + q)
        t = facts.ntext(tbf.body(fn))
        res.instance("C16.3.tsm-forward", q, facts.loc(fn), t)
        if want not in t:
            res.violation("C16.3.tsm-forward", tbf.rel(facts.path_of(fn)), fn["qname"], "forward", fn["l"][1], "does not forward to %s" % want)
