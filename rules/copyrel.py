"""`copyrel` engine: which element is copied where, through helpers, pointer locals and staging buffers.

Used by the index-domain rules (C17, C13.2) when a leaf visitor does not copy element by element in place but hands
its arrays to a helper (tiled / blocked copies).  The helper body is interpreted over symbolic indices:
  * the arrays it receives are *objects* with roles  DEST (per-particle records, indexed by original index),
    IDX (original index of the particle at a position of the leaf), LEAF (per-value rows of the leaf), N (count);
  * pointer locals `p = LEAF[v] + off` are (object, fixed subscripts, offset);
  * a local array is a staging buffer: element stores are remembered as patterns over the loop variables of the
    loop nest that fills it and instantiated when the buffer (an element or a whole row) is read back;
  * loops are not executed: a loop variable is a symbol with a range; a tile loop `for(F = 0; F < N; F += T)` with
    an inner `x in [0, min(T, N - F))` is recognised so that F + x is known to sweep [0, N) once.
The outcome is a list of copy facts  DEST[ IDX[p1] ][v1] <- LEAF[v2][p2]  (or the reverse for scatters) with symbolic
p1, p2, v1, v2; the rule requires p1 == p2 and v1 == v2 as sympy identities and that p sweeps [0, N).
"""
import sympy

import tbf
from tbf import walk, kids, strip, AnalysisBroken


class Obj:
    def __init__(self, role, name):
        self.role, self.name = role, name

    def __repr__(self):
        return self.role


class Ptr:
    def __init__(self, obj, fixed, offset):
        self.obj, self.fixed, self.offset = obj, tuple(fixed), offset


class Load:
    def __init__(self, obj, idx):
        self.obj, self.idx = obj, tuple(idx)

    def __repr__(self):
        return "%s%s" % (self.obj.role, list(self.idx))


class Row:
    """a whole row of a staging buffer / of DEST"""
    def __init__(self, base, idx):
        self.base, self.idx = base, tuple(idx)


class Fact:
    def __init__(self, dest_obj, dest_idx, src, node, loops):
        self.dest_obj, self.dest_idx, self.src, self.node, self.loops = dest_obj, tuple(dest_idx), src, node, loops


class Interp:
    def __init__(self, facts, fn, bind):
        self.facts = facts
        self.fn = fn
        self.env = dict(bind)       # did -> value
        self.buffers = {}           # did -> list of (idx pattern tuple, value, loop symbols)
        self.loops = []             # (symbol, lo, hi, step, node)
        self.out = []
        self.nsym = 0
        self.conditional = []

    def sym(self, name):
        self.nsym += 1
        return sympy.Symbol("%s#%d" % (name, self.nsym), integer=True)

    def as_num(self, v):
        """a value read from the original-index array used in arithmetic: an opaque integer symbol (it is no longer `the original index of
        position p` once something is added to it)"""
        if isinstance(v, Load):
            return sympy.Symbol("%s[%s]" % (v.obj.role, ",".join(str(i) for i in v.idx)), integer=True)
        return v

    def ev(self, n):
        n = strip(n)
        k = n.get("k")
        if k == "IntegerLiteral":
            return sympy.Integer(n["val"])
        if k in ("CXXStaticCastExpr", "CStyleCastExpr", "CXXFunctionalCastExpr", "CXXConstCastExpr", "CXXReinterpretCastExpr", "MaterializeTemporaryExpr") and len(kids(n)) == 1:
            return self.ev(kids(n)[0])
        if k == "DeclRefExpr":
            did = n.get("did")
            if did in self.env:
                return self.env[did]
            if did in self.buffers:
                return ("buffer", did)
            if n.get("dk") in ("NonTypeTemplateParm",) or n.get("staticmember") or n.get("dk") == "EnumConstant":
                return sympy.Symbol(n["name"], integer=True, positive=True)
            raise AnalysisBroken("%s: value of '%s' not modelled by the copy-relation engine" % (self.facts.loc(n), n.get("name")))
        if k in ("CallExpr", "CXXMemberCallExpr"):
            nm = tbf.callee_name(n)
            args = tbf.call_args(n)
            base = tbf.call_base(n)
            if nm in ("get", "data") and base is not None and not args:
                return self.ev(base)
            if nm in ("min", "max") and len(args) == 2:
                a, b = self.ev(args[0]), self.ev(args[1])
                return (sympy.Min if nm == "min" else sympy.Max)(a, b)
            if nm == "size" and base is not None:
                b = self.ev(base)
                if isinstance(b, Obj) and b.role == "LEAF":
                    return sympy.Symbol("NV", integer=True, positive=True)
            raise AnalysisBroken("%s: call of '%s' not modelled by the copy-relation engine" % (self.facts.loc(n), nm))
        if k == "UnaryOperator" and n.get("op") == "&":
            v = self.ev(kids(n)[0])
            if isinstance(v, Row) and isinstance(v.base, Obj) and len(v.idx) == 1:
                return ("rowptr", v.base, self.as_num(v.idx[0]))        # pointer to a record of the per-particle array
            raise AnalysisBroken("%s: address-of `%s` not modelled" % (self.facts.loc(n), self.facts.ntext(n)[:50]))
        if k == "BinaryOperator" and n.get("op") in ("+", "-", "*"):
            a, b = self.ev(kids(n)[0]), self.ev(kids(n)[1])
            if not isinstance(a, Ptr):
                a = self.as_num(a)
            b = self.as_num(b)
            if isinstance(a, tuple) and a and a[0] == "rowptr" and isinstance(b, sympy.Basic) and n["op"] in ("+", "-"):
                return ("rowptr", a[1], a[2] + (b if n["op"] == "+" else -b))
            if isinstance(a, Ptr) and isinstance(b, sympy.Basic) and n["op"] in ("+", "-"):
                return Ptr(a.obj, a.fixed, a.offset + (b if n["op"] == "+" else -b))
            if isinstance(a, Obj) and a.role == "DEST" and isinstance(b, sympy.Basic) and n["op"] in ("+", "-"):
                return ("rowptr", a, (b if n["op"] == "+" else -b))      # the per-particle array advanced by a number of records
            if isinstance(a, sympy.Basic) and isinstance(b, sympy.Basic):
                return {"+": a + b, "-": a - b, "*": a * b}[n["op"]]
            raise AnalysisBroken("%s: arithmetic on %s not modelled" % (self.facts.loc(n), self.facts.ntext(n)[:50]))
        if k in ("ArraySubscriptExpr", "CXXOperatorCallExpr") and len(kids(n)) >= 2:
            b = self.ev(kids(n)[-2])
            i = self.ev(kids(n)[-1])
            return self.subscript(b, i, n)
        if k == "UnaryOperator" and n.get("op") == "*":
            return self.subscript(self.ev(kids(n)[0]), sympy.Integer(0), n)
        raise AnalysisBroken("%s: expression `%s` not modelled by the copy-relation engine" % (self.facts.loc(n), self.facts.ntext(n)[:60]))

    def subscript(self, b, i, n):
        if isinstance(b, Obj):
            if b.role == "IDX":
                return Load(b, (i,))
            if b.role == "LEAF":
                return Ptr(b, (i,), sympy.Integer(0))          # a row pointer
            if b.role == "DEST":
                key = i
                return Row(b, (key,))
        if isinstance(b, tuple) and b and b[0] == "rowptr":
            return Row(b[1], (b[2] + self.as_num(i),))
        if isinstance(b, Ptr):
            return Load(b.obj, b.fixed + (b.offset + i,))
        if isinstance(b, Row):
            return ("elem", b, i)
        if isinstance(b, tuple) and b and b[0] == "buffer":
            return Row(b, (i,))
        raise AnalysisBroken("%s: subscript of %s not modelled" % (self.facts.loc(n), self.facts.ntext(n)[:50]))

    # ---- reading a staging buffer back
    def read_buffer(self, did, idx):
        """value stored at buffer[idx...] (idx may be shorter than the stored patterns: the remaining subscripts stay free)"""
        hits = []
        for pat, val, lsyms in self.buffers.get(did, []):
            sub = {}
            ok = True
            for p_, i_ in zip(pat, idx):
                if isinstance(p_, sympy.Symbol) and p_ in lsyms:
                    sub[p_] = i_
                elif sympy.simplify(p_ - i_) != 0:
                    ok = False
            if ok:
                free = pat[len(idx):]
                hits.append((free, self.substitute(val, sub)))
        if len(hits) != 1:
            raise AnalysisBroken("staging buffer read with %d matching stores" % len(hits))
        return hits[0]

    def substitute(self, v, sub):
        if isinstance(v, sympy.Basic):
            return v.subs(sub)
        if isinstance(v, Load):
            return Load(v.obj, [self.substitute(x, sub) for x in v.idx])
        return v

    # ---- statements
    def run(self, s):
        if s is None:
            return
        k = s.get("k")
        if k == "CompoundStmt":
            for c in kids(s):
                self.run(c)
            return
        if k == "DeclStmt":
            for v in kids(s):
                if v.get("k") != "VarDecl":
                    continue
                if not kids(v):
                    if "array" in v.get("t", "") or "[" in v.get("t", ""):
                        self.buffers[v["did"]] = []
                        continue
                    raise AnalysisBroken("%s: uninitialised local '%s'" % (self.facts.loc(v), v["name"]))
                t = v.get("t", "")
                i0 = strip(kids(v)[0])
                if ("array" in t or "[" in t) and i0.get("k") in ("CXXConstructExpr", "InitListExpr", "CXXTemporaryObjectExpr", "ImplicitValueInitExpr") and not kids(i0):
                    self.buffers[v["did"]] = []
                    continue
                self.env[v["did"]] = self.ev(kids(v)[0])
            return
        if k == "ForStmt":
            init, cond, inc, body = s["c"]
            vs = [v for v in kids(init) if v.get("k") == "VarDecl"] if init is not None else []
            if len(vs) != 1 or cond is None or inc is None or not kids(vs[0]):
                raise AnalysisBroken("%s: loop form not modelled" % self.facts.loc(s))
            var = vs[0]
            start = self.ev(kids(var)[0])
            c0 = strip(cond)
            if c0.get("k") != "BinaryOperator" or c0.get("op") != "<" or strip(kids(c0)[0]).get("did") != var["did"]:
                raise AnalysisBroken("%s: loop condition not `i < bound`" % self.facts.loc(s))
            bound = self.ev(kids(c0)[1])
            i0 = strip(inc)
            step = None
            if i0.get("k") == "UnaryOperator" and i0.get("op") == "++":
                step = sympy.Integer(1)
            elif i0.get("k") == "CompoundAssignOperator" and i0.get("op") == "+=":
                step = self.ev(kids(i0)[1])
            if step is None:
                raise AnalysisBroken("%s: loop step not modelled" % self.facts.loc(s))
            ls = self.sym(var["name"])
            self.env[var["did"]] = ls
            self.loops.append((ls, start, bound, step, s))
            self.run(body)
            self.loops.pop()
            self.env.pop(var["did"], None)
            return
        if k in ("BinaryOperator", "CXXOperatorCallExpr") and s.get("op") == "=":
            lhs = kids(s)[0] if k == "BinaryOperator" else kids(s)[1]
            rhs = kids(s)[1] if k == "BinaryOperator" else kids(s)[2]
            l = self.ev(lhs)
            r = self.ev(rhs)
            lsyms = set(x[0] for x in self.loops)
            # store into a staging buffer
            if isinstance(l, tuple) and l[0] == "elem" and isinstance(l[1], Row) and isinstance(l[1].base, tuple) and l[1].base[0] == "buffer":
                self.buffers[l[1].base[1]].append((l[1].idx + (l[2],), r, lsyms))
                return
            if isinstance(l, Row) and isinstance(l.base, tuple) and l.base[0] == "buffer":
                self.buffers[l.base[1]].append((l.idx, r, lsyms))
                return
            # store into DEST: element or whole record
            if isinstance(l, tuple) and l[0] == "elem" and isinstance(l[1], Row) and isinstance(l[1].base, Obj):
                self.emit(l[1].base, l[1].idx + (l[2],), r, s)
                return
            if isinstance(l, Row) and isinstance(l.base, Obj):
                self.emit(l.base, l.idx, r, s)
                return
            # store into the leaf (scatter): LEAF[v][p] = ...
            if isinstance(l, Load) and l.obj.role == "LEAF":
                self.emit(l.obj, l.idx, r, s)
                return
            raise AnalysisBroken("%s: assignment `%s` not modelled by the copy-relation engine" % (self.facts.loc(s), self.facts.ntext(s)[:70]))
        if k in ("NullStmt", "ReturnStmt"):
            return          # a bare `return;` ends one path (an empty group, the end of a fast path); the copies of every path are examined
        if k == "IfStmt":
            if s.get("constexpr"):
                # a compile-time configuration switch (`if constexpr (NbRhs != 0)`): the copies of both sides are examined
                for c in s["c"][1:]:
                    self.run(c)
                return
            # a run-time condition: either side may execute, so the copies of each side must be right on their own
            self.conditional.append(s)
            for c in s["c"][1:]:
                self.run(c)
            return
        if k in ("CallExpr", "CXXMemberCallExpr") and s.get("cast") == "ToVoid":
            return
        raise AnalysisBroken("%s: statement %s not modelled by the copy-relation engine" % (self.facts.loc(s), k))

    def emit(self, dobj, didx, r, node):
        """resolve the right-hand side through staging buffers and record the copy fact(s)"""
        if isinstance(r, Row) and isinstance(r.base, tuple) and r.base[0] == "buffer":
            free, val = self.read_buffer(r.base[1], r.idx)
            # a whole row: destination gets one more (free) subscript equal to the buffer's remaining pattern
            self.out.append(Fact(dobj, tuple(didx) + tuple(free), val, node, list(self.loops)))
            return
        if isinstance(r, tuple) and r[0] == "elem" and isinstance(r[1], Row) and isinstance(r[1].base, tuple) and r[1].base[0] == "buffer":
            free, val = self.read_buffer(r[1].base[1], r[1].idx + (r[2],))
            self.out.append(Fact(dobj, tuple(didx), val, node, list(self.loops)))
            return
        if isinstance(r, tuple) and r[0] == "elem" and isinstance(r[1], Row) and isinstance(r[1].base, Obj):
            self.out.append(Fact(dobj, tuple(didx), Load(r[1].base, r[1].idx + (r[2],)), node, list(self.loops)))
            return
        self.out.append(Fact(dobj, tuple(didx), r, node, list(self.loops)))


def position_sweeps(p, loops, N):
    """True when the position expression p runs over [0, N) exactly once under the recorded loops:
    a plain loop variable over [0, N), or F + x with the tile loop F in {0, T, 2T, ...} < N and x in [0, min(T, N - F))"""
    syms = [l for l in loops if l[0] in p.free_symbols]
    if len(syms) == 1:
        ls, lo, hi, step, _n = syms[0]
        return sympy.simplify(p - ls) == 0 and lo == 0 and sympy.simplify(hi - N) == 0 and step == 1
    if len(syms) == 2:
        a, b = syms
        for tile, inner in ((a, b), (b, a)):
            F, flo, fhi, T, _n1 = tile
            x, xlo, xhi, xstep, _n2 = inner
            if sympy.simplify(p - (F + x)) == 0 and flo == 0 and sympy.simplify(fhi - N) == 0 and xlo == 0 and xstep == 1 and T != 1:
                if sympy.simplify(xhi - sympy.Min(T, N - F)) == 0:
                    return True
    return False
