"""C03 thorough tier: Specx and StarPU executors, parsed through the declaration-only stub headers
(stubs/specx, stubs/starpu).  The stubs only name the runtime entities; nothing is executed."""
import re

import tbf
import stages
import effects
import taskdeps
from tbf import walk, kids, strip, AnalysisBroken


def specx_task_lambdas(st):
    """(task call, lambda) pairs of a stage"""
    out = []
    for x in walk(st.fm.body):
        if x.get("k") in ("CallExpr", "CXXMemberCallExpr") and tbf.callee_name(x) == "task":
            lams = [strip(a) for a in tbf.call_args(x) if strip(a).get("k") == "LambdaExpr"]
            if len(lams) != 1:
                raise AnalysisBroken("%s: runtime.task(...) without exactly one lambda" % st.ex.facts.loc(x))
            out.append((x, lams[0]))
    return out


def specx_captures(facts, st, res):
    """(c) for Specx: a task lambda copies loop variables / index vectors and takes by reference only
    reference variables (bound to tree-owned groups); a default capture on a task body is rejected"""
    n = 0
    for call, lam in specx_task_lambdas(st):
        n += 1
        where = facts.loc(lam)
        caps = lam.get("captures", [])
        res.instance("C03.c.specx-captures", "%s task@%s" % (st.fn["qname"], lam["l"][1]), where,
                     "captures=%s" % [("&" if c.get("byref") else "") + ("this" if c.get("this") else c.get("name", "?")) for c in caps])
        if lam.get("capdefault"):
            res.violation("C03.c.specx-captures", tbf.rel(facts.path_of(lam)), st.fn["qname"], "capture-default", lam["l"][1],
                          "task body uses a default capture [%s]: enclosing locals would be reached by reference after their frame is gone" % lam["capdefault"])
        for c in caps:
            if c.get("this") or not c.get("byref"):
                continue
            t = c.get("t", "")
            d = st.fm.decls.get(c.get("did"))
            if d is not None:
                t = d.get("t", t)
            if not t.rstrip().endswith("&"):
                res.violation("C03.c.specx-captures", tbf.rel(facts.path_of(lam)), st.fn["qname"], c.get("name", "?"), lam["l"][1],
                              "task captures automatic variable '%s' (type %s) by reference; it is dead or changed when the task runs" % (c.get("name"), t))
            else:
                # a reference variable: its referee must be tree-owned (bound to *iterator over a tree container, or a mapper callback group)
                o = st.fm.origin({"k": "DeclRefExpr", "did": c["did"], "dk": "Var", "name": c.get("name"), "l": lam["l"]})
                if not (o.startswith("each(tree.") or o.startswith("cb0{") or o.startswith("cb1{")):
                    res.violation("C03.c.specx-captures", tbf.rel(facts.path_of(lam)), st.fn["qname"], c.get("name", "?"), lam["l"][1],
                                  "task captures reference '%s' whose referee (%s) is not a tree-owned group" % (c.get("name"), taskdeps.short(o)))
    return n


def run_specx(res, c03):
    facts = tbf.scan("specx")
    res.units.append("umbrella TU 'specx' (core + smspecx headers, declaration-only Specx stub; %d function patterns)" % len(facts.functions))
    res.assumptions.append("Specx clauses: the stub header stubs/specx/Legacy/SpRuntime.hpp only declares the names the executors use; the semantics assumed for SpRead / SpCommutativeWrite / waitAllTasks are those documented by Specx")
    cmap = effects.container_map(facts)
    weff = effects.wrapper_effects(facts, cmap)
    ntasks = 0
    for cls, refcls in c03.SPECX_PAIRS:
        ex = stages.ExecutorSummary(facts, cls)
        ref = stages.ExecutorSummary(facts, refcls)
        c03.same_submissions(facts, ex, ref, res)
        for name, st in ex.stages.items():
            taskdeps.check_stage(st, weff, cmap, res)
            ntasks += specx_captures(facts, st, res)
            for c in st.wrapper_calls:
                if c["in_task"] is None:
                    res.violation("C03.a.same-submissions", tbf.rel(facts.path_of(c["node"])), st.fn["qname"], c["method"] + ":untasked", c["node"]["l"][1],
                                  "wrapper call executed outside any task")
        c03.join_rule(facts, ex, res, "specx")
        c03.only_through_stages(facts, ex, res)
        c03.kernels_sized(facts, ex, res, "param")
        c03.per_worker_kernel(facts, ex, res, ("GetThreadId",))
    res.floor("C03.c.specx", ntasks, 14, "Specx task lambdas")


def run(res, weff_core=None):
    import c03
    run_specx(res, c03)
    import starpu
    starpu.run_c03(res)
