"""Generated must-compile configuration witnesses (E3).

One translation unit per documented template configuration, compiled `-fsyntax-only` with the
repository's own flags (g++ -std=c++17 -fopenmp -DTBF_USE_OPENMP -DTBF_USE_FFTW -DNDEBUG -I src).
The verdict is the compiler's; the violating construct is the first diagnostic inside src/.
"""
import concurrent.futures
import itertools
import os
import re
import subprocess

import tbf

HEADERS = """
#include <vector>
#include <array>
#include <functional>
#include <algorithm>
#include <optional>
#include <memory>
#include <iostream>
#include "tbfglobal.hpp"
#include "utils/tbfutils.hpp"
#include "spacial/tbfmortonspaceindex.hpp"
#include "spacial/tbfhilbertspaceindex.hpp"
#include "spacial/tbfspacialconfiguration.hpp"
#include "utils/tbfrandom.hpp"
#include "core/tbfcellscontainer.hpp"
#include "core/tbfparticlescontainer.hpp"
#include "core/tbfparticlesorter.hpp"
#include "core/tbftree.hpp"
#include "core/tbftreetsm.hpp"
#include "kernels/testkernel/tbftestkernel.hpp"
#include "algorithms/tbfalgorithmutils.hpp"
#include "algorithms/sequential/tbfalgorithm.hpp"
#include "algorithms/sequential/tbfalgorithmtsm.hpp"
#include "algorithms/openmp/tbfopenmpalgorithm.hpp"
#include "algorithms/openmp/tbfopenmpalgorithmtsm.hpp"
#include "algorithms/periodic/tbfalgorithmperiodictoptree.hpp"
#include "algorithms/periodic/tbfalgorithmperiodictoptreetsm.hpp"
"""

DIMS = [1, 2, 3, 4]
REALS = ["float", "double"]
ORDERINGS = ["morton", "periodic", "hilbert"]
BLOCKS = ["auto", "explicit"]
REBUILD = [True, False]
EXECUTORS = ["seq", "tsm", "omp", "omptsm", "toptree"]
DATATYPES = ["same", "other"]
RHS = [1, 0]


def valid(cfg):
    dim, real, order, block, rebuild, execu, dtype, rhs = cfg
    if order == "hilbert" and dim != 3:
        return False       # the Hilbert ordering is documented for 3-D only
    if execu == "toptree" and order != "periodic":
        return False       # the periodic top tree needs the periodic ordering
    return True


def all_configs():
    return [c for c in itertools.product(DIMS, REALS, ORDERINGS, BLOCKS, REBUILD, EXECUTORS, DATATYPES, RHS) if valid(c)]


def quick_configs():
    """pairwise-covering subset (every pair of parameter values that occurs in a valid configuration
    occurs in a chosen one), greedy and deterministic"""
    allc = all_configs()
    need = set()
    for c in allc:
        for i, j in itertools.combinations(range(len(c)), 2):
            need.add((i, c[i], j, c[j]))
    chosen = []
    while need:
        best, gain = None, -1
        for c in allc:
            g = sum(1 for i, j in itertools.combinations(range(len(c)), 2) if (i, c[i], j, c[j]) in need)
            if g > gain:
                best, gain = c, g
        chosen.append(best)
        for i, j in itertools.combinations(range(len(best)), 2):
            need.discard((i, best[i], j, best[j]))
    return chosen


def name_of(cfg):
    dim, real, order, block, rebuild, execu, dtype, rhs = cfg
    return "d%d-%s-%s-%s-%s-%s-data%s-rhs%d" % (dim, real, order, block, "rebuild" if rebuild else "norebuild", execu, dtype, rhs)


def text_of(cfg):
    dim, real, order, block, rebuild, execu, dtype, rhs = cfg
    other = "double" if real == "float" else "float"
    dt = real if dtype == "same" else other
    if order == "morton":
        sp = "TbfMortonSpaceIndex<Dim, TbfSpacialConfiguration<RealType, Dim>, false>"
    elif order == "periodic":
        sp = "TbfMortonSpaceIndex<Dim, TbfSpacialConfiguration<RealType, Dim>, true>"
    else:
        sp = "TbfHilbertSpaceIndex<Dim, TbfSpacialConfiguration<RealType, Dim>, false>"
    tsm = execu in ("tsm", "omptsm")
    tree = "TbfTreeTsm" if tsm else "TbfTree"
    algo = {"seq": "TbfAlgorithm", "tsm": "TbfAlgorithmTsm", "omp": "TbfOpenmpAlgorithm", "omptsm": "TbfOpenmpAlgorithmTsm", "toptree": "TbfAlgorithm"}[execu]
    ctor_extra = ", 8, false" if block == "explicit" else ""
    pos = "pos, pos" if tsm else "pos"
    lines = [HEADERS,
             "using RealType = %s;" % real,
             "using DataType = %s;" % dt,
             "constexpr long int Dim = %d;" % dim,
             "constexpr long int NbData = Dim + 1;",
             "constexpr long int NbRhs = %d;" % rhs,
             "using SpaceIndexType = %s;" % sp,
             "using MultipoleClass = std::array<long int,1>;",
             "using LocalClass = std::array<long int,1>;",
             "using TreeClass = %s<RealType, DataType, NbData, long int, NbRhs, MultipoleClass, LocalClass, SpaceIndexType>;" % tree,
             "using KernelClass = TbfTestKernel<RealType, SpaceIndexType>;",
             "using AlgoClass = %s<RealType, KernelClass, SpaceIndexType>;" % algo,
             "long int witness(){",
             "    std::array<RealType, Dim> widths, center;",
             "    for(long int i = 0 ; i < Dim ; ++i){ widths[i] = 1; center[i] = RealType(0.5); }",
             "    const TbfSpacialConfiguration<RealType, Dim> configuration(4, widths, center);",
             "    std::vector<std::array<DataType, NbData>> pos(10);",
             "    TreeClass tree(configuration, %s%s);" % (pos, ctor_extra),
             "    AlgoClass algo(configuration);",
             "    algo.execute(tree);"]
    if execu == "toptree":
        lines += ["    TbfAlgorithmPeriodicTopTree<RealType, KernelClass, MultipoleClass, LocalClass, SpaceIndexType> top(configuration, 1);",
                  "    top.execute(tree);",
                  "    (void)top.getNbTotalRepetitions();"]
    if rebuild:
        lines += ["    tree.rebuild();", "    algo.execute(tree);"]
    if tsm:
        lines += ["    long int n = 0;",
                  "    tree.applyToAllLeavesTarget([&](auto&& h, const long int*, const std::array<DataType*, NbData>, const std::array<long int*, NbRhs>){ n += h.nbParticles; });",
                  "    return n;"]
    else:
        lines += ["    auto d = tree.getAllParticlesData();", "    auto r = tree.getAllParticlesRhs();",
                  "    return tree.getNbParticles() + (d ? 1 : 0) + (r ? 1 : 0);"]
    lines += ["}"]
    return "\n".join(lines) + "\n"


def compile_one(args):
    cfg, compiler, d = args
    path = os.path.join(d, "w_" + name_of(cfg) + ".cpp")
    with open(path, "w") as f:
        f.write(text_of(cfg))
    if compiler == "g++":
        cmd = ["g++"] + tbf.GXX_FLAGS + ["-fmax-errors=3"]
    else:
        cmd = ["clang++", "-std=gnu++17", "-fopenmp", "-fopenmp-version=45", "-ferror-limit=3"]
    cmd += tbf.config_flags("core") + ["-fsyntax-only", "-w", path]
    p = subprocess.run(cmd, stdout=subprocess.PIPE, stderr=subprocess.PIPE, universal_newlines=True)
    os.unlink(path)
    return cfg, compiler, p.returncode, p.stderr


def compile_all(cfgs, compilers=("g++",), jobs=16):
    d = tbf.scratch()
    work = [(c, comp, d) for c in cfgs for comp in compilers]
    with concurrent.futures.ThreadPoolExecutor(max_workers=jobs) as ex:
        return list(ex.map(compile_one, work))


def first_src_error(stderr):
    """(file, line, message, instantiation-site) of the first error; prefers a location under src/"""
    errs = []
    for line in stderr.splitlines():
        m = re.match(r"^(\S+?):(\d+):(\d+): (?:fatal )?error: (.*)$", line)
        if m:
            errs.append((m.group(1), int(m.group(2)), m.group(4)))
    req = []
    for line in stderr.splitlines():
        m = re.match(r"^(\S+?):(\d+):(\d+):\s+(?:required from|in instantiation of|note: in instantiation)", line)
        if m and os.path.abspath(m.group(1)).startswith(tbf.SRC):
            req.append((m.group(1), int(m.group(2))))
    if not errs:
        return ("?", 0, stderr.strip()[:200], None)
    for e in errs:
        if os.path.abspath(e[0]).startswith(tbf.SRC):
            return (tbf.rel(e[0]), e[1], e[2], None)
    # error reported in a system header / the witness: blame the innermost src/ frame of the instantiation stack
    if req:
        return (tbf.rel(req[-1][0]), req[-1][1], errs[0][2], None)
    return (tbf.rel(errs[0][0]), errs[0][1], errs[0][2], None)
