"""C11 — space-filling-curve index algebra is a consistent model of the grid hierarchy.

Decided clauses (bijection / geometric containment / list = definition are value-level: not decided):
 1 encoder/decoder agreement: every site that builds or splits a relative-position code is reduced
   to (base, offset, digit order); all transfer sites agree on (7, 3, dimension 0 most significant),
   all neighbour sites on (3, 1, same order), decoders invert the encoders, the kernels' closed-form
   table indices use the same convention, the upper-half filter constant is floor(3^Dim/2)
 2 shift-width agreement: parent (>>), child (<<, +), child code (mask) and upper bound use the
   class's Dim in each ordering class, and no code outside the ordering classes / 3-D-only kernels
   shifts or masks an index by a literal dimension
"""
import os
import re

import tbf
import codec
from tbf import walk, kids, strip, AnalysisBroken

LEVEL = "other"
TECHNIQUE = "codec extraction ((base, offset, digit order) of every encoder/decoder, sympy expansion of closed forms) and shift-width agreement over the clang AST"

ORDERINGS = ["TbfMortonSpaceIndex", "TbfHilbertSpaceIndex"]
CONVENTION = {7: 3, 3: 1}
ORDER = "dim0-most-significant"


def codecs(facts, res):
    R = "C11.1.codec-agreement"
    per_class = {}
    n = 0
    for fn in facts.functions:
        if fn.get("inst"):
            continue
        for c in codec.find_codecs(facts, fn) + codec.closed_forms(facts, fn):
            if c["kind"] == "other":
                continue
            n += 1
            where = facts.loc(c["node"])
            key = "%s@%d" % (fn["qname"], c["node"]["l"][1])
            res.instance(R, key, where, "%s base %d offset %d %s" % (c["kind"], c["base"], c["offset"], c["order"]))
            per_class.setdefault(fn.get("cls") or fn["qname"], []).append(c)
            f = tbf.rel(facts.path_of(c["node"]))
            if c["base"] not in CONVENTION:
                res.violation(R, f, fn["qname"], key + ":base", c["node"]["l"][1], "relative-position code built in base %d; transfer codes use base 7, neighbour codes base 3" % c["base"])
                continue
            if c["offset"] != CONVENTION[c["base"]]:
                res.violation(R, f, fn["qname"], key + ":offset", c["node"]["l"][1],
                              "base-%d %s uses offset %d; every other site uses %d (codes would decode to a shifted relative position)" % (c["base"], c["kind"], c["offset"], CONVENTION[c["base"]]))
            if c["order"] != ORDER:
                res.violation(R, f, fn["qname"], key + ":order", c["node"]["l"][1],
                              "base-%d %s orders the digits '%s'; the convention shared by the tree, the decoders and the kernels is '%s'" % (c["base"], c["kind"], c["order"], ORDER))
    res.floor("C11.1", n, 19, "encoder/decoder sites (21 on the pinned tree; the inline encoders of the two per-cell transfer-list builders feed assertions only and may go)")
    for cls in ORDERINGS:
        cs = per_class.get(cls, [])
        for base in (7, 3):
            enc = [c for c in cs if c["base"] == base and c["kind"] == "enc"]
            dec = [c for c in cs if c["base"] == base and c["kind"] == "dec"]
            res.instance(R + ".inverse", "%s base %d" % (cls, base), "src/spacial", "%d encoders, %d decoders" % (len(enc), len(dec)))
            if not enc or not dec:
                raise AnalysisBroken("%s: base-%d encoder/decoder pair not found" % (cls, base))
    # upper-half filter
    R2 = "C11.1.upper-half-constant"
    k = 0
    for cls in ORDERINGS:
        for fn in facts.methods_of(cls):
            if fn["name"] not in ("getNeighborListForIndex", "getNeighborListForBlock"):
                continue
            found = False
            for x in walk(tbf.body(fn)):
                if x.get("k") == "BinaryOperator" and x.get("op") == "||":
                    a, b = [strip(c) for c in kids(x)]
                    if "upperExclusion" in facts.ntext(a) and b.get("k") == "BinaryOperator":
                        found = True
                        k += 1
                        txt = facts.ntext(b)
                        lhs, rhs = [strip(c) for c in kids(b)]

                        def through_const(e):
                            # the middle code hoisted into a const local
                            if e.get("k") == "DeclRefExpr":
                                dv = [v for v in walk(tbf.body(fn)) if v.get("k") == "VarDecl" and v.get("did") == e.get("did") and kids(v) and "const" in (v.get("t") or "")]
                                if len(dv) == 1:
                                    return strip(kids(dv[0])[0])
                            return e
                        lhs, rhs = (through_const(lhs), rhs) if b.get("op") == "<" else (lhs, through_const(rhs))
                        ok = b.get("op") == "<" and re.match(r"^(TbfUtils::)?lipow\(3,Dim\)/2$", facts.ntext(lhs)) is not None and rhs.get("k") == "DeclRefExpr"
                        ok = ok or (b.get("op") == ">" and re.match(r"^(TbfUtils::)?lipow\(3,Dim\)/2$", facts.ntext(rhs)) is not None)
                        res.instance(R2, "%s::%s" % (cls, fn["name"]), facts.loc(b), txt)
                        if not ok:
                            res.violation(R2, tbf.rel(facts.path_of(b)), fn["qname"], "filter", b["l"][1],
                                          "upper-half filter is '%s'; it must keep exactly the codes above the self code floor(3^Dim/2) so that each adjacent pair is visited from one side" % txt)
            if not found:
                raise AnalysisBroken("%s::%s: upper-half filter not found" % (cls, fn["name"]))
    res.floor("C11.1.filter", k, 4, "upper-half filters")


def shifts_in(facts, fn):
    out = []
    for x in walk(tbf.body(fn)):
        if x.get("k") in ("BinaryOperator", "CompoundAssignOperator") and x.get("op") in ("<<", ">>", "<<=", ">>="):
            out.append((x, strip(kids(x)[1])))
    return out


def shift_width(facts, res):
    """C11.2 (first half) is decided by the bit-provenance run of C11.4 for parent / child code / child;
    the level upper bound is folded concretely here: getUpperBound(l) = 2^(l*Dim)"""
    import bitdep
    R = "C11.2.shift-width"
    for cls in ORDERINGS:
        ms = [m for m in facts.methods_of(cls) if m["name"] == "getUpperBound" and not m.get("inst")]
        if len(ms) != 1:
            raise AnalysisBroken("%s::getUpperBound not found" % cls)
        for dim in ((3,) if "Hilbert" in cls else (1, 2, 3, 4)):
            bad = None
            for lvl in range(0, 63 // dim + 1):
                v = bitdep.Interp(facts, {"Dim": dim}, cls=cls).call(ms[0], [lvl])
                if isinstance(v, bitdep.Bits):
                    v = sum((1 << k) for k, e in enumerate(v.b) if e == 1) if all(e in (0, 1) for e in v.b) else None
                if v != (1 << (lvl * dim)) and bad is None:
                    bad = (lvl, v)
            res.instance(R, "%s::getUpperBound<Dim=%d>" % (cls, dim), facts.loc(ms[0]), "folded for levels 0..%d: 2^(level*Dim)" % (63 // dim))
            if bad:
                res.violation(R, tbf.rel(facts.path_of(ms[0])), ms[0]["qname"], "upper-bound<Dim=%d>@level%d" % (dim, bad[0]), ms[0]["l"][1],
                              "upper bound of level %d folds to %r, not 2^(level*Dim) = %d: indices and their range would use different widths" % (bad[0], bad[1], 1 << (bad[0] * dim)))


def literal_dimension(facts, res, roots_only=None):
    """no shift / mask of an index by a literal dimension outside the ordering classes and the 3-D kernels"""
    R = "C11.2.literal-dimension"
    n = 0
    hits = 0
    for fn in facts.functions:
        if fn.get("inst"):
            continue
        p = tbf.rel(facts.path_of(fn))
        if roots_only is None and (p.startswith("src/kernels/") or fn.get("cls") in ORDERINGS or p.startswith("src/utils/tbfrandom")):
            continue
        for x in walk(tbf.body(fn)):
            if x.get("k") in ("BinaryOperator", "CompoundAssignOperator") and x.get("op") in ("<<", ">>", "<<=", ">>=", "&"):
                r = strip(kids(x)[1])
                l = strip(kids(x)[0])
                if l.get("k") in ("IntegerLiteral",) or "ostream" in l.get("t", "") or "Stream" in l.get("t", ""):
                    continue
                n += 1
                lit = r.get("val") if r.get("k") == "IntegerLiteral" else None
                bad = (x["op"] != "&" and lit in (2, 3, 4)) or (x["op"] == "&" and lit in (3, 7, 15))
                if bad and re.search(r"[Ii]ndex|[Ii]dx|spaceIndex", facts.ntext(l)):
                    hits += 1
                    res.violation(R, p, fn["qname"], "%s@%d" % (facts.ntext(x)[:40], x["l"][1]), x["l"][1],
                                  "index '%s' is shifted/masked by the literal %d: hard-codes a space dimension outside the ordering class" % (facts.ntext(l), lit))
    return n, hits


LIST_BUILDERS = ["getInteractionListForIndex", "getInteractionListForBlock", "getNeighborListForIndex", "getNeighborListForBlock", "getSelfListForBlock",
                 "getNbInteractionsPerCell", "getNbNeighborsPerLeaf", "getNbChildrenPerCell"]
# what the per-cell and the per-group builders must share: neighbourhood limits, wrap shifts, too-close test, child loop, level guards
SHARED = ["Limits", "periodicShift", "isTooClose", "boxLimite", "getChildIndexFromParent", "inLevel", "std::abs", "IsPeriodic", "idxChild", "Pos[idxDim]"]


XFIELDS = []


def sibling_builders(facts, res):
    c = facts.cls("TbfXtoXInteraction")
    if c is None or not c.get("fields"):
        raise AnalysisBroken("TbfXtoXInteraction: fields not found")
    XFIELDS[:] = [f["name"] for f in c["fields"]]
    """C11.3: the two ordering classes build their lists the same way (apart from the index conversions
    hidden in getIndexFromBoxPos / getBoxPosFromIndex), and in each class the per-cell and per-group
    builders use the same neighbourhood limits, periodic wrap shifts, too-close test and child loop"""
    import sibling
    R = "C11.3.sibling-builders"
    n = 0
    # C06.8 (decided on the same facts): the coordinates stored in a group header are the decoding of the index stored next to them,
    # so a per-group builder may read either; without it the two are different values
    import c06
    hdr = tbf.Result("C06")
    try:
        stored_is_decoded = c06.header_coordinates(facts, hdr)
    except AnalysisBroken:
        stored_is_decoded = False
    lemmas = {}

    def parent_lemma(cls, helper):
        """is helper(decode(i)) == decode(parent(i)) for every index i, bit for bit (all dimensions of the class)?"""
        if (cls, helper) in lemmas:
            return lemmas[(cls, helper)]
        import bitdep
        from bitdep import Bits
        hs = [m for m in facts.methods_of(cls) if m["name"] == helper and not m.get("inst") and len(m.get("params", [])) == 1 and tbf.body(m) is not None]
        ok = len(hs) == 1
        hil = "Hilbert" in cls
        for dim in ((3,) if hil else (1, 2, 3, 4)):
            if not ok:
                break
            try:
                nb = dim * (63 // dim)
                it = bitdep.Interp(facts, {"Dim": dim}, ("Hilbert2Morton", "Morton2Hilbert") if hil else (), cls=cls)
                it.stop_on_cycle = True
                dec = [m for m in facts.methods_of(cls) if m["name"] == "getBoxPosFromIndex" and not m.get("inst")][0]
                par = [m for m in facts.methods_of(cls) if m["name"] == "getParentIndex" and not m.get("inst")][0]
                lhs = it.call(hs[0], [it.call(dec, [Bits.input("m", nb)])])
                rhs = it.call(dec, [it.call(par, [Bits.input("m", nb)])])
                ok = isinstance(lhs, list) and isinstance(rhs, list) and len(lhs) == len(rhs) == dim and \
                    all(isinstance(a, Bits) and isinstance(b, Bits) and a.b == b.b for a, b in zip(lhs, rhs))
            except AnalysisBroken:
                ok = False
        lemmas[(cls, helper)] = ok
        res.instance(R + ".cell-vs-group", "lemma %s::%s(decode(i)) == decode(parent(i))" % (cls, helper), facts.loc(hs[0]) if hs else cls,
                     "proven bit for bit by provenance" if ok else "not provable (the decoder of this ordering is not a plain de-interleave of its argument): the two forms stay different expressions")
        return ok

    def apply_lemma(cls, k):
        """rewrites helper(decode(X)) into decode(parent(X)) wherever the identity is proven for this ordering"""
        m0 = re.match(r"^call (?:\*?this)?\.?(\w+)\(", k)
        if m0 and (m0.group(1) in ("getBoxPosFromIndex", "getParentIndex") or (m0.group(1) != "getIndexFromBoxPos" and any(mm["name"] == m0.group(1) and len(mm.get("params", [])) == 1 and "array" in mm["params"][0].get("t", "") for mm in facts.methods_of(cls)) and parent_lemma(cls, m0.group(1)))
                   or re.match(r"^call \w+\.get(Cell|Leaf)BoxCoord\(", k)):
            return "call <pure coordinate conversion>"   # const conversions whose values are compared where they are used (cond / assign atoms)
        if stored_is_decoded:
            k = re.sub(r"(\w+)\.get(Cell|Leaf)BoxCoord\(([^()]*)\)", r"*this.getBoxPosFromIndex(\1.get\2SpacialIndex(\3))", k)
        out, pos = "", 0
        for m in re.finditer(r"(?:\*this\.)?(\w+)\(\*this\.getBoxPosFromIndex\(", k):
            if m.start() < pos or m.group(1) in ("getBoxPosFromIndex", "getIndexFromBoxPos", "AddVecToVec"):
                continue
            d, j = 1, m.end()
            while j < len(k) and d:
                d += {"(": 1, ")": -1}.get(k[j], 0)
                j += 1
            if d or j >= len(k) or k[j] != ")":
                continue
            if not any(mm["name"] == m.group(1) for mm in facts.methods_of(cls)) or not parent_lemma(cls, m.group(1)):
                continue
            out += k[pos:m.start()] + "*this.getBoxPosFromIndex(*this.getParentIndex(" + k[m.end():j - 1] + "))"
            pos = j + 1
        return out + k[pos:]
    deferred = []
    for name in LIST_BUILDERS:
        a = [m for m in facts.methods_of(ORDERINGS[0]) if m["name"] == name]
        b = [m for m in facts.methods_of(ORDERINGS[1]) if m["name"] == name]
        if len(a) != 1 or len(b) != 1:
            raise AnalysisBroken("list builder %s not found in both ordering classes" % name)
        try:
            sibling.compare(facts, res, R, a[0], b[0], what="ordering ", rewrite=apply_lemma, proven_helper=parent_lemma)
        except AnalysisBroken as e_:
            deferred.append(e_)      # a restructuring this comparison cannot judge must not hide what the per-cell / per-group comparison finds
        n += 1
    for cls in ORDERINGS:
        for x, y in (("getInteractionListForIndex", "getInteractionListForBlock"), ("getNeighborListForIndex", "getNeighborListForBlock")):
            fa = [m for m in facts.methods_of(cls) if m["name"] == x][0]
            fb = [m for m in facts.methods_of(cls) if m["name"] == y][0]
            # a multi-statement helper of the class called by one of the two builders only: part of that builder moved into it, the atoms of a
            # call and of the code it replaced cannot be matched (guessing would raise false alarms): no verdict
            own = {m["name"]: m for m in facts.methods_of(cls) if tbf.body(m) is not None and not m.get("inst")}

            def helpers_called(f_):
                out = set()
                for c_ in walk(tbf.body(f_)):
                    if c_.get("k") in ("CallExpr", "CXXMemberCallExpr"):
                        nm_ = tbf.callee_name(c_)
                        b_ = tbf.call_base(c_)
                        if nm_ in own and (b_ is None or strip(b_).get("k") == "CXXThisExpr"):
                            g_ = own[nm_]
                            sts = [t_ for t_ in kids(tbf.body(g_))]
                            if not (len(sts) == 1 and sts[0].get("k") == "ReturnStmt"):
                                out.add(nm_)
                return out
            ha, hb = helpers_called(fa), helpers_called(fb)
            one_sided = sorted((ha ^ hb) - {"getBoxPosFromIndex", "getIndexFromBoxPos", "getParentIndex", "getChildIndexFromParent", "getRelativePosFromInteractionIndex", "getRelativePosFromNeighborIndex"}
                               - {h_ for h_ in (ha ^ hb) if len(own[h_].get("params", [])) == 1 and "array" in own[h_]["params"][0].get("t", "")})
            # (a one-parameter coordinate helper is either rewritten by the proven parent lemma, or - lemma not provable for this ordering -
            #  left in place: the comparison below then reports that one builder takes the parent's coordinates from somewhere else)
            if one_sided:
                raise AnalysisBroken("%s: %s calls the helper %s(), which %s does not: part of one builder was moved into it; the per-cell / per-group comparison cannot follow - re-confirm by reading"
                                     % (cls, x if one_sided[0] in ha else y, one_sided[0], y if one_sided[0] in ha else x))
            # one-expression helpers of the class that only one of the two builders calls are inlined on that side
            def one_expr_called(f_):
                out = {}
                for c_ in walk(tbf.body(f_)):
                    if c_.get("k") in ("CallExpr", "CXXMemberCallExpr"):
                        nm_ = tbf.callee_name(c_)
                        b_ = tbf.call_base(c_)
                        if nm_ in own and (b_ is None or strip(b_).get("k") == "CXXThisExpr"):
                            sts = [t_ for t_ in kids(tbf.body(own[nm_]))]
                            if len(sts) == 1 and sts[0].get("k") == "ReturnStmt" and kids(sts[0]):
                                out[nm_] = own[nm_]
                return out
            oa, ob = one_expr_called(fa), one_expr_called(fb)
            keep = {"getBoxPosFromIndex", "getIndexFromBoxPos", "getParentIndex", "getChildIndexFromParent", "getRelativePosFromInteractionIndex", "getRelativePosFromNeighborIndex"}
            inl = {k_: v_ for k_, v_ in list(oa.items()) + list(ob.items()) if (k_ in oa) != (k_ in ob) and k_ not in keep}
            A = sibling.atoms(facts, fa, only=SHARED, inline=inl)
            B = sibling.atoms(facts, fb, only=SHARED, inline=inl)
            # the per-group builder wraps the per-cell logic in a loop over the group's cells: compare the atom *texts*
            # after replacing the cell under consideration by a common token
            def norm(d, per_block):
                out = {}
                ren = {}

                def renumber(m):
                    return ren.setdefault(m.group(0), "%s:w%d" % (m.group(1), len(ren) + 1))
                for k, v in d.items():
                    if k.split(" ")[0] not in ("cond", "loop", "assign"):
                        continue
                    # locals are numbered per function; the two builders declare different sets, so number again by first use among the compared atoms
                    k = re.sub(r"(local|mutable):[uv]\d+", renumber, k)
                    if per_block:
                        k = apply_lemma(cls, k)
                    k2 = re.sub(r"param0\.get(Cell|Leaf)SpacialIndex\(loopvar\)", "CELL", k) if per_block else k.replace("param0", "CELL")
                    k2 = re.sub(r"param1", "LEVEL", k2) if per_block else k2.replace("param1", "LEVEL")
                    out[k2] = v
                return out
            A2, B2 = norm(A, False), norm(B, True)
            kinds = ("cond", "loop", "assign")
            A3 = set(k for k in A2 if k.split(" ")[0] in kinds)
            B3 = set(k for k in B2 if k.split(" ")[0] in kinds)
            # locals are numbered by first use among the compared atoms; a refactoring that moves some of them into a helper on one side
            # shifts the numbering without changing anything.  Before reporting, look for a renaming of the per-group builder's locals
            # (a bijection, kind preserving) under which its atoms contain the per-cell builder's.
            if A3 - B3:
                ren2 = _local_bijection(sorted(A3 - B3), sorted(B3 - A3), sorted(A3 & B3))
                if ren2 is not None:
                    B2 = {_rename_locals(k, ren2): v for k, v in B2.items()}
                    B3 = set(k for k in B2 if k.split(" ")[0] in kinds)
            res.instance(R + ".cell-vs-group", "%s::%s vs %s" % (cls, x, y), facts.loc(fb), "%d / %d shared-geometry atoms" % (len(A3), len(B3)))
            opaque = [k for k in sorted(A3 ^ B3) if re.search(r"\?[A-Z]\w+", k)]
            if opaque:
                raise AnalysisBroken("%s: %s and %s differ in a step whose expression the comparison cannot read (`%s`): one of them was restructured; re-confirm the per-cell / per-group rule by reading" % (cls, x, y, opaque[0][:100]))
            for k in sorted(A3 - B3):
                res.violation(R + ".cell-vs-group", tbf.rel(facts.path_of(fb)), fb["qname"], ("missing:" + k)[:110], fb["l"][1],
                              "the per-cell builder %s has `%s` but the per-group builder does not: the two would list different cells" % (x, k[:160]))
            for k in sorted(B3 - A3):
                if re.match(r"^assign local:w\d+\.(%s) " % "|".join(XFIELDS), k) or "getNbCells" in k or "getNbLeaves" in k or "testSelfInclusion" in k or "getElementFromSpacialIndex" in k or "getStartingSpacialIndex" in k or "getEndingSpacialIndex" in k:
                    continue   # iteration over the group's cells and in/out-of-group classification exist only in the per-group builder
                res.violation(R + ".cell-vs-group", tbf.rel(facts.path_of(B2[k])), fb["qname"], ("extra:" + k)[:110], B2[k]["l"][1],
                              "the per-group builder %s has `%s` which the per-cell builder %s does not" % (y, k[:160], x))
            n += 1
    if deferred and not any(v["rule"].startswith(R) for v in res.violations):
        raise deferred[0]
    res.floor(R, n, 12, "sibling comparisons")

_LOC = re.compile(r"(local|mutable):w\d+")


def _rename_locals(k, ren):
    return _LOC.sub(lambda m: ren.get(m.group(0), m.group(0)), k)


def _local_bijection(onlyA, onlyB, common):
    """a kind-preserving bijection r of local names with { r(b) : b in onlyB } >= onlyA and r the identity on the names of `common`
    atoms that do not occur in onlyA / onlyB; None when there is none.  Atoms are paired through their texts with the local names blanked."""
    def blank(k):
        return _LOC.sub(lambda m: m.group(1) + ":_", k)
    byb = {}
    for b in onlyB:
        byb.setdefault(blank(b), []).append(b)
    fixed = set(m.group(0) for k in common for m in _LOC.finditer(k))
    ren = {}
    used = set()

    def unify(a, b, ren, used):
        na, nb = [m.group(0) for m in _LOC.finditer(a)], [m.group(0) for m in _LOC.finditer(b)]
        if len(na) != len(nb):
            return None
        r2, u2 = dict(ren), set(used)
        for x_, y_ in zip(na, nb):
            if x_.split(":")[0] != y_.split(":")[0]:
                return None
            if y_ in r2:
                if r2[y_] != x_:
                    return None
            else:
                if x_ in u2:
                    return None
                r2[y_] = x_
                u2.add(x_)
        return r2, u2

    def solve(i, ren, used, taken):
        if i == len(onlyA):
            return ren
        a = onlyA[i]
        for b in byb.get(blank(a), []):
            if b in taken:
                continue
            u = unify(a, b, ren, used)
            if u is None:
                continue
            out = solve(i + 1, u[0], u[1], taken | {b})
            if out is not None:
                return out
        return None
    ren = solve(0, {}, set(), frozenset())
    if ren is None:
        return None
    # the renaming must not disturb atoms both sides already share
    for k in common:
        if _rename_locals(k, ren) != k and _rename_locals(k, ren) not in common and k not in onlyA:
            # a shared atom changes under the renaming: acceptable only if its image is again an atom of the per-cell side
            return None
    return ren


def bit_laws(facts, res):
    """C11.4: per-bit provenance of the coordinate<->index conversions and of the parent/child algebra"""
    import bitdep
    from bitdep import Bits
    R = "C11.4.bit-provenance"
    n = 0

    def one(cls, name):
        ms = [m for m in facts.methods_of(cls) if m["name"] == name and not m.get("inst")]
        if len(ms) != 1:
            raise AnalysisBroken("%s::%s not found" % (cls, name))
        return ms[0]

    def exact(src, bit):
        return (frozenset([(src, bit)]), True)

    def expect(fn, key, got, want, what):
        """got: Bits; want: list of 64 expected entries"""
        if not isinstance(got, Bits):
            if isinstance(got, int) and not isinstance(got, bool):
                got = Bits.const(got)
            elif isinstance(got, bitdep.Undefined):
                res.violation(R, tbf.rel(facts.path_of(fn)), fn["qname"], key, fn["l"][1], "%s is undefined for inputs inside the 63-bit range: %s" % (what, got.why))
                return False
            else:
                raise AnalysisBroken("%s: %s evaluates to %r in the bit-provenance run" % (fn["qname"], what, got))
        for j in range(64):
            if got.b[j] != want[j]:
                res.violation(R, tbf.rel(facts.path_of(fn)), fn["qname"], key, fn["l"][1],
                              "%s: bit %d is a %s; the index algebra needs a %s (first differing bit; holds for every input because the run is over bit provenance, not values)"
                              % (what, j, bitdep.describe(got.b[j]), bitdep.describe(want[j])))
                return False
        return True

    def run_fn(fn, consts, opaque, cls, args_abs, cands, key, what):
        """abstract run; termination: proven when every data-dependent loop exits definitely under the abstract state.
        When the abstract run cycles, the function is folded on boundary constants of its input domain; a fold that provably
        cycles (condition constantly true, state unchanged) is a witness of non-termination: violation.  No witness: no verdict."""
        it = bitdep.Interp(facts, consts, opaque, cls=cls)
        try:
            out = it.call(fn, args_abs())
            capped = [st for st in it.loop_status.values() if st[1] == "capped"]
            if capped:
                raise AnalysisBroken("%s: termination of the loop at line %d neither proven nor refuted in %d abstract turns" % (key, capped[0][0]["l"][1], capped[0][2]))
            res.instance(R + ".termination", key, facts.loc(fn), "every data-dependent loop exits for every input of the domain (abstract run: %s)" % ", ".join("line %d after <= %d turns" % (st[0]["l"][1], st[2]) for st in it.loop_status.values()))
            return it, out
        except bitdep.NonTerminating as e:
            loop = e.node
        for c in cands:
            it2 = bitdep.Interp(facts, consts, opaque, cls=cls)
            try:
                it2.call(fn, [list(x) if isinstance(x, list) else x for x in c])
            except bitdep.NonTerminating:
                res.violation(R + ".termination", tbf.rel(facts.path_of(loop)), fn["qname"], key + ":loop@%d" % loop["l"][1], loop["l"][1],
                              "%s never returns for the valid input %s (index fits 63 bits): constant folding of the function on this input reaches a state where the loop condition is constantly true and nothing changes any more" % (what, c))
                break
            except AnalysisBroken:
                continue
        else:
            raise AnalysisBroken("%s: the abstract run cycles in the loop at line %d but no boundary input reproduces it: termination neither proven nor refuted" % (key, loop["l"][1]))
        # provenance of what the loop has produced when the abstract run stops changing (the value a terminating variant would return)
        it = bitdep.Interp(facts, consts, opaque, cls=cls)
        it.stop_on_cycle = True
        return it, it.call(fn, args_abs())

    def interleave(dim, wd, src="x%d"):
        return [exact(src % (dim - 1 - j % dim), j // dim) if j < dim * wd else 0 for j in range(64)]

    for cls in ORDERINGS:
        hil = "Hilbert" in cls
        opaque = ("Hilbert2Morton", "Morton2Hilbert") if hil else ()
        for dim in ((3,) if hil else (1, 2, 3, 4)):
            wd = 63 // dim
            consts = {"Dim": dim}
            # encoder
            fn = one(cls, "getIndexFromBoxPos")
            key = "%s::getIndexFromBoxPos<Dim=%d>" % (cls, dim)
            import itertools
            pts = sorted(set([0, 1, (1 << (wd - 1)), (1 << wd) - 1]))
            cands = [[list(c)] for c in itertools.product(pts, repeat=dim)]
            it, out = run_fn(fn, consts, opaque, cls, lambda: [[Bits.input("x%d" % d, wd) for d in range(dim)]], cands, key, "the coordinate -> index conversion")
            for (un_, um_) in getattr(it, "ub_events", [])[:1]:
                res.violation(R, tbf.rel(facts.path_of(un_)), fn["qname"], key + ":signed-shift", un_["l"][1],
                              "%s: for coordinates that use all %d bits of the deepest level (index of 63 bits) %s - undefined behaviour (signed overflow) even though the shifted-out value is not used afterwards; shift an unsigned register" % (key, wd, um_))
            if hil:
                calls = [c for c in it.opaque_calls if c[0] == "Morton2Hilbert"]
                if not calls:
                    res.violation(R, tbf.rel(facts.path_of(fn)), fn["qname"], key + ":conv", fn["l"][1], "the Hilbert encoder returns an index that never went through Morton2Hilbert while the rest of the class treats indices as Hilbert-ordered")
                    continue
                if len(calls) != 1:
                    raise AnalysisBroken("%s: %d Morton2Hilbert conversions in the encoder (1 confirmed by reading)" % (key, len(calls)))
                ok = expect(fn, key + ":ret", out, Bits.input(calls[0][1], 63).b, "returned index (must be the converted interleave, nothing else)")
                out = calls[0][2][0]
            ok = expect(fn, key, out, interleave(dim, wd), "interleaved index")
            res.instance(R, key, facts.loc(fn), "bits 0..%d = interleave of %d coordinates x %d bits (dimension 0 most significant)%s; %d data-dependent loop(s) unrolled 64x, termination not decided"
                         % (dim * wd - 1, dim, wd, ", then Morton2Hilbert" if hil else "", len(it.unrolled)))
            n += 1
            # decoder
            fn = one(cls, "getBoxPosFromIndex")
            key = "%s::getBoxPosFromIndex<Dim=%d>" % (cls, dim)
            nb = dim * wd
            cands = [[m] for m in sorted(set([0, 1, 1 << (nb - 1), (1 << nb) - 1, (1 << (nb - 1)) | 1]))]
            it, out = run_fn(fn, consts, opaque, cls, lambda: [Bits.input("m", dim * wd)], cands, key, "the index -> coordinate conversion")
            src = "m"
            if hil:
                calls = [c for c in it.opaque_calls if c[0] == "Hilbert2Morton"]
                if not calls:
                    res.violation(R, tbf.rel(facts.path_of(fn)), fn["qname"], key + ":conv", fn["l"][1], "the Hilbert decoder de-interleaves its argument without Hilbert2Morton while the encoder returns Hilbert-ordered indices")
                    continue
                if len(calls) != 1:
                    raise AnalysisBroken("%s: %d Hilbert2Morton conversions in the decoder (1 confirmed by reading)" % (key, len(calls)))
                expect(fn, key + ":arg", calls[0][2][0], Bits.input("m", dim * wd).b, "argument of Hilbert2Morton (must be the given index)")
                src = calls[0][1]
            if not isinstance(out, list) or len(out) != dim:
                raise AnalysisBroken("%s: result is not an array of %d coordinates" % (key, dim))
            for d in range(dim):
                expect(fn, key + ":dim%d" % d, out[d], [exact(src, k * dim + dim - 1 - d) if k < wd else 0 for k in range(64)], "coordinate %d" % d)
            res.instance(R, key, facts.loc(fn), "coordinate d bit k = index bit k*Dim+Dim-1-d for k < %d: inverse of the encoder" % wd)
            n += 1
            # parent / child code / child
            fn = one(cls, "getParentIndex")
            out = bitdep.Interp(facts, consts, cls=cls).call(fn, [Bits.input("i", 63)])
            expect(fn, "%s::getParentIndex<Dim=%d>" % (cls, dim), out, [exact("i", j + dim) if j + dim < 63 else 0 for j in range(64)], "parent index (drop the lowest Dim bits)")
            fn = one(cls, "childPositionFromParent")
            out = bitdep.Interp(facts, consts, cls=cls).call(fn, [Bits.input("i", 63)])
            expect(fn, "%s::childPositionFromParent<Dim=%d>" % (cls, dim), out, [exact("i", j) if j < dim else 0 for j in range(64)], "child code (the lowest Dim bits)")
            fn = one(cls, "getChildIndexFromParent")
            out = bitdep.Interp(facts, consts, cls=cls).call(fn, [Bits.input("p", 63 - dim), Bits.input("c", dim)])
            expect(fn, "%s::getChildIndexFromParent<Dim=%d>" % (cls, dim), out, [exact("c", j) if j < dim else exact("p", j - dim) if j < 63 else 0 for j in range(64)], "child index (parent bits above the code)")
            res.instance(R, "%s parent/child<Dim=%d>" % (cls, dim), facts.loc(fn), "parent = index>>Dim, code = low Dim bits, child = parent:code, as bit copies")
            n += 3
    res.floor(R, n, 25, "bit-provenance obligations")


ALGEBRA_FNS = ("getBoxPosFromIndex", "getIndexFromBoxPos", "getParentIndex", "getChildIndexFromParent", "childPositionFromParent")


def level_locality(facts, res, cls="TbfMortonSpaceIndex", R="C11.6.level-locality", min_level_fns=6, levels=True):
    """The grid of level l has 2^l cells per dimension: everything a function of the ordering that takes a LEVEL computes - limits, wrap
    moduli, masks - must come from that argument.  The tree height enters the ordering for the leaf level only (position -> leaf coordinate,
    the ...AtLeafLevel helpers).  Decided by reachability: no function with a level parameter reaches, through same-class callees, a call of
    getTreeHeight(), a height-only helper (no parameter, reads the height) or a data member that some function fills from the height."""
    methods = [m for m in facts.methods_of(cls) if tbf.body(m) is not None and not m.get("inst")]
    if not methods:
        raise AnalysisBroken("%s: no methods" % cls)
    byname = {}
    for m in methods:
        byname.setdefault(m["name"], []).append(m)
    fields = set(f["name"] for c in facts.classes if c["name"] == cls for f in c.get("fields", []))

    def reads_height(e):
        return [x for x in walk(e) if x.get("k") in ("CallExpr", "CXXMemberCallExpr") and tbf.callee_name(x) == "getTreeHeight"]
    height_helpers = {m["name"] for m in methods if not m["params"] and m["kind"] not in ("CXXConstructor", "CXXDestructor") and reads_height(tbf.body(m))}
    changed = True
    while changed:      # helpers of helpers
        changed = False
        for m in methods:
            if not m["params"] and m["kind"] not in ("CXXConstructor", "CXXDestructor") and m["name"] not in height_helpers:
                if any(x.get("k") in ("CallExpr", "CXXMemberCallExpr") and tbf.callee_name(x) in height_helpers for x in walk(tbf.body(m))):
                    height_helpers.add(m["name"])
                    changed = True
    # members filled from the height (constructor bodies and initialiser lists included)
    height_members = {}
    for m in methods:
        roots = [tbf.body(m)] + [c for i in m.get("inits", []) for c in i.get("c", []) if c]
        tbf.link_parents(tbf.body(m))
        tainted = set()
        again = True
        while again:
            again = False
            for r_ in roots:
                for x in walk(r_):
                    tgt = src = None
                    if x.get("k") == "VarDecl" and kids(x):
                        tgt, src = ("local", x["did"]), kids(x)[0]
                    elif x.get("k") in ("BinaryOperator", "CompoundAssignOperator") and x.get("op", "").endswith("=") and x.get("op") not in ("==", "!=", "<=", ">="):
                        l = strip(kids(x)[0])
                        while l.get("k") in ("ArraySubscriptExpr", "CXXOperatorCallExpr") and len(kids(l)) >= 2:
                            l = strip(kids(l)[-2])
                        if l.get("k") in ("MemberExpr", "CXXDependentScopeMemberExpr") and l.get("name") in fields:
                            tgt = ("member", l["name"])
                        elif l.get("k") == "DeclRefExpr":
                            tgt = ("local", l.get("did"))
                        src = kids(x)[1]
                    if tgt is None:
                        continue
                    # also tainted through the loop that contains the store (a bound taken from the height decides how many bits / entries are set)
                    ctx = [src] + [a["c"][1] for a in tbf.ancestors(x) if a.get("k") == "ForStmt" and a["c"][1] is not None] if x.get("_p") is not None else [src]
                    dirty = any(reads_height(c_) or any(z.get("k") in ("CallExpr", "CXXMemberCallExpr") and tbf.callee_name(z) in height_helpers for z in walk(c_))
                                or any(z.get("k") == "DeclRefExpr" and ("local", z.get("did")) in tainted for z in walk(c_)) for c_ in ctx)
                    if dirty and tgt not in tainted:
                        tainted.add(tgt)
                        again = True
        for kind, nm in tainted:
            if kind == "member":
                height_members.setdefault(nm, m)
        for i in m.get("inits", []):
            if i.get("member") in fields and i.get("written") and any(reads_height(c_) for c_ in i.get("c", []) if c_):
                height_members.setdefault(i["member"], m)
    level_fns = [m for m in methods if any(re.search(r"level", p_.get("name") or "", re.I) for p_ in m["params"])]
    if len(level_fns) < min_level_fns:
        raise AnalysisBroken("%s: %d functions with a level parameter (%d confirmed by reading)" % (cls, len(level_fns), min_level_fns))
    # the index algebra has no level argument at all (a cell's index and coordinates do not say which level they are of): it can satisfy
    # parent containment at every level only if it does not depend on the height either
    algebra = [m for m in methods if m["name"] in ALGEBRA_FNS]
    if len(algebra) < 5:
        raise AnalysisBroken("%s: %d of the level-free index-algebra functions found (%s)" % (cls, len(algebra), sorted(ALGEBRA_FNS)))
    res.instance(R, "%s" % cls, facts.loc(methods[0]), "%d functions take a level; height-only helpers %s; members filled from the height %s" % (len(level_fns), sorted(height_helpers) or "none", sorted(height_members) or "none"))
    n = 0
    for m in algebra:
        seen = set()
        stack = [(m, [m["name"]])]
        hit = None
        while stack and hit is None:
            g, pathn = stack.pop()
            if id(g) in seen:
                continue
            seen.add(id(g))
            n += 1
            for x in walk(tbf.body(g)):
                if x.get("k") in ("CallExpr", "CXXMemberCallExpr"):
                    nm = tbf.callee_name(x)
                    if nm == "getTreeHeight" or nm in height_helpers:
                        hit = (x, pathn, "calls %s()" % nm)
                        break
                    if nm in byname and (tbf.call_base(x) is None or strip(tbf.call_base(x)).get("k") == "CXXThisExpr"):
                        for h in byname[nm]:
                            if h["kind"] not in ("CXXConstructor", "CXXDestructor"):
                                stack.append((h, pathn + [nm]))
                elif x.get("k") in ("MemberExpr", "CXXDependentScopeMemberExpr") and x.get("name") in height_members and (not kids(x) or strip(kids(x)[0]).get("k") == "CXXThisExpr"):
                    hit = (x, pathn, "reads the member '%s' filled from the tree height" % x["name"])
                    break
        if hit:
            x, pathn, what = hit
            res.violation(R, tbf.rel(facts.path_of(x)), m["qname"], "height-driven:%s" % m["name"], x["l"][1],
                          "%s(...) has no level argument but %s%s: the same coordinates get one index whatever their level, computed as if they were leaf coordinates - for a curve whose index is not a plain bit interleave (Hilbert) the index of a cell above the leaves is then not the prefix of its descendants' indices, i.e. the parent of an index is not the cell that contains it"
                          % (m["name"], ("through %s " % " -> ".join(pathn[1:])) if len(pathn) > 1 else "", what))
    for m in (level_fns if levels else []):     # (for an ordering whose level-free algebra is already height-driven the list builders only inherit it)
        seen = set()
        stack = [(m, [m["name"]])]
        while stack:
            g, pathn = stack.pop()
            if id(g) in seen:
                continue
            seen.add(id(g))
            n += 1
            for x in walk(tbf.body(g)):
                bad = None
                if x.get("k") in ("CallExpr", "CXXMemberCallExpr"):
                    nm = tbf.callee_name(x)
                    if nm == "getTreeHeight" or nm in height_helpers:
                        bad = "calls %s()" % nm
                    elif nm in byname and (tbf.call_base(x) is None or strip(tbf.call_base(x)).get("k") == "CXXThisExpr"):
                        for h in byname[nm]:
                            if h["kind"] not in ("CXXConstructor", "CXXDestructor"):
                                stack.append((h, pathn + [nm]))
                elif x.get("k") in ("MemberExpr", "CXXDependentScopeMemberExpr") and x.get("name") in height_members and (not kids(x) or strip(kids(x)[0]).get("k") == "CXXThisExpr"):
                    bad = "reads the member '%s', which %s fills from the tree height" % (x["name"], height_members[x["name"]]["name"])
                if bad:
                    res.violation(R, tbf.rel(facts.path_of(x)), g["qname"], "%s:%s@%d" % (m["name"], bad.split(" ")[1].strip("'()"), x["l"][1]), x["l"][1],
                                  "%s(..., level, ...) %s%s: what it computes for a level above the leaves is sized for the leaf level (a periodic wrap or a limit taken at 2^(height-1) instead of 2^level)"
                                  % (m["name"], ("through %s " % " -> ".join(pathn[1:])) if len(pathn) > 1 else "", bad))
    return n


def run(res, tier):
    facts = tbf.scan("core")
    res.units.append("umbrella TU 'core': TbfMortonSpaceIndex, TbfHilbertSpaceIndex, rotation / uniform kernels (closed forms), all non-kernel code (literal-dimension rule)")
    res.rule("C11.1 every relative-position encoder/decoder = (base 7, offset 3) or (base 3, offset 1), dimension 0 most significant; decoders present for each base; closed-form table indices agree; upper-half filter = floor(3^Dim/2) < code")
    res.rule("C11.2 parent/child/child-code/upper-bound shifts use the class's Dim; no literal-dimension shift or mask of an index outside ordering classes and 3-D kernels")
    codecs(facts, res)
    shift_width(facts, res)
    # the width of the arithmetic the index algebra is evaluated in: no 32-bit shift by a run-time level inside the ordering classes (rule of C15.4)
    import c15
    sub = tbf.Result("C15")
    c15.shift_width(facts, sub)
    k = 0
    for v in sub.violations:
        if "/spacial/" in v["file"]:
            k += 1
            res.violation("C11.2.shift-type", v["file"], v["function"], v["key"], v["line"], v["msg"] + " - indices of deep levels are no longer in bijection with the grid coordinates")
    res.instance("C11.2.shift-type", "ordering classes", "src/spacial", "%d 32-bit shifts by a run-time amount" % k)
    res.rule("C11.3 sibling agreement: Morton and Hilbert list builders / coordinate clamp / parent-child algebra have equal behavioural atoms; per-cell and per-group builders share limits, wrap shifts, too-close test, child loop, level guards")
    nv0_ = None
    deferred_ = []       # a comparison that cannot follow a restructuring must not hide what the other clauses find in the same change
    try:
        sibling_builders(facts, res)
    except AnalysisBroken as e_:
        deferred_.append(e_)
        nv0_ = len(res.violations)
    res.rule("C11.4 bit provenance (abstract interpretation, Dim = 1..4): index bit k*Dim+Dim-1-d is a copy of bit k of coordinate d and nothing else, the decoder is its inverse, parent/child-code/child are the matching bit moves (Hilbert: around its two table conversions); hence parent coordinates = child coordinates >> 1 and the child code is the octant, for every input. Termination of the data-dependent loops and the Hilbert tables are not decided")
    bit_laws(facts, res)
    res.rule("C11.6 level locality (Morton ordering): no function that takes a level reaches, through same-class callees, getTreeHeight(), a height-only helper or a member filled from the height - limits, wrap moduli and masks of level l come from l")
    res.floor("C11.6", level_locality(facts, res), 8, "functions reachable from level-parameterised functions")
    res.floor("C11.6.hilbert", level_locality(facts, res, cls="TbfHilbertSpaceIndex", min_level_fns=5, levels=False), 4, "functions reachable from the Hilbert ordering's level-parameterised / index-algebra functions")
    res.rule("C11.5 lists and levels fit together: with the window clamps, wrap and shift, too-close threshold, empty-below level, self exclusion and upper-half filter read from the per-cell builders, every other leaf cell (non periodic) / every unwrapped leaf cell of the images -1..1 (periodic, heights from 1) reaches a target through the near list or the interaction list of exactly one level (rules/decomp.py; Dim 1 and 2)")
    import decomp
    lv = {}
    for g_ in facts.globals:
        if g_["name"] in ("TbfDefaultLastLevel", "TbfDefaultLastLevelPeriodic") and g_.get("c"):
            lit = [z for z in walk(g_["c"][0]) if z.get("k") == "IntegerLiteral"]
            if len(lit) == 1:
                lv[g_["name"]] = int(lit[0]["val"])
    if len(lv) != 2:
        raise AnalysisBroken("default upper working levels not found as integer constants")
    n5 = decomp.check(facts, res, "C11.5.lists-and-levels", ORDERINGS[0], lv["TbfDefaultLastLevel"], thorough=(tier == "thorough"))
    n5 += decomp.check_periodic(facts, res, "C11.5.lists-and-levels", ORDERINGS[0], lv["TbfDefaultLastLevelPeriodic"], thorough=(tier == "thorough"))
    res.floor("C11.5.lists-and-levels", n5, 2000, "cell pairs of the model")
    res.instance("C11.5.lists-and-levels", "model size", "rules/decomp.py", "%d cell pairs examined (non periodic + periodic)" % n5)
    n, hits = literal_dimension(facts, res)
    res.instance("C11.2.literal-dimension", "scan", "src/", "%d shift/mask expressions examined outside ordering classes and kernels" % n)
    # positive control (expected count on a healthy tree is zero)
    fx = os.path.join(tbf.VERIF, "fixtures", "c11_literal_shift.cpp")
    ff = tbf.scan_file(fx, [], [os.path.join(tbf.VERIF, "fixtures") + os.sep])
    ctl = tbf.Result("control")
    _n, h = literal_dimension(ff, ctl, roots_only=True)
    if h != 2:
        raise AnalysisBroken("positive control fixtures/c11_literal_shift.cpp: %d of 2 literal-dimension constructs reported" % h)
    res.instance("C11.2.literal-dimension", "positive control", "verif:fixtures/c11_literal_shift.cpp", "2 of 2 seeded constructs reported")
    if deferred_:
        known_ = tbf.load_known()
        fresh = [v for v in res.violations[nv0_:] if not tbf.is_known("C11", v, known_)]
        if not fresh:
            raise deferred_[0]
